"""Bounded stand-in for C18 (sequential part): VerifierDB as a map -- what was stored under a name is what is found, keys()
lists exactly the stored names, for str and bytes names, in memory and file backed; no internal error."""
import os
import tempfile

from tlslite.verifierdb import VerifierDB


def xcheck_verifierdb_map(rng, n):
    fails, ev = [], 0
    d = tempfile.mkdtemp()
    for kind in ('memory', 'file'):
        for typ in (bytes, str):
            db = VerifierDB(os.path.join(d, 'db_%s_%s' % (kind, typ.__name__))) if kind == 'file' else VerifierDB()
            db.create()
            model = {}
            for step in range(12):
                name = 'user%d' % rng.randrange(4)
                key = name.encode() if typ is bytes else name
                op = rng.choice(['set', 'del', 'get', 'in', 'keys'])
                ev += 1
                try:
                    if op == 'set':
                        v = VerifierDB.makeVerifier(key, b'pw%d' % step, 1024)
                        db[key] = v
                        model[name] = v
                    elif op == 'del':
                        if name in model:
                            del db[key]
                            del model[name]
                    elif op == 'get':
                        if name in model and tuple(db[key]) != tuple(model[name]):
                            fails.append({'class': 'basedb-wrong-entry', 'what': '%s/%s: lookup of %r differs from what was stored' % (kind, typ.__name__, key), 'input': {}})
                    elif op == 'in':
                        if (key in db) != (name in model):
                            fails.append({'class': 'basedb-membership', 'what': '%s/%s: %r in db is %s' % (kind, typ.__name__, key, key in db), 'input': {}})
                    else:
                        got = sorted(k.decode() if isinstance(k, bytes) else k for k in db.keys())
                        if got != sorted(model):
                            fails.append({'class': 'basedb-keys-wrong', 'what': '%s/%s: keys() == %r, stored %r' % (kind, typ.__name__, got, sorted(model)), 'input': {}})
                except Exception as e:
                    fails.append({'class': 'basedb-keys-typeerror' if op == 'keys' else 'basedb-internal-error',
                                  'what': '%s/%s: %s(%r) raised %s: %s' % (kind, typ.__name__, op, key, type(e).__name__, e), 'input': {'op': op}})
                    break
    return {'evaluations': ev, 'distinct_nontrivial': ev, 'bound': '4 databases (memory/file x bytes/str names), 12 random operations each',
            'failures': fails[:5]}


XCHECKS = {'verifierdb_map': xcheck_verifierdb_map}
