"""F48 (C08): an SSLv2-framed record (first byte with the high bit set) arriving on an established TLS 1.2 AEAD connection
makes read() raise AttributeError instead of a TLS error with an alert.
Run with PYTHONPATH=<tree>; exit 1 = undocumented exception."""
import os, socket, threading, sys
import tlslite
from tlslite.api import TLSConnection, HandshakeSettings, X509CertChain, X509, parsePEMKey
from tlslite.errors import TLSError, BaseTLSException
ROOT = os.path.dirname(os.path.dirname(os.path.abspath(tlslite.__file__)))
cert = X509CertChain([X509().parse(open(os.path.join(ROOT, 'tests', 'serverX509Cert.pem')).read())])
key = parsePEMKey(open(os.path.join(ROOT, 'tests', 'serverX509Key.pem')).read(), private=True)
a, b = socket.socketpair(); a.settimeout(5); b.settimeout(5)
res = {}
def server():
    s = TLSConnection(b)
    st = HandshakeSettings(); st.maxVersion = (3, 3); st.cipherNames = ['aes128gcm']
    s.handshakeServer(certChain=cert, privateKey=key, settings=st)
    try:
        res['r'] = 'read returned %r' % s.read(10, 1)
    except (TLSError, BaseTLSException, socket.error) as e:
        res['r'] = 'documented: %r' % (e,)
    except Exception as e:
        res['r'] = 'UNDOCUMENTED %s: %s' % (type(e).__name__, e)
t = threading.Thread(target=server); t.start()
c = TLSConnection(a)
st = HandshakeSettings(); st.maxVersion = (3, 3); st.cipherNames = ['aes128gcm']
c.handshakeClientCert(settings=st)
a.sendall(b'\x80\x03\x01\x00\x00')          # SSLv2 framing: 2-byte header (length 3), body 01 00 00
t.join()
try: print('peer sees', a.recv(100))
except Exception as e: print('peer recv', e)
print(res['r'])
sys.exit(1 if res['r'].startswith('UNDOC') else 0)
