"""Executable specifications + differential checks for the public I/O functions of tlslite/tlsrecordlayer.py
(runs under /venv/bin/python; bounded stand-in and counterexample finder for contracts/sendmsg.py and
contracts/m2_posthandshake.py; never counted as proved).

  sendmsg_fragments   _sendMsg: fragments handed to _sendMsgThroughSocket vs the reference fragmentation
  read_fifo           readAsync/unread: histories of (received message | read(max,min) | unread) vs a FIFO byte queue
  send_failure        C17: a socket.error during a send is reported to the caller for every content type
"""
import socket

from tlslite.tlsrecordlayer import TLSRecordLayer
from tlslite.messages import ApplicationData, Message, NewSessionTicket, KeyUpdate
from tlslite.constants import ContentType
from tlslite.errors import TLSRemoteAlert, TLSAbruptCloseError


class _NullSock(object):
    def send(self, d): return len(d)
    sendall = send
    def recv(self, n): return b''
    def close(self): pass


# ----------------------------------------------------------------------------------------------- _sendMsg

def ref_fragments(payload, limit, split):
    """reference (RFC 5246 6.2.1 + 1/n-1): list of fragment bodies"""
    out = []
    rest = bytes(payload)
    if split:
        out.append(rest[:1])
        rest = rest[1:]
        if len(rest) == 0:
            return out
    while len(rest) > limit:
        out.append(rest[:limit])
        rest = rest[limit:]
    out.append(rest)
    return out


class _Enc(object):
    def __init__(self, block): self.isBlockCipher = block


def sendmsg_fragments(rng, n):
    failures, distinct = [], set()
    for i in range(n):
        version = rng.choice([(3, 0), (3, 1), (3, 2), (3, 3), (3, 4)])
        cbc = rng.random() < 0.5
        user = rng.choice([1, 2, 3, 16, 64, 512, 16384])
        neg = rng.choice([1, 2, 5, 64, 511, 16384])
        limit = min(user, neg)
        L = rng.choice([0, 1, 2, limit - 1, limit, limit + 1, 2 * limit, 2 * limit + 1, rng.randrange(0, 5 * limit + 2)])
        L = max(0, min(L, 70000))
        payload = bytearray(rng.getrandbits(8) for _ in range(L))
        ctype = rng.choice([ContentType.application_data, ContentType.handshake, ContentType.alert, ContentType.heartbeat])
        rfb = rng.random() < 0.8
        kind = 'appdata' if ctype == ContentType.application_data else rng.choice(['message', 'appdata-other'])
        c = TLSRecordLayer(_NullSock())
        c._recordLayer._version = version
        c._recordLayer._writeState.encContext = _Enc(cbc) if rng.random() < 0.9 else None
        c._user_record_limit = user
        c._recordLayer.send_record_limit = neg
        sent = []

        def through(m, sent=sent):
            sent.append((m.contentType, bytes(m.write())))
            return iter(())
        c._sendMsgThroughSocket = through
        if kind == 'message':
            msg = Message(ctype, bytearray(payload))
        else:
            msg = ApplicationData().create(bytearray(payload))
            msg.contentType = ctype
        have_cbc = bool(c._recordLayer._writeState.encContext) and cbc
        split = rfb and version <= (3, 1) and have_cbc and ctype == ContentType.application_data
        try:
            for _ in c._sendMsg(msg, rfb, update_hashes=False):
                pass
        except Exception as e:
            failures.append({'class': 'sendmsg-exception', 'what': repr(e), 'input': {'version': version, 'len': L, 'limit': limit}})
            continue
        want = ref_fragments(payload, limit, split)
        got = [b for (t, b) in sent]
        distinct.add((version, cbc, limit, min(L, 3 * limit + 2), ctype, rfb))
        inp = {'version': version, 'cbc': have_cbc, 'limit': limit, 'len': L, 'ctype': ctype, 'rfb': rfb}
        if b''.join(got) != bytes(payload):
            failures.append({'class': 'frag-concat', 'what': 'concatenation of fragments != payload', 'input': inp})
        elif any(len(b) > limit for b in got):
            failures.append({'class': 'frag-limit', 'what': 'fragment longer than recordSize', 'input': inp})
        elif any(t != ctype for (t, b) in sent):
            failures.append({'class': 'frag-type', 'what': 'fragment content type differs', 'input': inp})
        elif got != want:
            failures.append({'class': 'frag-shape', 'what': 'fragment boundaries %r != reference %r' %
                             ([len(b) for b in got][:6], [len(b) for b in want][:6]), 'input': inp})
    return {'evaluations': n, 'distinct_nontrivial': len(distinct), 'bound': 'payload <= 70000 bytes, limits in {1..16384}',
            'rule': 'fragments == reference fragmentation (concat, <= limit, type, 1/n-1 first byte)', 'failures': failures[:10]}


# ----------------------------------------------------------------------------------------------- readAsync

def read_fifo(rng, n):
    """histories over {deliver(msg), read(max, min), unread(b)} against a byte FIFO"""
    failures, distinct = [], set()
    for i in range(n):
        c = TLSRecordLayer(_NullSock())
        c._recordLayer._version = rng.choice([(3, 3), (3, 4)])
        c.closed = False
        incoming = []                       # messages _getMsg will return, in order
        model = bytearray()                 # bytes the application must still see, in order
        unreceived = []                     # app-data payloads not yet pulled out of `incoming`

        def fake_getMsg(expected, secondary=None, ctor=None, c=c, incoming=incoming):
            if not incoming:
                c._shutdown(True)
                raise TLSRemoteAlert(_CloseNotify())
            yield incoming.pop(0)
        c._getMsg = fake_getMsg
        c._handle_keyupdate_request = lambda req: iter(())
        hist = []
        ok = True
        for step in range(rng.randrange(1, 12)):
            op = rng.choice(['deliver', 'deliver', 'read', 'read', 'unread'])
            if op == 'deliver':
                k = rng.choice(['data', 'data', 'data', 'ticket', 'keyupdate'])
                if k == 'data':
                    p = bytearray(rng.getrandbits(8) for _ in range(rng.choice([1, 2, 5, 17, 300])))
                    incoming.append(ApplicationData().create(p))
                    unreceived.append(bytes(p))
                elif k == 'ticket' and c.version > (3, 3):
                    incoming.append(NewSessionTicket())
                elif c.version > (3, 3):
                    incoming.append(KeyUpdate().create(0))
                hist.append(('deliver', k))
            elif op == 'unread':
                b = bytes(rng.getrandbits(8) for _ in range(rng.choice([0, 1, 4])))
                c.unread(b)
                model[0:0] = b
                hist.append(('unread', len(b)))
            else:
                mx = rng.choice([None, 0, 1, 3, 10, 1000])
                mn = rng.choice([0, 1, 1, 2, 8])
                if mx is not None and mn > mx:
                    mn = mx
                before_closed = c.closed
                got = None
                for got in c.readAsync(mx, mn):
                    pass
                hist.append(('read', mx, mn, len(got)))
                # reference: everything buffered + delivered so far, in order; the result is a prefix of it
                avail = bytes(model) + b''.join(unreceived)
                if not avail.startswith(got):
                    failures.append({'class': 'read-not-a-prefix', 'what': 'returned bytes are not the next bytes of the stream',
                                     'input': {'history': hist}})
                    ok = False
                    break
                if mx is not None and len(got) > mx:
                    failures.append({'class': 'read-more-than-max', 'what': 'len %d > max %d' % (len(got), mx), 'input': {'history': hist}})
                    ok = False
                    break
                if len(got) < min(mn, len(avail)) and not c.closed:
                    failures.append({'class': 'read-less-than-min', 'what': 'len %d < min %d on an open connection' % (len(got), mn),
                                     'input': {'history': hist}})
                    ok = False
                    break
                # consume from the model
                need = len(got)
                take = min(need, len(model))
                del model[:take]
                need -= take
                # what readAsync pulled from `incoming` is now in its buffer: mirror it
                pulled = len(unreceived) - sum(1 for m in incoming if isinstance(m, ApplicationData))
                for _ in range(pulled):
                    model.extend(unreceived.pop(0))
                del model[:need]
                if bytes(c._readBuffer) != bytes(model):
                    failures.append({'class': 'read-buffer-diverged', 'what': 'buffer %r != model %r' % (bytes(c._readBuffer)[:8], bytes(model)[:8]),
                                     'input': {'history': hist}})
                    ok = False
                    break
        distinct.add(tuple(h[0] for h in hist))
    return {'evaluations': n, 'distinct_nontrivial': len(distinct), 'bound': '<= 11 operations per history, payloads <= 300 bytes',
            'rule': 'readAsync/unread behave as a byte FIFO; control messages leave the stream untouched', 'failures': failures[:10]}


class _CloseNotify(object):
    description = 0
    level = 1


# ----------------------------------------------------------------------------------------------- send failure (C17)

class _PipeSock(object):
    def __init__(self, pending): self.pending = bytearray(pending)
    def send(self, d): raise socket.error(32, 'Broken pipe')
    sendall = send
    def recv(self, n):
        r = bytes(self.pending[:n]); del self.pending[:n]; return r
    def close(self): pass


def send_failure(rng, n):
    """every send that hits a dead transport must surface as an exception (socket.error / TLSAbruptCloseError / TLSRemoteAlert)"""
    failures, distinct = [], set()
    pend = {'nothing': b'', 'alert': b'\x15\x03\x03\x00\x02\x02\x28', 'handshake': b'\x16\x03\x03\x00\x04\x0e\x00\x00\x00',
            'appdata': b'\x17\x03\x03\x00\x03abc'}
    for i in range(n):
        ctype = rng.choice([ContentType.handshake, ContentType.application_data, ContentType.alert, ContentType.change_cipher_spec,
                            ContentType.heartbeat])
        pk = rng.choice(sorted(pend))
        c = TLSRecordLayer(_PipeSock(pend[pk]))
        c._recordLayer._version = (3, 3)
        c.closed = False
        msg = Message(ctype, bytearray(b'\x01\x00\x00\x01\x00'))
        distinct.add((ctype, pk))
        try:
            for _ in c._sendMsg(msg, False, update_hashes=False):
                pass
            failures.append({'class': 'send-failure-swallowed', 'what': '_sendMsg returned normally although send() raised EPIPE '
                             '(closed=%r)' % c.closed, 'input': {'contentType': ctype, 'pending_record': pk}})
        except (socket.error, TLSAbruptCloseError, TLSRemoteAlert):
            pass
        except Exception as e:
            failures.append({'class': 'send-failure-other-exception', 'what': repr(e), 'input': {'contentType': ctype, 'pending_record': pk}})
    return {'evaluations': n, 'distinct_nontrivial': len(distinct), 'bound': '5 content types x 4 pending-record kinds',
            'rule': 'a failed send raises socket.error / TLSAbruptCloseError / TLSRemoteAlert', 'failures': failures[:10]}


XCHECKS = {'sendmsg_fragments': sendmsg_fragments, 'read_fifo': read_fifo, 'send_failure': send_failure}
