#!/usr/bin/env python3
"""Regenerates 'Status per property' in DESIGN.md from evidence/*.json (written by the checks themselves)."""
import json, os, glob
H = '/verif'
m = json.load(open(H + '/MANIFEST.json'))
rows = []
for c in m['checks']:
    p = c['property_id']
    ef = H + '/' + c['evidence_file']
    if not os.path.exists(ef):
        rows.append('| %s | (no evidence yet) | | | | |' % p)
        continue
    e = json.load(open(ef))
    cov = e['coverage']
    fn = len(cov.get('functions_under_contract', []))
    be = ', '.join('%s %d' % (k, v) for k, v in sorted(cov.get('backends', {}).items(), key=lambda kv: -kv[1])[:4])
    kf = ', '.join(cov.get('known_findings_hit', [])) or '-'
    nb = '; '.join(x[:140] for x in cov.get('not_built', [])[:3]) or '-'
    bounded = sum(int(b.get('evaluations') or 0) for b in cov.get('bounded', []))
    rows.append('| %s | %d / %d | %d | %s | %s | %d | %s |' % (p, cov['discharged'], cov['obligations'], fn, be, kf, bounded, nb.replace('|', '/')))
md = ['## 12. Status per property (generated from the evidence files of the last full run)\n',
      '| property | discharged / obligations | tasks with a /repo function | back ends (top) | known findings printed | bounded differential evaluations (not counted) | not built (first entries; full list in the evidence) |',
      '|---|---|---|---|---|---|---|'] + rows
for na in m.get('not_applicable', []):
    md.append('| %s | not applicable: %s | | | | | |' % (na['property_id'], na['reason'][:200]))
s = open(H + '/DESIGN.md').read()
i = s.find('## 12. Status per property')
if i >= 0:
    j = s.find('\n## 13.', i)
    s = s[:i] + '\n'.join(md) + '\n' + (s[j:] if j >= 0 else '')
else:
    s = s.rstrip('\n') + '\n\n' + '\n'.join(md) + '\n'
open(H + '/DESIGN.md', 'w').write(s)
print('status table written:', len(rows))
