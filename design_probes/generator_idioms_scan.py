import ast, sys, collections
files=['tlslite/tlsconnection.py','tlslite/tlsrecordlayer.py','tlslite/recordlayer.py','tlslite/messagesocket.py']
cnt=collections.Counter(); ex=collections.defaultdict(list)
def classify(node):
    # node: ast.For with target 'result'-like and iter a Call
    body=node.body
    def is_yield_name(st,name): return isinstance(st,ast.Expr) and isinstance(st.value,ast.Yield) and isinstance(st.value.value,ast.Name) and st.value.value.id==name
    if not isinstance(node.target,ast.Name) or not isinstance(node.iter,ast.Call): return None
    t=node.target.id
    if len(body)==1 and is_yield_name(body[0],t): return 'passthrough'
    if len(body)==1 and isinstance(body[0],ast.Pass): return 'drain'
    if len(body)==1 and isinstance(body[0],ast.If):
        i=body[0]
        test=ast.unparse(i.test)
        if test.replace(' ','') in (f'{t}in(0,1)',):
            if len(i.body)==1 and is_yield_name(i.body[0],t):
                if not i.orelse: return 'await_nobreak'
                if len(i.orelse)==1 and isinstance(i.orelse[0],ast.Break): return 'await_break'
    return 'other'
for f in files:
    tree=ast.parse(open('/repo/'+f).read())
    for fn in ast.walk(tree):
        if isinstance(fn,(ast.FunctionDef,)):
            isgen=any(isinstance(n,(ast.Yield,ast.YieldFrom)) for n in ast.walk(fn))
            for n in ast.walk(fn):
                if isinstance(n,ast.For):
                    c=classify(n)
                    if c: 
                        # only loops over self.* generator-like calls
                        cnt[(f.split('/')[-1],c)]+=1
                        if c=='other': ex[f].append((fn.name,n.lineno,ast.unparse(n.iter)[:60]))
for k,v in sorted(cnt.items()): print(k,v)
for f,l in ex.items():
    print(f)
    for e in l: print('   ',e)
