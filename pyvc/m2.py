"""M2: guard-dominance mode for the large handshake / record-layer coroutines.

Same symbolic executor, different abstraction: objects and most calls are
*opaque* (uninterpreted values of sort Val); what is proved is which facts hold
on EVERY path that reaches a given site (a call, a store, a normal exit).

  * unknown callees return a fresh opaque value and havoc the heap fields they
    may assign -- decided by a whole-repository scan of attribute stores closed
    over a name-based call graph (`FrameScan`), not by an unchecked assumption;
  * tlslite-ng's generator idioms `for r in G(...): yield r` /
    `if r in (0,1): yield r else: break` are executed as `r = await G(...)`;
    a loop over a generator call in any other shape is Unsupported (undecided);
  * branches are re-joined (state merging with if-then-else values) so the
    700-line functions do not explode; paths that end in a no-return callee
    (`_sendError`) leave as separate exits;
  * other loops are cut with the trivial invariant: every variable / field the
    body may modify is havocked, the body is checked once from an arbitrary
    iteration state;
  * expressions outside the supported subset evaluate to a fresh opaque value
    (sound over-approximation for dominance facts; exceptions they might raise
    only remove paths).
"""
import ast
import inspect
import os

import z3

from . import smt, source
from .executor import (Executor, Frame, Outcome, Obligation, SpecFn, BoundMethod, BuiltinMethod, lift_py,
                       _assigned_names, _target_names)
from .values import (V, VInt, VBool, VNone, VStr, VSeq, VTuple, VList, VDict, VObj, VPy, VOpaque, VExc,
                     Unsupported, truthy, fresh_name, fresh_like, ite, same_value, to_val, eq_op)
from .state import State


def fresh_opaque(base):
    return VOpaque(z3.Const(fresh_name(base), smt.Val))


# ---------------------------------------------------------------------------
# frame scan: which attribute names may a call to a function called <name> assign?

class FrameScan(object):
    _inst = None

    @classmethod
    def get(cls):
        if cls._inst is None:
            cls._inst = FrameScan()
        return cls._inst

    def __init__(self):
        root = os.path.join(source.REPO, 'tlslite')
        self.direct = {}      # function simple name -> set(attr names stored)
        self.calls = {}       # function simple name -> set(called simple names)
        self.defined = set()
        for dp, dn, fn in os.walk(root):
            for f in fn:
                if f.endswith('.py'):
                    try:
                        tree = source.module_ast(os.path.join(dp, f))
                    except SyntaxError:
                        continue
                    self._scan(tree)
        self._closure = {}

    def _scan(self, tree):
        for fn in ast.walk(tree):
            if not isinstance(fn, (ast.FunctionDef, ast.AsyncFunctionDef)):
                continue
            name = fn.name
            self.defined.add(name)
            st = self.direct.setdefault(name, set())
            cl = self.calls.setdefault(name, set())
            for n in ast.walk(fn):
                if isinstance(n, ast.Attribute) and isinstance(n.ctx, (ast.Store, ast.Del)):
                    st.add(n.attr)
                elif isinstance(n, ast.Subscript) and isinstance(n.ctx, (ast.Store, ast.Del)):
                    b = n.value
                    if isinstance(b, ast.Attribute):
                        st.add(b.attr)           # x.f[i] = v mutates the object held in f
                elif isinstance(n, ast.Call):
                    f = n.func
                    if isinstance(f, ast.Attribute):
                        cl.add(f.attr)
                        if f.attr in ('append', 'extend', 'pop', 'remove', 'clear', 'insert', 'update', 'add',
                                      'discard', 'sort', 'reverse', 'setdefault', 'popitem') \
                                and isinstance(f.value, ast.Attribute):
                            st.add(f.value.attr)  # x.f.append(..) mutates the object held in f
                    elif isinstance(f, ast.Name):
                        cl.add(f.id)
                        if f.id == 'setattr':
                            st.add('*')

    def may_store(self, name):
        """attribute names a call to something named `name` may assign (transitively)."""
        if name in self._closure:
            return self._closure[name]
        seen, out, todo = set(), set(), [name]
        # a class name called as constructor runs __init__
        while todo:
            m = todo.pop()
            if m in seen:
                continue
            seen.add(m)
            if m not in self.defined:
                continue
            out |= self.direct.get(m, set())
            for c in self.calls.get(m, ()):
                if c not in seen:
                    todo.append(c)
        self._closure[name] = out
        return out


# ---------------------------------------------------------------------------

class M2Spec(object):
    """What an M2 contract hands to the executor."""

    def __init__(self, hooks=None, pure=(), stable_fields=(), noreturn=(), on_store=None, inline=(),
                 on_exit=None, on_yield=None, props_as_fields=(), on_continue=None):
        self.hooks = hooks or {}            # callee simple name -> handler(ex, recv, args, kwargs, st, fr, node) -> outcomes | None
        self.pure = set(pure)               # callee simple names that are pure functions of their arguments (assumed)
        self.stable_fields = set(stable_fields)
        self.noreturn = set(noreturn)
        self.on_store = on_store or {}      # attr name -> hook(ex, obj, val, st, fr, node)
        self.inline = set(inline)           # qualified names executed from real source
        self.on_exit = on_exit
        self.on_yield = on_yield
        # names of side-effect free @property getters of `self` that are read like fields: the value is
        # materialised in the heap on first read and stays until a callee that may store that name havocs it
        self.props_as_fields = set(props_as_fields)
        self.on_continue = on_continue      # hook(ex, st, fr, node) at every `continue` statement


class M2Executor(Executor):
    def __init__(self, registry, spec, opts=None):
        o = {'allow_opaque': True, 'pure_boolop': True}
        o.update(opts or {})
        Executor.__init__(self, registry, o)
        self.spec = spec
        self.scan = FrameScan.get()
        self.lenient = []        # constructs evaluated as opaque (reported in evidence)
        self.prune = True
        self.comp_facts = {}     # id of a comprehension result term -> element schema (opt-in 'comprehension_facts')

    def feasible(self, st, extra=None):
        """opt-in (`opts={'ground_feasible': True}`): path pruning decided in the same ground theory as the
        m2 obligations (embedding facts only, no sequence axioms) -- a path is dropped only on a definite,
        early `unsat`; much faster than the quantified pre-check and never less sound."""
        if not self.opts.get('ground_feasible'):
            return Executor.feasible(self, st, extra)
        if not self.prune:
            return True
        from .values import val_axioms
        pc = st.pc + ([extra] if extra is not None else [])
        s = z3.Solver()
        s.set('timeout', 2000)
        for a in val_axioms(pc):
            s.add(a)
        for a in pc:
            s.add(a)
        import time as _t
        t0 = _t.time()
        smt.beat(60.0)
        r = s.check()
        smt.beat(0)
        return not (r == z3.unsat and _t.time() - t0 < 1.2)

    # -------------------------------------------------- expressions: lenient
    def eval(self, node, st, fr):
        try:
            return Executor.eval(self, node, st, fr)
        except Unsupported as e:
            self.lenient.append('%s@L%s: %s' % (type(node).__name__, getattr(node, 'lineno', '?'), str(e)[:80]))
            return [Outcome('normal', st, fresh_opaque('expr'))]

    def _pure_boolop(self, node, st, fr):
        """The non-forking and/or route evaluates operands in a scratch copy of the state: effects of hooked
        callees (ghost, events) and lazily materialised fields of `self` would be lost there.  Operands with a
        hooked call take the forking route; fields are materialised in `st` first so that the term in the
        path condition is the one later reads see."""
        for n in ast.walk(node):
            if isinstance(n, ast.Call) and self._callee_name(n) in self.spec.hooks:
                return None
        for n in ast.walk(node):
            if isinstance(n, ast.Attribute) and isinstance(n.ctx, ast.Load) and isinstance(n.value, ast.Name):
                o = st.env.get(n.value.id)
                if isinstance(o, VObj) and (o.oid, n.attr) not in st.heap:
                    cls = o.cls
                    is_cls_attr = inspect.isclass(cls) and any(n.attr in k.__dict__ for k in cls.__mro__)
                    if not is_cls_attr or n.attr in getattr(self.spec, 'props_as_fields', ()):
                        try:
                            self.getattr_(o, n.attr, st, fr, n)
                        except Unsupported:
                            pass
        return Executor._pure_boolop(self, node, st, fr)

    def e_Dict(self, node, st, fr):
        return [Outcome('normal', st, fresh_opaque('dict'))]

    def e_Set(self, node, st, fr):
        return [Outcome('normal', st, fresh_opaque('set'))]

    def e_Starred(self, node, st, fr):
        return [Outcome('normal', st, fresh_opaque('starred'))]

    def e_Yield(self, node, st, fr):
        return [Outcome('normal', st, fresh_opaque('sent'))]

    # attribute reads / writes on opaque objects go through an explicit heap so
    # that stores are seen by later loads
    def getattr_(self, v, name, st, fr, node=None):
        if isinstance(v, VOpaque):
            key = ('o', v.t.get_id(), name)
            if key in st.heap:
                return [Outcome('normal', st, st.heap[key])]
            f = z3.Function('v_attr_' + name, smt.Val, smt.Val)
            val = VOpaque(f(v.t))
            return [Outcome('normal', st, val)]
        if isinstance(v, (VList, VTuple, VDict, VStr, VSeq, VInt)) or isinstance(v, VPy):
            try:
                return Executor.getattr_(self, v, name, st, fr, node)
            except Unsupported:
                return [Outcome('normal', st, fresh_opaque('attr_' + name))]
        if isinstance(v, VNone):
            return Executor.getattr_(self, v, name, st, fr, node)
        if isinstance(v, VObj):
            if name in getattr(self.spec, 'props_as_fields', ()):
                key = (v.oid, name)
                if key not in st.heap:
                    st.heap[key] = fresh_opaque('fld_' + name)
                return [Outcome('normal', st, st.heap[key])]
            return Executor.getattr_(self, v, name, st, fr, node)
        if isinstance(v, VExc) and name in (getattr(v, 'attrs', None) or {}):
            return [Outcome('normal', st, v.attrs[name])]      # attributes a raising hook gave its exception value
        return [Outcome('normal', st, fresh_opaque('attr_' + name))]

    def setattr_(self, obj, name, val, st, fr, node):
        hook = self.spec.on_store.get(name)
        if hook is not None:
            hook(self, obj, val, st, fr, node)
        if isinstance(obj, VOpaque):
            st.heap[('o', obj.t.get_id(), name)] = val
            st.written.add(('o', obj.t.get_id(), name))
            st.oterms[obj.t.get_id()] = obj.t
            st.events.append(('setattr:' + name, [obj, val], None))
            return [Outcome('normal', st)]
        if isinstance(obj, VObj):
            if inspect.isclass(obj.cls) and name not in getattr(self.spec, 'props_as_fields', ()):
                for k in obj.cls.__mro__:
                    if isinstance(k.__dict__.get(name), property):
                        st.events.append(('setattr:' + name, [obj, val], None))
                        return Executor.setattr_(self, obj, name, val, st, fr, node)     # runs the setter
            st.heap[(obj.oid, name)] = val
            st.written.add((obj.oid, name))
            st.events.append(('setattr:' + name, [obj, val], None))
            return [Outcome('normal', st)]
        return [Outcome('normal', st)]

    def index(self, base, idx, st, node):
        if isinstance(base, VOpaque) or isinstance(idx, VOpaque):
            f = z3.Function('v_getitem', smt.Val, smt.Val, smt.Val)
            try:
                r = VOpaque(f(to_val(base), to_val(idx)))
            except Unsupported:
                return [Outcome('normal', st, fresh_opaque('item'))]
            if self.opts.get('comprehension_facts') and isinstance(idx, VInt):
                fact = self.element_fact(st, base, r.t)     # X[k] evaluated normally is an element of X
                if fact is not None:
                    st.assume(fact)
            return [Outcome('normal', st, r)]
        return Executor.index(self, base, idx, st, node)

    def slice_(self, base, lo, hi, st):
        """opt-in (`opts={'pure_slice': True}`): x[lo:hi] on an opaque x is the pure term v_slice(x, lo, hi)
        (same abstraction level as v_getitem) instead of an unconstrained value per evaluation."""
        if self.opts.get('pure_slice') and isinstance(base, VOpaque):
            f = z3.Function('v_slice', smt.Val, smt.Val, smt.Val, smt.Val)
            a = to_val(lo) if lo is not None else to_val(VNone())
            b = to_val(hi) if hi is not None else to_val(VNone())
            return VOpaque(f(base.t, a, b))
        return Executor.slice_(self, base, lo, hi, st)

    # ---- opt-in `opts={'comprehension_facts': True}`: what is known about the ELEMENTS of a filtered collection
    # [ELT for T in IT if C1 if C2 ...] (one generator) evaluates to a fresh opaque R with the schema
    #   "every element x of R is ELT[T:=w] for some w in IT with C1[T:=w], C2[T:=w], ...";
    # the schema is instantiated (with a fresh witness w) where an element is taken out of R: next(R, d),
    # `for x in R` / `X[:] = R; for x in X` in a loop that provably runs at most once (body ends in `break`),
    # and `X[k]` after `X[:] = R`.  Conditions are evaluated once, in a scratch copy of the state at the place the
    # comprehension is written (generator expressions here are consumed where they are written).
    def e_ListComp(self, node, st, fr):
        return self._m2_comp(node, st, fr, Executor.e_ListComp)

    def e_GeneratorExp(self, node, st, fr):
        return self._m2_comp(node, st, fr, Executor.e_GeneratorExp)

    def _m2_comp(self, node, st, fr, base):
        if not self.opts.get('comprehension_facts'):
            return base(self, node, st, fr)
        n_ob = len(self.obligations)
        try:
            return base(self, node, st, fr)
        except Unsupported:
            del self.obligations[n_ob:]
        if len(node.generators) != 1 or getattr(node.generators[0], 'is_async', 0):
            raise Unsupported('comprehension with several generators')
        g = node.generators[0]
        its = self.eval(g.iter, st, fr)
        if len(its) != 1 or its[0].kind != 'normal' or not isinstance(its[0].val, VOpaque):
            raise Unsupported('comprehension over a non-opaque iterable')
        st = its[0].st
        w = fresh_opaque('elem')
        scratch = st.fork()
        for o in self.assign(g.target, w, scratch, fr):
            scratch = o.st
        conds = []
        n_ob = len(self.obligations)
        try:
            for c in g.ifs:
                outs = self.eval(c, scratch, fr)
                if len(outs) != 1 or outs[0].kind != 'normal':
                    raise Unsupported('comprehension condition forks')
                scratch = outs[0].st
                conds.append(truthy(outs[0].val))
                scratch.assume(conds[-1])
            outs = self.eval(node.elt, scratch, fr)
            if len(outs) != 1 or outs[0].kind != 'normal':
                raise Unsupported('comprehension element forks')
            elt = to_val(outs[0].val)
        except Unsupported:
            del self.obligations[n_ob:]
            raise
        if not self.opts.get('keep_comprehension_obligations'):
            # (obligations posed while evaluating the condition / element for the arbitrary witness element are site
            # obligations of the comprehension; tasks that want them opt in)
            del self.obligations[n_ob:]
        r = fresh_opaque('comp')
        self.comp_facts[r.t.get_id()] = {'witness': w.t, 'cond': z3.And(conds) if conds else z3.BoolVal(True),
                                         'elt': elt, 'it': its[0].val.t}
        return [Outcome('normal', st, r)]

    def comp_element_fact(self, coll, x):
        """fact about x being an element of the comprehension result `coll` (z3 term), or None"""
        f = self.comp_facts.get(coll.get_id())
        if f is None:
            return None
        vin = z3.Function('v_in', smt.Val, smt.Val, smt.B)
        if f['elt'].eq(f['witness']):
            w = x
        else:
            w = fresh_opaque('witness').t
        sub = lambda e: z3.substitute(e, (f['witness'], w))
        return z3.And(sub(f['cond']), x == sub(f['elt']), vin(w, f['it']))

    def _content_of(self, st, base):
        """the comprehension result last slice-assigned to the collection object `base` (term), if still known"""
        for k, v in st.ghost.items():
            if isinstance(k, tuple) and k[0] == 'content' and k[1] == base.get_id() and isinstance(v, VOpaque):
                return v.t
        return None

    def element_fact(self, st, coll, x):
        """x taken out of the collection `coll` (VOpaque)"""
        if not isinstance(coll, VOpaque):
            return None
        f = self.comp_element_fact(coll.t, x)
        if f is None:
            c = self._content_of(st, coll.t)
            if c is not None:
                f = self.comp_element_fact(c, x)
        return f

    def assign(self, tgt, val, st, fr):
        if isinstance(tgt, (ast.Tuple, ast.List)) and isinstance(val, VOpaque):
            f = z3.Function('v_getitem', smt.Val, smt.Val, smt.Val)
            outs = [Outcome('normal', st)]
            for k, t in enumerate(tgt.elts):
                nxt = []
                for o in outs:
                    nxt.extend(self.assign(t, VOpaque(f(val.t, to_val(VInt(k)))), o.st, fr))
                outs = nxt
            return outs
        try:
            return Executor.assign(self, tgt, val, st, fr)
        except Unsupported:
            for n in _target_names(tgt):
                st.env[n] = fresh_opaque(n)
            return [Outcome('normal', st)]

    def assign_subscript(self, tgt, val, st, fr):
        if self.opts.get('comprehension_facts') and isinstance(tgt.slice, ast.Slice) and tgt.slice.lower is None \
                and tgt.slice.upper is None and tgt.slice.step is None and isinstance(tgt.value, ast.Attribute):
            # X.f[:] = R replaces the whole content of the list held in X.f
            outs = self.eval(ast.copy_location(ast.Attribute(value=tgt.value.value, attr=tgt.value.attr, ctx=ast.Load()),
                                               tgt.value), st, fr)
            if len(outs) == 1 and outs[0].kind == 'normal' and isinstance(outs[0].val, VOpaque):
                st = outs[0].st
                for k in [k for k in st.ghost if isinstance(k, tuple) and k[0] == 'content'
                          and k[1] == outs[0].val.t.get_id()]:
                    del st.ghost[k]
                if isinstance(val, VOpaque) and val.t.get_id() in self.comp_facts:
                    st.ghost[('content', outs[0].val.t.get_id(), tgt.value.attr)] = val
                return [Outcome('normal', st)]
        try:
            return Executor.assign_subscript(self, tgt, val, st, fr)
        except Unsupported:
            return [Outcome('normal', st)]

    def s_AugAssign(self, node, st, fr):
        """opt-in (`opts={'list_concat': True}`): `name += <opaque>` on a literal list keeps the literal's
        elements as membership facts: the new value is v_binop_Add(L, rhs) with v_in(e, L) for every element e
        of the literal (instead of havocking `name`)."""
        if self.opts.get('list_concat') and isinstance(node.target, ast.Name) and isinstance(node.op, ast.Add) \
                and isinstance(st.env.get(node.target.id), VList):
            cur = st.env[node.target.id]
            try:
                items = [to_val(i) for i in cur.items]
            except Unsupported:
                items = None
            if items is not None:
                res = []
                for o in self.eval(node.value, st, fr):
                    if o.kind != 'normal':
                        res.append(o)
                        continue
                    if not isinstance(o.val, VOpaque):
                        return Executor.s_AugAssign(self, node, st, fr)
                    lit = fresh_opaque('listlit')
                    vin = z3.Function('v_in', smt.Val, smt.Val, smt.B)
                    for it in items:
                        o.st.assume(vin(it, lit.t))
                    add = z3.Function('v_binop_Add', smt.Val, smt.Val, smt.Val)
                    o.st.env[node.target.id] = VOpaque(add(lit.t, o.val.t))
                    res.append(Outcome('normal', o.st))
                return res
        return Executor.s_AugAssign(self, node, st, fr)

    def iter_items(self, v, st):
        try:
            return Executor.iter_items(self, v, st)
        except Unsupported:
            return None

    # -------------------------------------------------------------- calls
    def _callee_name(self, node):
        f = node.func if isinstance(node, ast.Call) else None
        if isinstance(f, ast.Attribute):
            return f.attr
        if isinstance(f, ast.Name):
            return f.id
        return None

    def e_Call(self, node, st, fr):
        name = self._callee_name(node)
        if name is not None and (name in self.spec.hooks or name in self.spec.noreturn):
            return self._hooked_call(node, name, st, fr)
        if name == 'next' and isinstance(node.func, ast.Name) and self.opts.get('comprehension_facts') \
                and len(node.args) == 2 and not node.keywords:
            acc, raises = self.eval_seq(list(node.args), st, fr)
            out = list(raises)
            for s, (coll, dflt) in acc:
                r = fresh_opaque('next')
                fact = self.element_fact(s, coll, r.t)
                if fact is None:
                    out.extend(self.opaque_call('next', [coll, dflt], s, node=node))
                    continue
                s.assume(z3.Or(r.t == to_val(dflt), fact))     # the default, or an element of the collection
                s.events.append(('next', [coll, dflt], r))
                out.append(Outcome('normal', s, r))
            return out
        return Executor.e_Call(self, node, st, fr)

    def e_Compare(self, node, st, fr):
        # `spec.unknown_compare = {names}`: an ==/!= whose operand is one of these locals is decided by the callee's
        # __eq__ on objects that were mutated in place (stores through sub-objects are not visible in the term of the
        # object): the result is an unknown boolean, no term equality is learnt from it
        names = getattr(self.spec, 'unknown_compare', None)
        if names and len(node.ops) == 1 and isinstance(node.ops[0], (ast.Eq, ast.NotEq)):
            ops = [node.left, node.comparators[0]]
            if any(isinstance(o, ast.Name) and o.id in names for o in ops):
                acc, raises = self.eval_seq(ops, st, fr)
                out = list(raises)
                for s_, _vals in acc:
                    u = z3.Bool(fresh_name('objects_equal'))
                    fn = names.get([o.id for o in ops if isinstance(o, ast.Name) and o.id in names][0]) \
                        if isinstance(names, dict) else None
                    if fn is not None:
                        # what equality of the (edited) objects does imply, stated by the task
                        s_.assume(z3.Implies(u, fn(self, _vals[0], _vals[1], s_)))
                    s_.ghost['last_unknown_compare'] = VBool(u)
                    out.append(Outcome('normal', s_, VBool(u if isinstance(node.ops[0], ast.Eq) else z3.Not(u))))
                return out
        return Executor.e_Compare(self, node, st, fr)

    def _eval_args(self, node, st, fr):
        """-> list of (st, recv, args, kwargs), raises"""
        recv_outs = [Outcome('normal', st, None)]
        if isinstance(node.func, ast.Attribute):
            recv_outs = self.eval(node.func.value, st, fr)
        res, raises = [], []
        for ro in recv_outs:
            if ro.kind != 'normal':
                raises.append(ro)
                continue
            argnodes = [a.value if isinstance(a, ast.Starred) else a for a in node.args]
            kwn = [k.arg for k in node.keywords if k.arg is not None]
            argnodes += [k.value for k in node.keywords if k.arg is not None]
            acc, rs = self.eval_seq(argnodes, ro.st, fr)
            raises.extend(rs)
            for s, vals in acc:
                npos = len(node.args)
                res.append((s, ro.val, vals[:npos], dict(zip(kwn, vals[npos:]))))
        return res, raises

    def _hooked_call(self, node, name, st, fr):
        res, out = self._eval_args(node, st, fr)
        for (s, recv, args, kwargs) in res:
            h = self.spec.hooks.get(name)
            r = h(self, recv, args, kwargs, s, fr, node) if h is not None else None
            if r is None:
                if name in self.spec.noreturn:
                    s.events.append((name, args, None))
                    r = [Outcome('raise', s, VExc(NoReturn, args, 'noreturn %s line %d' % (name, node.lineno)))]
                else:
                    r = self.opaque_call(name, ([recv] if recv is not None else []) + args, s, node=node)
            if len(r) > 1:
                # nondeterministic choice of the callee's outcome: give every outcome its own path fact, otherwise
                # a later merge would build if-then-else values with overlapping conditions
                sel = z3.Int(fresh_name('outcome_of_' + name))
                for i, o in enumerate(r):
                    o.st.assume(sel == i)
            out.extend(r)
        return out

    def call(self, f, args, kwargs, st, fr, node):
        if not isinstance(f, VOpaque) and isinstance(node, ast.Call) and self._callee_name(node) is None \
                and '<computed-callee>' in self.spec.hooks:
            # callee taken from a real table (e.g. a dict of optional bindings): the task's site contract applies as well
            r = self.spec.hooks['<computed-callee>'](self, f, list(args), kwargs, st, fr, node)
            if r is not None:
                return r
        if isinstance(f, VOpaque):
            nm = self._callee_name(node) or 'call'
            if self._callee_name(node) is None and '<computed-callee>' in self.spec.hooks:
                # callee is an expression (table[...](..)): the task may give it a site contract
                r = self.spec.hooks['<computed-callee>'](self, f, list(args), kwargs, st, fr, node)
                if r is not None:
                    return r
            return self.opaque_call(nm, list(args) + list(kwargs.values()), st, node=node, fterm=f)
        try:
            return Executor.call(self, f, args, kwargs, st, fr, node)
        except Unsupported as e:
            self.lenient.append('call@L%s: %s' % (getattr(node, 'lineno', '?'), str(e)[:80]))
            return self.opaque_call(self._callee_name(node) or 'call', args, st, node=node)

    def call_function(self, fn, args, kwargs, st, fr, node, owner=None):
        from . import builtins_model
        fn_u = source._unwrap(fn)
        h = builtins_model.lookup(fn_u)
        if h is not None:
            try:
                return h(self, args, kwargs, st, fr, node)
            except Unsupported:
                return self.opaque_call(getattr(fn_u, '__name__', 'builtin'), args, st, node=node, pure=True)
        qual = source.qual_of(fn_u)
        name = getattr(fn_u, '__name__', None) or self._callee_name(node) or 'call'
        if qual is not None:
            c = self.reg.m2_contract_for(qual) if hasattr(self.reg, 'm2_contract_for') else None
            if c is not None:
                return c(self, args, kwargs, st, fr, node)
            # external models are registered globally by M1 contract modules and written for typed arguments; an M2
            # task uses one only when its spec asks for it (otherwise loading another module would change this task)
            ext = self.reg.external.get(qual) if qual in getattr(self.spec, 'use_external', ()) else None
            if ext is not None:
                try:
                    return ext(self, args, kwargs, st.fork(), fr, node)
                except (z3.Z3Exception, Unsupported, AttributeError, TypeError, ValueError, KeyError):
                    return self.opaque_call(name, args, st, node=node, pure=(name in self.spec.pure))
            if qual in self.spec.inline:
                fs = source.load(qual, fn_u)
                return self.inline_m2(fs, args, kwargs, st, fr, node)
        return self.opaque_call(name, args, st, node=node, pure=(name in self.spec.pure))

    def instantiate(self, cls, args, kwargs, st, fr, node):
        from . import builtins_model
        if builtins_model.lookup(cls) is not None or (isinstance(cls, type) and issubclass(cls, BaseException)):
            try:
                return Executor.instantiate(self, cls, args, kwargs, st, fr, node)
            except Unsupported:
                pass
        name = getattr(cls, '__name__', 'cls')
        h = self.spec.hooks.get(name)
        if h is not None:
            r = h(self, None, args, kwargs, st, fr, node)
            if r is not None:
                return r
        # a fresh object of a library class: fields unknown until stored
        o = fresh_opaque('new_' + name)
        st.events.append(('new:' + name, args, o))
        return [Outcome('normal', st, o)]

    def inline_m2(self, fs, args, kwargs, st, fr, node):
        nf = Frame(fs, fr.contract, fr.depth + 1)
        try:
            env = self.bind_params(fs, args, kwargs, st, fr)
        except Unsupported:
            return self.opaque_call(fs.qual, args, st, node=node)
        saved = st.env
        st.env = env
        outs = self.exec_block(source.strip_docstring(fs.node.body), st, nf)
        res = []
        for o in outs:
            o.st.env = dict(saved)
            if o.kind == 'normal':
                res.append(Outcome('normal', o.st, VNone()))
            elif o.kind == 'return':
                res.append(Outcome('normal', o.st, o.val))
            else:
                res.append(o)
        return res

    def opaque_call(self, name, args, st, pure=False, node=None, fterm=None):
        simple = name.split(':')[-1].split('.')[-1]
        self.opaque_calls.add(simple)
        if pure or simple in self.spec.pure:
            try:
                pargs = ([fterm] if fterm is not None else []) + list(args)     # a method's result depends on its receiver
                f = z3.Function('pure_%s_%d' % (simple, len(pargs)), *([smt.Val] * len(pargs) + [smt.Val]))
                r = VOpaque(f(*[to_val(a) for a in pargs])) if pargs else VOpaque(z3.Const('pure_' + simple, smt.Val))
            except Unsupported:
                r = fresh_opaque('ret_' + simple)
            st.events.append((simple, args, r))
            return [Outcome('normal', st, r)]
        r = fresh_opaque('ret_' + simple)
        st.events.append((simple, args, r))
        self.havoc_call(simple, st)
        return [Outcome('normal', st, r)]

    @staticmethod
    def _forget(heap, key, written=None):
        """havoc one heap cell.  A field of a model object is deleted (the next read materialises a fresh
        value).  An attribute of an *opaque* object must not be deleted: the read would fall back to the pure
        term v_attr_<name>(obj), i.e. to the value the attribute had before it was ever stored."""
        # havoc never removes a key: absence of a key means "never read or written on this path", which the
        # state merge relies on (a field materialised on one side only still holds its initial value on the other)
        heap[key] = fresh_opaque('hv_' + str(key[-1]))
        if written is not None:
            written.add(key)

    def havoc_call(self, simple, st):
        stores = self.scan.may_store(simple)
        if not stores:
            return
        wild = '*' in stores
        for k in [k for k in st.ghost if isinstance(k, tuple) and k[0] == 'content' and (wild or k[2] in stores)]:
            del st.ghost[k]      # the callee may mutate a list held in a field of that name
        for key in list(st.heap.keys()):
            fld = key[-1]
            if fld in self.spec.stable_fields:
                continue
            if wild or fld in stores:
                self._forget(st.heap, key, st.written)

    # ---------------------------------------------------- control flow: merging
    def exec_block(self, stmts, st, fr):
        outs = [Outcome('normal', st)]
        for s in stmts:
            nxt = []
            for o in outs:
                if o.kind == 'normal':
                    try:
                        nxt.extend(self.exec_stmt(s, o.st, fr))
                    except Unsupported as e:
                        if isinstance(s, (ast.For, ast.While)) and 'generator' in str(e):
                            raise
                        self.lenient.append('stmt %s@L%d skipped: %s' % (type(s).__name__, s.lineno, str(e)[:80]))
                        self._havoc_stmt(s, o.st)
                        nxt.append(Outcome('normal', o.st))
                else:
                    nxt.append(o)
            outs = self.merge(nxt)
        return outs

    def _havoc_stmt(self, s, st):
        for n in _assigned_names([s]):
            st.env[n] = fresh_opaque(n)
        for n in ast.walk(s):
            if isinstance(n, ast.Call):
                nm = self._callee_name(n)
                if nm:
                    self.havoc_call(nm, st)

    def merge(self, outs):
        if self.opts.get('no_merge'):
            return outs         # opt-in: keep every path separate (small functions whose obligations compare tuple-valued locals)
        normals = [o for o in outs if o.kind == 'normal']
        others = [o for o in outs if o.kind != 'normal']
        for kind in ('break', 'continue'):
            ks = [o for o in others if o.kind == kind]
            if len(ks) > 1:
                m = self._merge_states([o.st for o in ks])
                others = [o for o in others if o.kind != kind] + [Outcome(kind, m)]
        if len(normals) <= 1:
            return normals + others
        return [Outcome('normal', self._merge_states([o.st for o in normals]))] + others

    def _merge_states(self, sts):
        acc = sts[0]
        for s in sts[1:]:
            acc = self._merge2(acc, s)
        return acc

    def _merge2(self, a, b):
        # common prefix of the path conditions
        n = 0
        while n < len(a.pc) and n < len(b.pc) and a.pc[n].get_id() == b.pc[n].get_id():
            n += 1
        ra = z3.And(a.pc[n:]) if a.pc[n:] else z3.BoolVal(True)
        rb = z3.And(b.pc[n:]) if b.pc[n:] else z3.BoolVal(True)
        m = a.fork()
        # a fresh selector says which of the two paths was taken; the merged values are if-then-else terms over
        # it.  This is sound whether or not the two suffixes are mutually exclusive (they are not when one path
        # added no fact, e.g. a loop left by exhaustion vs. by break): a value of path a is only ever combined
        # with the facts of path a.
        sel = z3.Bool(fresh_name('took_a'))
        m.pc = a.pc[:n] + [z3.Or(z3.And(sel, ra), z3.And(z3.Not(sel), rb))]
        ca = VBool(sel)

        def mv(x, y, base):
            if x is None or y is None:
                return None
            if same_value(x, y):
                return x
            try:
                return ite(ca, x, y)
            except Unsupported:
                return fresh_opaque(base)
        m.env = {}
        for k in set(a.env) | set(b.env):
            v = mv(a.env.get(k), b.env.get(k), str(k))
            if v is not None:
                m.env[k] = v
        m.heap = {}
        for k in set(a.heap) | set(b.heap):
            if k not in a.heap or k not in b.heap:
                have, other, cond_have = (a, b, ca) if k in a.heap else (b, a, VBool(z3.Not(sel)))
                if k not in have.written:
                    # lazily materialised by a read on one side only: the other side never touched the field, it
                    # still holds the same initial value there
                    m.heap[k] = have.heap[k]
                    continue
                # assigned (or havocked) on one side only: on the other side the field keeps its initial value
                if k[0] == 'o' and k[1] in have.oterms:
                    init = VOpaque(z3.Function('v_attr_' + str(k[2]), smt.Val, smt.Val)(have.oterms[k[1]]))
                else:
                    init = fresh_opaque('init_' + str(k[-1]))
                try:
                    m.heap[k] = ite(cond_have, have.heap[k], init)
                except Unsupported:
                    m.heap[k] = fresh_opaque(str(k[-1]))
                m.written.add(k)
                continue
            v = mv(a.heap[k], b.heap[k], str(k[-1]))
            if v is not None:
                m.heap[k] = v
        m.ghost = {}
        for k in set(a.ghost) | set(b.ghost):
            x, y = a.ghost.get(k), b.ghost.get(k)
            if x is None:
                x = self.ghost_default(k)
            if y is None:
                y = self.ghost_default(k)
            v = mv(x, y, 'ghost_' + str(k))
            if v is not None:
                m.ghost[k] = v
        # events: keep the common prefix (later ones are path specific)
        ne = 0
        while ne < len(a.events) and ne < len(b.events) and a.events[ne] is b.events[ne]:
            ne += 1
        m.events = a.events[:ne]
        m.yields = a.yields if len(a.yields) >= len(b.yields) else b.yields
        m.fresh_objs = a.fresh_objs | b.fresh_objs
        m.written = m.written | a.written | b.written
        m.oterms = dict(b.oterms); m.oterms.update(a.oterms)
        m.trace = a.trace[:n] if False else a.trace[:0] + ['merge']
        return m

    def ghost_default(self, name):
        return VBool(z3.BoolVal(False))

    # ghost helpers for contracts
    def ghost_set(self, st, name, val):
        st.ghost[name] = val

    def ghost_get(self, st, name):
        v = st.ghost.get(name)
        return v if v is not None else self.ghost_default(name)

    # ------------------------------------------------------------------ loops
    def s_For(self, node, st, fr):
        gen = self._generator_idiom(node, st, fr)
        if gen is not None:
            return gen
        # literal / statically known iterables: unroll via the base class
        try:
            it_outs = self.eval(node.iter, st.fork(), fr)
            if len(it_outs) == 1 and it_outs[0].kind == 'normal':
                items = self.iter_items(it_outs[0].val, it_outs[0].st)
                if items is not None and len(items) <= 8:
                    return Executor.s_For(self, node, st, fr)
        except Unsupported:
            pass
        if self.opts.get('comprehension_facts') and self._breaks_always(node):
            return self._at_most_once_loop(node, st, fr)
        return self._havoc_loop(node, st, fr, is_for=True)

    @staticmethod
    def _breaks_always(node):
        """body ends in `break` and contains no `continue` of this loop: at most one iteration"""
        if not node.body or not isinstance(node.body[-1], ast.Break):
            return False

        def has_continue(stmts):
            for s in stmts:
                if isinstance(s, ast.Continue):
                    return True
                if isinstance(s, (ast.For, ast.While, ast.FunctionDef, ast.ClassDef)):
                    continue
                for fld in ('body', 'orelse', 'finalbody', 'handlers'):
                    sub = getattr(s, fld, None)
                    if sub and has_continue([h for h in sub if isinstance(h, ast.stmt)] +
                                            [x for h in sub if isinstance(h, ast.ExceptHandler) for x in h.body]):
                        return True
            return False
        return not has_continue(node.body)

    def _at_most_once_loop(self, node, st, fr):
        """`for x in IT: ...; break  [else: E]`  ==  non-empty IT: x = some element of IT, body (leaves by break);
        empty IT: E.  No havoc is needed."""
        res, outs = [], []
        for o in self.eval(node.iter, st, fr):
            if o.kind != 'normal':
                res.append(o)
                continue
            empty = o.st.fork()
            body_st = o.st
            x = fresh_opaque('elem')
            if isinstance(o.val, VOpaque):
                body_st.assume(z3.Function('v_in', smt.Val, smt.Val, smt.B)(x.t, o.val.t))
                fact = self.element_fact(body_st, o.val, x.t)
                if fact is not None:
                    body_st.assume(fact)
            for oa in self.assign(node.target, x, body_st, fr):
                for ob in self.exec_block(node.body, oa.st, fr):
                    if ob.kind == 'break':
                        outs.append(Outcome('normal', ob.st))
                    elif ob.kind in ('normal', 'continue'):
                        raise Unsupported('loop body that always breaks completed normally')
                    else:
                        res.append(ob)
            if node.orelse:
                outs.extend(self.exec_block(node.orelse, empty, fr))
            else:
                outs.append(Outcome('normal', empty))
        return res + self.merge(outs)

    def s_While(self, node, st, fr):
        return self._havoc_loop(node, st, fr, is_for=False)

    def _havoc_loop(self, node, st, fr, is_for):
        """Cut with the trivial invariant: havoc what the body may modify, check
        the body once from an arbitrary iteration, continue after the loop from
        an arbitrary exit state."""
        res = []
        mod = _assigned_names(node.body) | (set(_target_names(node.target)) if is_for else set())
        if self.opts.get('loop_preserved_names') and not getattr(self, '_probing_loop', False):
            # opt-in refinement of the trivial invariant: a local that every path from the loop head back to the loop
            # head leaves untouched (it is only assigned on paths that leave the loop) keeps its pre-loop value at
            # the head of every iteration and when the loop is exhausted.  Decided by a probe run of the body with
            # every candidate bound to a fresh marker: preservation for an arbitrary value is the inductive step.
            mod = mod - self._probe_preserved(node, st, fr, is_for, mod)

        def havoc(s):
            for n in mod:
                s.env[n] = fresh_opaque(n)
            for n in ast.walk(ast.Module(body=node.body, type_ignores=[])):
                if isinstance(n, ast.Call):
                    nm = self._callee_name(n)
                    if nm and nm not in self.spec.pure:
                        self.havoc_call(nm, s)
                elif isinstance(n, ast.Attribute) and isinstance(n.ctx, ast.Store):
                    for key in list(s.heap.keys()):
                        if key[-1] == n.attr:
                            self._forget(s.heap, key, s.written)
            for k in list(s.ghost.keys()):
                if k in getattr(self.spec, 'loop_ghost_havoc', ()):
                    del s.ghost[k]
        if is_for:
            for o in self.eval(node.iter, st, fr):
                if o.kind != 'normal':
                    res.append(o)
            # (the iterable's value is not needed: elements are arbitrary)
        body_st = st.fork()
        havoc(body_st)
        after = body_st.fork()
        if not is_for:
            outs = self.eval(node.test, body_st, fr)
            bstates = []
            for o in outs:
                if o.kind != 'normal':
                    res.append(o)
                    continue
                t, f = self.split(o.st, truthy(o.val))
                if t is not None:
                    bstates.append(t)
            aft = []
            for o in self.eval(node.test, after, fr):
                if o.kind == 'normal':
                    t, f = self.split(o.st, truthy(o.val))
                    if f is not None:
                        aft.append(f)
            after_states = aft
        else:
            for n in _target_names(node.target):
                body_st.env[n] = fresh_opaque(n)
            bstates = [body_st]
            after_states = [after]
        broken = []
        for bs in bstates:
            for ob in self.exec_block(node.body, bs, fr):
                if ob.kind in ('normal', 'continue'):
                    continue                    # next iteration: covered by the arbitrary iteration state
                if ob.kind == 'break':
                    broken.append(ob.st)
                else:
                    res.append(ob)
        outs = []
        for a in after_states:
            if node.orelse:
                outs.extend(self.exec_block(node.orelse, a, fr))
            else:
                outs.append(Outcome('normal', a))
        for a in broken:                        # `break` skips the loop's else clause
            outs.append(Outcome('normal', a))
        return res + self.merge(outs)

    def _probe_preserved(self, node, st, fr, is_for, mod):
        self._probing_loop = True
        n_ob = len(self.obligations)
        n_len = len(self.lenient)
        try:
            ps = st.fork()
            marks = {}
            for n in mod:
                marks[n] = fresh_opaque('probe_' + n)
                ps.env[n] = marks[n]
            for n in ast.walk(ast.Module(body=node.body, type_ignores=[])):
                if isinstance(n, ast.Call):
                    nm = self._callee_name(n)
                    if nm and nm not in self.spec.pure:
                        self.havoc_call(nm, ps)
            if is_for:
                for n in _target_names(node.target):
                    ps.env[n] = fresh_opaque(n)
            starts = [ps]
            if not is_for:
                starts = []
                for o in self.eval(node.test, ps, fr):
                    if o.kind == 'normal':
                        t, f = self.split(o.st, truthy(o.val))
                        if t is not None:
                            starts.append(t)
            keep = set(n for n in mod if not (is_for and n in _target_names(node.target)))
            for bs in starts:
                for ob in self.exec_block(node.body, bs, fr):
                    if ob.kind in ('normal', 'continue'):
                        for n in list(keep):
                            if ob.st.env.get(n) is not marks[n]:
                                keep.discard(n)
            return keep
        except Unsupported:
            return set()
        finally:
            self._probing_loop = False
            del self.obligations[n_ob:]
            del self.lenient[n_len:]

    def _generator_idiom(self, node, st, fr):
        """`for r in G(...)` over a generator call in one of the known shapes -> r = await G(...)"""
        it_hook = None
        if isinstance(node.iter, ast.Name):
            # opt-in (`spec.on_iter = {'name': hook(ex, st, fr, node) -> outcomes}`, set after construction): a loop
            # over a generator OBJECT held in a local/parameter (`for r in handshaker: yield r`) in one of the known
            # shapes is `r = await <hook>`; the hook supplies the outcomes (normal and raising) of running it
            it_hook = (getattr(self.spec, 'on_iter', None) or {}).get(node.iter.id)
            if it_hook is None:
                return None
        elif not isinstance(node.iter, ast.Call):
            return None
        elif not self.is_generator_call(node.iter, st, fr):
            return None
        tgt = node.target
        body = node.body
        shape = None
        if len(body) == 1 and isinstance(body[0], ast.Pass):
            shape = 'drain'
        elif len(body) == 1 and isinstance(body[0], ast.Expr) and isinstance(body[0].value, ast.Yield) \
                and isinstance(body[0].value.value, ast.Name) and isinstance(tgt, ast.Name) \
                and body[0].value.value.id == tgt.id:
            shape = 'passthrough'
        elif len(body) == 1 and isinstance(body[0], ast.If) and self._is_01_test(body[0].test, tgt):
            iff = body[0]
            y_ok = len(iff.body) == 1 and isinstance(iff.body[0], ast.Expr) and isinstance(iff.body[0].value, ast.Yield)
            if y_ok and len(iff.orelse) == 1 and isinstance(iff.orelse[0], ast.Break):
                shape = 'await-break'
            elif y_ok and not iff.orelse:
                shape = 'await'
            elif y_ok and len(iff.orelse) == 1 and isinstance(iff.orelse[0], ast.Pass):
                shape = 'await'
        if shape is None:
            raise Unsupported('loop over generator call at line %d matches no known idiom' % node.lineno)
        res = []
        for o in (it_hook(self, st, fr, node) if it_hook is not None else self.eval(node.iter, st, fr)):
            if o.kind != 'normal':
                res.append(o)
                continue
            if isinstance(tgt, ast.Name):
                o.st.env[tgt.id] = o.val
            elif isinstance(tgt, (ast.Tuple, ast.List)):
                for n in _target_names(tgt):
                    o.st.env[n] = fresh_opaque(n)
            if node.orelse:
                res.extend(self.exec_block(node.orelse, o.st, fr))
            else:
                res.append(Outcome('normal', o.st))
        return res

    def _is_01_test(self, test, tgt):
        if not isinstance(tgt, ast.Name):
            return False
        if isinstance(test, ast.Compare) and len(test.ops) == 1 and isinstance(test.ops[0], ast.In) \
                and isinstance(test.left, ast.Name) and test.left.id == tgt.id \
                and isinstance(test.comparators[0], (ast.Tuple, ast.List)):
            vals = [e.value for e in test.comparators[0].elts if isinstance(e, ast.Constant)]
            return sorted(vals) == [0, 1]
        return False

    GENERATOR_NAMES = None

    def is_generator_call(self, call, st, fr):
        name = self._callee_name(call)
        if name is None:
            return False
        if M2Executor.GENERATOR_NAMES is None:
            gens = set()
            root = os.path.join(source.REPO, 'tlslite')
            for dp, dn, fn in os.walk(root):
                for f in fn:
                    if f.endswith('.py'):
                        tree = source.module_ast(os.path.join(dp, f))
                        for n in ast.walk(tree):
                            if isinstance(n, ast.FunctionDef) and any(isinstance(x, (ast.Yield, ast.YieldFrom))
                                                                      for x in source._walk_own(n)):
                                gens.add(n.name)
            M2Executor.GENERATOR_NAMES = gens
        return name in M2Executor.GENERATOR_NAMES

    def s_Expr(self, node, st, fr):
        # a generator function called as a bare statement creates a generator object and discards it: NOTHING of its
        # body runs (a forgotten `for result in ...: yield result`); hooks that model the callee must not fire
        v = node.value
        if isinstance(v, ast.Call) and isinstance(v.func, ast.Attribute) and isinstance(v.func.value, ast.Name) \
                and v.func.value.id == 'self' and self.is_generator_call(v, st, fr):
            self.lenient.append('bare-generator-call@L%d: %s never runs' % (node.lineno, v.func.attr))
            res, out = self._eval_args(v, st, fr)
            return out + [Outcome('normal', s_) for (s_, _r, _a, _k) in res]
        return Executor.s_Expr(self, node, st, fr)

    def s_Continue(self, node, st, fr):
        h = getattr(self.spec, 'on_continue', None)
        if h is not None:
            h(self, st, fr, node)
        return Executor.s_Continue(self, node, st, fr)

    # statements outside the subset
    def s_Global(self, node, st, fr):
        return [Outcome('normal', st)]

    def s_Nonlocal(self, node, st, fr):
        return [Outcome('normal', st)]

    def s_ClassDef(self, node, st, fr):
        st.env[node.name] = fresh_opaque('class_' + node.name)
        return [Outcome('normal', st)]

    def s_With(self, node, st, fr):
        try:
            return Executor.s_With(self, node, st, fr)
        except Unsupported:
            return self.exec_block(node.body, st, fr)

    def s_Delete(self, node, st, fr):
        for t in node.targets:
            if isinstance(t, ast.Name):
                st.env.pop(t.id, None)
            elif isinstance(t, ast.Attribute):
                for key in list(st.heap.keys()):
                    if key[-1] == t.attr:
                        st.heap[key] = fresh_opaque('hv_' + str(t.attr))
        return [Outcome('normal', st)]

    def do_yield(self, ynode, st, fr):
        outs = Executor.do_yield(self, ynode, st, fr)
        if self.spec.on_yield is not None:
            for o in outs:
                if o.kind == 'normal' and o.st.yields:
                    self.spec.on_yield(self, o.st.yields[-1], o.st, fr, ynode)
        return outs

    def _handle(self, node, o, fr):
        if isinstance(o.val, VExc) and o.val.cls is NoReturn:
            # a no-return abort (fatal alert) is never caught by handlers for ordinary exception classes
            # except bare `except:` / `except BaseException`, which the wrappers use to shut down
            for h in node.handlers:
                if h.type is None:
                    return Executor._handle(self, node, Outcome('raise', o.st, VExc(Exception, [], o.val.origin)), fr)
            return [o]
        try:
            return Executor._handle(self, node, o, fr)
        except Unsupported:
            return [o]


class NoReturn(BaseException):
    """exception class standing for 'the callee never returns normally' (e.g. _sendError)"""


def run_m2(contract_name, qual, spec, prop, body_setup=None, exits=None, opts=None):
    """Executes `qual` in M2 mode.  Returns (ex, outcomes, frame, entry_state)."""
    fs = source.load(qual)
    ex = M2Executor(_reg(), spec, opts)
    st = State()
    fr = Frame(fs, None)
    names = [a.arg for a in fs.node.args.posonlyargs + fs.node.args.args]
    for i, n in enumerate(names):
        if n == 'self' and fs.cls is not None:
            o = st.alloc(fs.cls)
            st.fresh_objs.discard(o.oid)
            st.env[n] = o
        else:
            st.env[n] = fresh_opaque(n)
    # defaults for keyword-only etc. are irrelevant in M2 (arbitrary values)
    if body_setup:
        body_setup(ex, st, fr)
    entry = st.fork()
    outs = ex.exec_block(source.strip_docstring(fs.node.body), st, fr)
    return ex, outs, fr, entry


def _reg():
    from .contract import REG
    return REG


# ---------------------------------------------------------------------------
# M2 verification task

class M2Task(object):
    """Executes one real function in M2 mode; obligations are posed by the
    spec's hooks during execution and by `check(api)` on the exits."""

    def __init__(self, name, prop, qual, spec, check=None, setup=None, doc='', opts=None):
        self.name = name
        self.key = 'm2:' + name
        self.qual = qual
        self.prop = tuple(prop) if isinstance(prop, (list, tuple)) else (prop,)
        self.spec = spec
        self.check = check
        self.setup = setup
        self.doc = doc
        self.opts = opts or {}

    def verify(self, reg, budget_ms=10000):
        import time
        from .contract import discharge
        t0 = time.time()
        ex, outs, fr, entry = run_m2(self.name, self.qual, self.spec, self.prop, self.setup, opts=self.opts)
        api = M2API(ex, outs, fr, entry, self)
        if self.check is not None:
            self.check(api)
        if not ex.obligations:
            raise RuntimeError('M2 task %s produced no obligations' % self.name)
        t1 = time.time()
        from .contract import discharge_all
        results = discharge_all(self, ex.obligations, budget_ms)
        fs = source.load(self.qual)
        meta = {'qual': self.qual, 'sha256': fs.sha256, 'contract': self.name, 'exec_s': t1 - t0,
                'paths': len(outs), 'inlined': sorted(ex.inlined),
                'opaque': sorted(ex.opaque_calls)[:80],
                'assumptions': sorted(set(ex.assumptions)) +
                ['M2: %d constructs evaluated as unconstrained opaque values' % len(ex.lenient)]}
        return results, meta


class M2API(object):
    def __init__(self, ex, outs, fr, entry, task):
        self.ex, self.outs, self.fr, self.entry, self.task = ex, outs, fr, entry, task

    def exits(self, *kinds):
        return [o for o in self.outs if o.kind in kinds]

    def normal_exits(self):
        return [o for o in self.outs if o.kind in ('normal', 'return')]

    def raise_exits(self, cls=None):
        r = [o for o in self.outs if o.kind == 'raise']
        if cls is not None:
            r = [o for o in r if inspect.isclass(o.val.cls) and issubclass(o.val.cls, cls)]
        return r

    def oblige(self, st, name, goal):
        if isinstance(goal, bool):
            goal = z3.BoolVal(goal)
        self.ex.oblige(st, name, goal if not isinstance(goal, V) else truthy(goal), kind='m2')

    def unreachable(self, st, name):
        self.ex.oblige(st, name, z3.BoolVal(False), kind='m2-unreachable')

    def events(self, st, name):
        return [e for e in st.events if e[0] == name]

    def ghost(self, st, name):
        return self.ex.ghost_get(st, name)


def m2task(name, prop, qual, spec, check=None, setup=None, doc='', opts=None):
    t = M2Task(name, prop, qual, spec, check, setup, doc, opts)
    _reg().add_task(t)
    return t
