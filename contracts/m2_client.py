"""M2 (guard-dominance) tasks on the CLIENT side of tlslite/tlsconnection.py, TLS <= 1.2 flow and the shared
hello / Finished code.

Obligations come from the property statements C03/C04/C05/C06/C13/C20 and RFC 5246 (7.3 fig. 1, 7.4.1.4,
7.4.4, 7.4.9), RFC 5077 (3.3, 3.4), RFC 7507, RFC 7627, RFC 8446 (4.1.3, 4.1.4, 4.2.1), RFC 8449.
The classification of suites used in the typestate automaton is the independent IANA-name parse of
/verif/specs/iana.py, NOT the library's lists.
"""
import z3

from pyvc.m2 import M2Spec, m2task, NoReturn, fresh_opaque
from pyvc.executor import Outcome
from pyvc.values import (VBool, VPy, VOpaque, VInt, VNone, VTuple, VList, VExc, VObj, VStr, truthy, to_val, eq_op,
                         v_truthy, v_int, v_none, str_id, Unsupported)
from pyvc.contract import REG
from pyvc import smt
from contracts.m2_common import TRL, TC, h_sendError

from tlslite.constants import (CipherSuite, ContentType, HandshakeType, ExtensionType, AlertDescription)
from tlslite import messages as M
from tlslite.errors import TLSIllegalParameterException, TLSDecryptionFailed
from specs import iana

OPTS = {'ground_feasible': True, 'list_concat': True}
PROPS = ('C03', 'C04', 'C05', 'C06', 'C13', 'C20')

Val, I, B = smt.Val, smt.I, smt.B
GETITEM = z3.Function('v_getitem', Val, Val, Val)
V_IN = z3.Function('v_in', Val, Val, B)
V_ISINST = z3.Function('v_isinstance', Val, I, B)
V_LT = z3.Function('v_cmp_lt', Val, Val, B)
V_LE = z3.Function('v_cmp_le', Val, Val, B)
V_GT = z3.Function('v_cmp_gt', Val, Val, B)
V_GE = z3.Function('v_cmp_ge', Val, Val, B)
V_ADD = z3.Function('v_binop_Add', Val, Val, Val)
TRUE, FALSE = z3.BoolVal(True), z3.BoolVal(False)


def attr(name, v):
    """term of the field read `v.name` on an opaque v (when no store intervened)"""
    return z3.Function('v_attr_' + name, Val, Val)(v if z3.is_expr(v) else to_val(v))


def tv(v):
    return v if z3.is_expr(v) else to_val(v)


def T_(v):
    """python truthiness of a value as z3 Bool"""
    return v_truthy(v) if z3.is_expr(v) else truthy(v)


def vtup(a, b):
    return to_val(VTuple([VInt(a), VInt(b)]))


def gbool(st, name):
    v = st.ghost.get(name)
    return FALSE if v is None else truthy(v)


def gset(st, name, b=True):
    st.ghost[name] = VBool(z3.BoolVal(b) if isinstance(b, bool) else b)


import os
_FLIP = os.environ.get('M2C_FLIP')          # non-vacuity check: negate the goals whose name starts with this


def OB(ex, st, name, goal):
    """pose an m2 obligation (ex: executor or M2API)"""
    if isinstance(goal, bool):
        goal = z3.BoolVal(goal)
    if _FLIP and (_FLIP == '*' or name.startswith(_FLIP)):
        goal = z3.Not(goal)
    getattr(ex, 'ex', ex).oblige(st, name, goal)


def concat_lemmas(x, term):
    """ground instances, for every subterm a+b of `term`, of  x in a  ==>  x in a+b   (list concatenation
    keeps the elements of its left operand)"""
    out, seen, todo = [], set(), [term]
    while todo:
        t = todo.pop()
        if t.get_id() in seen:
            continue
        seen.add(t.get_id())
        if z3.is_app(t):
            if t.decl().name() == 'v_binop_Add':
                out.append(z3.Implies(V_IN(x, t.arg(0)), V_IN(x, t)))
            todo.extend(t.children())
    return out


# ---------------------------------------------------------------------------------------------------------
# the gate `_getMsg(expectedType, secondaryType, constructorType)`: ASSUMED contract (proved on the real body by the
# _getMsg gate task of m2_getmsg; text in DESIGN.md C06): a message m returned normally has
# contentType(m) in expectedType, and for handshake records handshakeType(m) in secondaryType; the class of m is
# the one `_getMsg` constructs for that (content type, handshake type, version); the transcript was extended by m
# iff m is a handshake message.
MSG_CT = z3.Function('msg_content_type', Val, I)
MSG_HT = z3.Function('msg_handshake_type', Val, I)

_CLS_OF_HT = [(M.ServerHello, HandshakeType.server_hello), (M.Certificate, HandshakeType.certificate),
              (M.CertificateRequest, HandshakeType.certificate_request),
              (M.ServerKeyExchange, HandshakeType.server_key_exchange),
              (M.ServerHelloDone, HandshakeType.server_hello_done), (M.Finished, HandshakeType.finished),
              (M.NextProtocol, HandshakeType.next_protocol)]


def isinst(m, cls):
    return V_ISINST(tv(m), z3.IntVal(str_id(repr([cls]))))


def _ints(v):
    """literal expected-type argument -> list of python ints"""
    if v is None or isinstance(v, VNone):
        return None
    if isinstance(v, VInt) and v.concrete() is not None:
        return [v.concrete()]
    if isinstance(v, (VTuple, VList)):
        r = []
        for i in v.items:
            if not (isinstance(i, VInt) and i.concrete() is not None):
                return None
            r.append(i.concrete())
        return r
    return None


def getmsg_model(ex, args, kwargs, st, node, version_lt_13=True):
    """applies the assumed gate contract; returns (message, content types, handshake types)"""
    exp = _ints(args[0])
    sec = _ints(args[1] if len(args) > 1 else kwargs.get('secondaryType'))
    if exp is None:
        raise Unsupported('_getMsg with a non-literal expectedType at line %d' % node.lineno)
    m = fresh_opaque('msg')
    st.assume(z3.Or([MSG_CT(m.t) == c for c in exp]))
    if ContentType.handshake in exp:
        if sec is None:
            raise Unsupported('_getMsg(handshake) without literal secondaryType at line %d' % node.lineno)
        st.assume(z3.Implies(MSG_CT(m.t) == ContentType.handshake, z3.Or([MSG_HT(m.t) == h for h in sec])))
    st.assume(v_truthy(m.t))                                 # message classes define no __bool__/__len__ (checked at import)
    st.assume(m.t != v_none)
    st.assume(z3.And(m.t != to_val(VInt(0)), m.t != to_val(VInt(1))))
    hs = MSG_CT(m.t) == ContentType.handshake
    for cls, ht in _CLS_OF_HT:
        st.assume(isinst(m, cls) == z3.And(hs, MSG_HT(m.t) == ht))
    st.assume(isinst(m, M.ChangeCipherSpec) == (MSG_CT(m.t) == ContentType.change_cipher_spec))
    if version_lt_13:
        st.assume(isinst(m, M.NewSessionTicket1_0) == z3.And(hs, MSG_HT(m.t) == HandshakeType.new_session_ticket))
    st.events.append(('_getMsg', list(args), m))
    # transcript: one more handshake message hashed
    n = st.ghost.get('hh_msgs', VInt(z3.IntVal(0)))
    st.ghost['hh_msgs'] = VInt(z3.If(hs, n.t + 1, n.t))
    ex.havoc_call('_getMsg', st)
    return m, exp, sec


for _c in (M.ServerHello, M.Certificate, M.CertificateRequest, M.ServerKeyExchange, M.ServerHelloDone, M.Finished,
           M.NextProtocol, M.ChangeCipherSpec, M.NewSessionTicket1_0):
    assert not any(hasattr(_c, n) for n in ('__bool__', '__len__', '__nonzero__')), _c

REG.note('C06', 'assumptions',
         'm2_client: `_getMsg` is used by contract (gate): result m has contentType in expectedType, handshakeType in '
         'secondaryType, class determined by (contentType, handshakeType), is a truthy message object (none of the '
         'message classes defines __bool__/__len__: checked at import) and the transcript gained exactly m when m is a '
         'handshake message; abort paths of _getMsg (alerts, unexpected_message) do not return')

# =========================================================================================================
# 1. _clientSendClientHello  (C04 FALLBACK_SCSV; C13 offer of cached session / tickets)

EMPTY_RI = CipherSuite.TLS_EMPTY_RENEGOTIATION_INFO_SCSV
FALLBACK = CipherSuite.TLS_FALLBACK_SCSV


def _h_list(ex, recv, args, kwargs, st, fr, node):
    if len(args) != 1 or 'wire_list' in st.ghost:
        return None
    r = fresh_opaque('wire_list')
    st.ghost['wire_list'] = r
    st.ghost['wire_src'] = args[0] if isinstance(args[0], VOpaque) else fresh_opaque('nonopaque_src')
    st.events.append(('list', args, r))
    return [Outcome('normal', st, r)]


def _h_append_ch(ex, recv, args, kwargs, st, fr, node):
    wl = st.ghost.get('wire_list')
    if wl is not None and isinstance(recv, VOpaque) and recv.t.eq(wl.t):
        is_fb = isinstance(args[0], VInt) and args[0].concrete() == FALLBACK
        if is_fb:
            gset(st, 'fallback_appended')
        st.events.append(('wire.append', args, None))
        return [Outcome('normal', st, VNone())]
    return None


def _h_wire_mutation(ex, recv, args, kwargs, st, fr, node):
    wl = st.ghost.get('wire_list')
    if wl is not None and isinstance(recv, VOpaque) and recv.t.eq(wl.t):
        gset(st, 'wire_shrunk')
    return None


def _h_create_ch(ex, recv, args, kwargs, st, fr, node):
    """ClientHello.create(version, random, session_id, cipher_suites, certificate_types, srpUsername, tack,
    supports_npn, serverName, extensions=...)"""
    if len(args) < 9:
        return None
    settings, session = st.env['settings'], st.env['session']
    wl = st.ghost.get('wire_list')
    src = st.ghost.get('wire_src')
    send_fb = T_(attr('sendFallbackSCSV', settings))
    OB(ex, st, 'ch:cipher_suites-argument-is-the-wire-list@L%d' % node.lineno,
              FALSE if wl is None else tv(args[3]) == wl.t)
    OB(ex, st, 'ch:FALLBACK_SCSV-appended-to-wire-list-when-sendFallbackSCSV@L%d' % node.lineno,
              z3.Implies(send_fb, gbool(st, 'fallback_appended')))
    OB(ex, st, 'ch:FALLBACK_SCSV-only-when-sendFallbackSCSV@L%d' % node.lineno,
              z3.Implies(gbool(st, 'fallback_appended'), send_fb))
    OB(ex, st, 'ch:nothing-removed-from-wire-list@L%d' % node.lineno, z3.Not(gbool(st, 'wire_shrunk')))
    # RFC 5746 3.4: the renegotiation-info SCSV (the code's policy: always first in the offer)
    if src is None:
        g = FALSE
    else:
        x = to_val(VInt(EMPTY_RI))
        g = z3.Implies(z3.And(concat_lemmas(x, src.t) + [TRUE]), V_IN(x, src.t))
    OB(ex, st, 'ch:wire-list-copies-an-offer-containing-EMPTY_RENEGOTIATION_INFO_SCSV@L%d' % node.lineno, g)
    # C13 / RFC 5246 7.4.1.2: a session id is offered only from a cached session object that carries one
    sid = tv(args[2])
    from_session = z3.And(T_(session), T_(attr('sessionID', session)))
    OB(ex, st, 'ch:cached-session-id-offered-iff-session-with-id@L%d' % node.lineno,
              z3.And(z3.Implies(from_session, sid == attr('sessionID', session)),
                     z3.Implies(z3.Not(from_session), sid == tv(st.env['session_id']))))
    # resumption must offer the suite of the cached session (RFC 5246 7.4.1.2 / F.1.4)
    OB(ex, st, 'ch:cached-session-suite-is-in-the-offer@L%d' % node.lineno,
              z3.Implies(from_session, V_IN(attr('cipherSuite', session), tv(st.env['cipherSuites']))))
    # identity bound to the resumed session is the cached one (C13: consistent ClientHello)
    OB(ex, st, 'ch:resumption-hello-carries-the-cached-srp-name-and-server-name@L%d' % node.lineno,
              z3.Implies(from_session, z3.And(tv(args[5]) == attr('srpUsername', session),
                                              tv(args[8]) == attr('serverName', session))))
    r = fresh_opaque('clientHello')
    st.events.append(('ClientHello.create', list(args), r))
    st.ghost['ch_created'] = VBool(TRUE)
    return [Outcome('normal', st, r)]


def _h_sendMsg_ch(ex, recv, args, kwargs, st, fr, node):
    st.events.append(('_sendMsg', list(args), None))
    OB(ex, st, 'ch:message-sent-is-the-created-ClientHello', tv(args[0]) == tv(st.env.get('clientHello', VNone())))
    OB(ex, st, 'ch:ClientHello.create-dominates-send', gbool(st, 'ch_created'))
    ex.havoc_call('_sendMsg', st)
    return [Outcome('normal', st, fresh_opaque('sendMsg_result'))]


SPEC_CH = M2Spec(hooks={'_sendError': h_sendError, 'list': _h_list, 'append': _h_append_ch, 'create': _h_create_ch,
                        'remove': _h_wire_mutation, 'pop': _h_wire_mutation, 'clear': _h_wire_mutation,
                        '_sendMsg': _h_sendMsg_ch},
                 pure={'getattr', 'getCertificateTypes'})


def _check_ch(api):
    n = api.normal_exits()
    OB(api, api.entry, 'ch:has-normal-exit', len(n) >= 1)
    for o in n:
        OB(api, o.st, 'ch:exactly-one-ClientHello-sent', len(api.events(o.st, '_sendMsg')) == 1 or
                   gbool(o.st, 'ch_created'))
        y = o.st.yields[-1] if o.st.yields else None
        OB(api, o.st, 'ch:returns-the-sent-ClientHello',
                   FALSE if y is None else tv(y) == tv(o.st.env['clientHello']))


m2task('_clientSendClientHello/offer', ('C04', 'C13', 'C03'), TC + '_clientSendClientHello', SPEC_CH, check=_check_ch,
       opts=OPTS,
       doc='every ClientHello().create(...) call gets the wire list: a copy of the offer (headed by the renegotiation '
           'SCSV) to which TLS_FALLBACK_SCSV was appended iff settings.sendFallbackSCSV; a cached session id is '
           'offered only together with the cached suite / names')
