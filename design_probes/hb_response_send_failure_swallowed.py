"""C17 probe: a transport failure while sending the heartbeat response is swallowed by _getMsg."""
import socket, errno, sys
sys.path.insert(0, '/repo')
from tlslite.tlsrecordlayer import TLSRecordLayer
from tlslite.messages import Heartbeat, RecordHeader3, ApplicationData
from tlslite.constants import ContentType, HeartbeatMessageType
from tlslite.utils.codec import Parser

class DeadSock(object):
    """peer has reset the connection: every send fails"""
    def __init__(self): self.sent = []
    def send(self, data): raise socket.error(errno.EPIPE, 'Broken pipe')
    def sendall(self, data): raise socket.error(errno.EPIPE, 'Broken pipe')
    def recv(self, n): raise AssertionError('not used')
    def close(self): pass

conn = TLSRecordLayer(DeadSock())
conn.version = (3, 3)
conn.closed = False
conn.heartbeat_supported = True
conn.heartbeat_can_receive = True

req = Heartbeat().create(HeartbeatMessageType.heartbeat_request, bytearray(b'ping'), 16).write()
records = [(RecordHeader3().create((3, 3), ContentType.heartbeat, len(req)), Parser(req)),
           (RecordHeader3().create((3, 3), ContentType.application_data, 5), Parser(bytearray(b'hello')))]
def fake_getNextRecord():
    yield records.pop(0)
conn._getNextRecord = fake_getNextRecord

out = None
try:
    for r in conn._getMsg(ContentType.application_data):
        out = r
    print('returned:', type(out).__name__, bytes(out.write()), '| closed =', conn.closed)
except Exception as e:
    print('raised:', type(e).__name__, e)
