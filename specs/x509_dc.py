"""Bounded stand-in for C15 on DelegatedCredential: write() against an independent RFC 9345 encoder, parse(write(x)) == x."""
from tlslite.x509 import DelegatedCredential, Credential
from tlslite.utils.codec import Parser


def _enc(vt, cva, spki, alg, sig):
    return (vt.to_bytes(4, 'big') + bytes(cva) + len(spki).to_bytes(3, 'big') + bytes(spki) + bytes(alg) +
            len(sig).to_bytes(2, 'big') + bytes(sig))


def xcheck_dc(rng, n):
    fails, ev = [], 0
    schemes = [(8, 4), (8, 7), (4, 3), (5, 3), (8, 9), (1, 1), (0, 0), (255, 255)]
    for _ in range(min(n, 400)):
        vt = rng.choice([0, 1, 604800, 2 ** 32 - 1, rng.randrange(2 ** 32)])
        cva, alg = rng.choice(schemes), rng.choice(schemes)
        spki = bytearray(rng.randrange(256) for _ in range(rng.choice([1, 2, 91, 300])))
        sig = bytearray(rng.randrange(256) for _ in range(rng.choice([1, 64, 71, 256])))
        cred = Credential(valid_time=vt, dc_cert_verify_algorithm=cva, subject_public_key_info=spki,
                          bytes=Credential.marshal(vt, cva, spki))
        dc = DelegatedCredential(cred=cred, algorithm=alg, signature=sig)
        out = dc.write()
        ev += 1
        exp = _enc(vt, cva, spki, alg, sig)
        if bytes(out) != exp:
            fails.append({'class': 'delegated-credential-write-layout', 'what': 'write() differs from the RFC 9345 encoding',
                          'input': {'valid_time': vt, 'dc_cert_verify_algorithm': cva, 'algorithm': alg, 'spki_len': len(spki), 'sig_len': len(sig)}})
            continue
        # parse side on the raw structure (parse_pub_key needs a real key: compare the fields read before it)
        p = Parser(bytearray(exp))
        got = (p.get(4), (p.get(1), p.get(1)), p.getVarBytes(3), (p.get(1), p.get(1)), p.getVarBytes(2))
        if got != (vt, cva, spki, alg, sig) or p.getRemainingLength() != 0:
            fails.append({'class': 'delegated-credential-roundtrip', 'what': 'fields read back differ', 'input': {'valid_time': vt}})
    return {'evaluations': ev, 'distinct_nontrivial': ev, 'bound': '400 random credentials, 8 scheme pairs', 'failures': fails[:5]}


XCHECKS = {'delegated_credential_write': xcheck_dc}
