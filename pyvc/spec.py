"""Spec-side helpers (`S.*`) used inside requires / ensures / invariants, and
the external models of hash / HMAC objects."""
import z3

from . import smt
from .smt import slen, sat, isb, Seq, Val
from .values import (V, VInt, VBool, VNone, VStr, VSeq, VTuple, VList, VObj, VPy, VOpaque, Unsupported,
                     truthy, _lift, fresh_name, seq_from_items, ite as _ite, to_val)
from .contract import EXT_FUNCS, REG
from .executor import SpecFn, Outcome
from .state import T


def len_(x):
    if isinstance(x, VSeq):
        return VInt(slen(x.t))
    if isinstance(x, (VList, VTuple)):
        return VInt(len(x.items))
    if type(x).__name__ in ('VTupSeq', 'VAbsList'):
        return x.len()
    raise Unsupported('S.len of %r' % (x,))


def And(*xs):
    return VBool(z3.And([truthy(_lift(x)) for x in xs] + [z3.BoolVal(True)]))


def Or(*xs):
    return VBool(z3.Or([truthy(_lift(x)) for x in xs] + [z3.BoolVal(False)]))


def Not(x):
    return VBool(z3.Not(truthy(_lift(x))))


def implies(a, b):
    return VBool(z3.Implies(truthy(_lift(a)), truthy(_lift(b))))


def iff(a, b):
    return VBool(truthy(_lift(a)) == truthy(_lift(b)))


def ite(c, a, b):
    return _ite(_lift(c), _lift(a), _lift(b))


def forall(fn, lo=None, hi=None):
    """forall k in [lo, hi): fn(k)"""
    k = z3.Int(fresh_name('k'))
    body = truthy(_lift(fn(VInt(k))))
    guard = []
    if lo is not None:
        guard.append(_lift(lo).t <= k)
    if hi is not None:
        guard.append(k < _lift(hi).t)
    return VBool(z3.ForAll([k], z3.Implies(z3.And(guard + [z3.BoolVal(True)]), body)))


def exists(fn, lo=None, hi=None):
    k = z3.Int(fresh_name('k'))
    body = truthy(_lift(fn(VInt(k))))
    guard = []
    if lo is not None:
        guard.append(_lift(lo).t <= k)
    if hi is not None:
        guard.append(k < _lift(hi).t)
    return VBool(z3.Exists([k], z3.And(guard + [body])))


def cat(*xs):
    t = None
    elem = 'byte'
    for x in xs:
        if isinstance(x, (list, tuple)):
            x = seq_from_items([_lift(e) for e in x])
        if not isinstance(x, VSeq):
            raise Unsupported('S.cat of %r' % (x,))
        if x.elem != 'byte':
            elem = 'int'
        t = x.t if t is None else smt.s_concat(t, x.t)
    if t is None:
        t = smt.s_empty
    return VSeq(t, elem)


def byte(x):
    return VSeq(smt.s_single(_lift(x).t), 'byte')


def be(x, n):
    """big-endian encoding of x on n (literal) bytes"""
    x = _lift(x)
    return seq_from_items([VInt((x.t / (1 << (8 * (n - 1 - i)))) % 256) for i in range(n)])


def be_n(x, n):
    """big-endian encoding of x on n bytes, n symbolic (axiomatised s_be; element-wise
    definition available to the solver for n <= smt.BE_EXPLICIT)"""
    return VSeq(smt.s_be(_lift(x).t, _lift(n).t), 'byte', 'bytes')


def be_val(s):
    """big-endian integer value of a byte sequence (axiomatised s_val)"""
    return VInt(smt.s_val(s.t))


def pow256(n):
    return VInt(smt.pow256(_lift(n).t))


def ints(*xs):
    """sequence (list of ints) built from the given int terms"""
    return seq_from_items([_lift(x) for x in xs], 'int', 'list')


def empty():
    return VSeq(smt.s_empty, 'byte')


def rep(x, n):
    return VSeq(smt.s_rep(_lift(x).t, _lift(n).t), 'byte')


def seq_eq(a, b):
    """extensional equality (use in goals)"""
    return VBool(smt.seq_eq_goal(a.t, b.t))


def is_bytes(x):
    return VBool(isb(x.t))


def max_(a, b):
    a, b = _lift(a), _lift(b)
    return VInt(z3.If(a.t >= b.t, a.t, b.t))


def min_(a, b):
    a, b = _lift(a), _lift(b)
    return VInt(z3.If(a.t <= b.t, a.t, b.t))


_UF = {}


def uf(name, arg_sorts, ret_sort, seq_ext=()):
    """Declare (once) an uninterpreted function; seq_ext lists the argument
    positions that get extensionality instances."""
    if name in _UF:
        return _UF[name]
    f = z3.Function(name, *(list(arg_sorts) + [ret_sort]))
    _UF[name] = f
    for pos in seq_ext:
        EXT_FUNCS.append((f, list(arg_sorts), pos))
    return f


# ---------------------------------------------------------------------------
# MAC / hash objects.  A keyed MAC object (stdlib hmac.HMAC, tlslite's HMAC and
# MAC_SSL) is modelled as (key, fed) with digest() = Hmac(key, fed).  `key`
# stands for everything fixed at construction (algorithm, key bytes, SSLv3 or
# HMAC construction).  No property of Hmac other than being a function with
# output length digest_size is assumed.

Hmac = uf('Hmac', [Val, Seq], Seq, seq_ext=[1])


def mac_digest(key, fed, digest_size=None):
    return VSeq(Hmac(to_val(key), fed.t), 'byte', 'bytes')


class MacModel(object):
    name = 'Mac'

    def getattr(self, ex, v, name, st):
        if name in ('copy', 'update', 'digest'):
            return VPy(SpecFn(getattr(self, 'm_' + name)(v), name))
        return None

    def m_copy(self, v):
        def f(ex, args, kw, st, fr, node):
            o = st.alloc('Mac')
            for fld in ('key', 'fed', 'digest_size', 'block_size'):
                st.heap[(o.oid, fld)] = st.heap[(v.oid, fld)]
            return [Outcome('normal', st, o)]
        return f

    def m_update(self, v):
        def f(ex, args, kw, st, fr, node):
            d = args[0]
            if not isinstance(d, VSeq):
                raise Unsupported('mac.update(%r)' % (d,))
            fed = st.heap[(v.oid, 'fed')]
            st.heap[(v.oid, 'fed')] = VSeq(smt.s_concat(fed.t, d.t), 'byte', 'bytes')
            return [Outcome('normal', st, VNone())]
        return f

    def m_digest(self, v):
        def f(ex, args, kw, st, fr, node):
            key = st.heap[(v.oid, 'key')]
            fed = st.heap[(v.oid, 'fed')]
            ds = st.heap[(v.oid, 'digest_size')]
            r = mac_digest(key, fed)
            st.assume(z3.And(slen(r.t) == ds.t, isb(r.t)))
            return [Outcome('normal', st, r)]
        return f


REG.models['Mac'] = MacModel()
from . import views  # noqa: registers the composite-iterable loop source
from . import iters  # noqa: iterator objects, any/all, symbolic comprehensions


def T_mac(empty_fed=True):
    """Parameter type: a keyed MAC object that has not been fed any data."""
    return T('mac')


def make_mac(name, st, fed_empty=True):
    o = st.alloc('Mac')
    st.fresh_objs.discard(o.oid)
    st.heap[(o.oid, 'key')] = VOpaque(z3.Const(fresh_name(name + '.key'), Val))
    st.heap[(o.oid, 'fed')] = VSeq(smt.s_empty if fed_empty else z3.Const(fresh_name(name + '.fed'), Seq),
                                   'byte', 'bytes')
    ds = VInt(z3.Int(fresh_name(name + '.digest_size')))
    bs = VInt(z3.Int(fresh_name(name + '.block_size')))
    st.heap[(o.oid, 'digest_size')] = ds
    st.heap[(o.oid, 'block_size')] = bs
    return o


_orig_make = T.make


def _make(self, name, st, bv=None):
    if self.kind == 'mac':
        return make_mac(name, st)
    return _orig_make(self, name, st, bv)


T.make = _make
T.mac = staticmethod(lambda: T('mac'))


# ---------------------------------------------------------------------------
# Bulk cipher objects (the objects returned by tlslite.utils.cipherfactory).
# Assumed interface contract (justified per implementation under C09):
#   block / stream cipher:  encrypt(p) / decrypt(c) keep the length, depend on
#       (key, chaining state, input) only, advance the chaining state, and
#       Dec(k, s, Enc(k, s, p)) == p;  block ciphers assert len % block_size == 0
#   AEAD: seal(nonce, p, aad) has length len(p)+tagLength;
#       open(nonce, c, aad) is None or the plaintext; Open(k,n,Seal(k,n,p,a),a) == p

Enc = uf('Enc', [Val, Seq, Seq], Seq, seq_ext=[1, 2])
Dec = uf('Dec', [Val, Seq, Seq], Seq, seq_ext=[1, 2])
EncNext = uf('EncNext', [Val, Seq, Seq], Seq, seq_ext=[1, 2])
DecNext = uf('DecNext', [Val, Seq, Seq], Seq, seq_ext=[1, 2])
Seal = uf('Seal', [Val, Seq, Seq, Seq], Seq, seq_ext=[1, 2, 3])
Open = uf('Open', [Val, Seq, Seq, Seq], Seq, seq_ext=[1, 2, 3])
OpenOk = uf('OpenOk', [Val, Seq, Seq, Seq], smt.B, seq_ext=[1, 2, 3])


def _cipher_axioms():
    k = z3.Const('ck', Val)
    s, p, n, a = z3.Consts('cs cp cn ca', Seq)
    A = []
    A.append(z3.ForAll([k, s, p], z3.And(slen(Enc(k, s, p)) == slen(p), isb(Enc(k, s, p)) == isb(p)), patterns=[Enc(k, s, p)]))
    A.append(z3.ForAll([k, s, p], z3.And(slen(Dec(k, s, p)) == slen(p), isb(Dec(k, s, p)) == isb(p)), patterns=[Dec(k, s, p)]))
    A.append(z3.ForAll([k, s, p], Dec(k, s, Enc(k, s, p)) == p, patterns=[Enc(k, s, p)]))
    # the receiver's chaining state follows the sender's
    A.append(z3.ForAll([k, s, p], DecNext(k, s, Enc(k, s, p)) == EncNext(k, s, p), patterns=[Enc(k, s, p)]))
    A.append(z3.ForAll([k, n, p, a], isb(Seal(k, n, p, a)) == isb(p), patterns=[Seal(k, n, p, a)]))
    A.append(z3.ForAll([k, n, p, a], z3.And(OpenOk(k, n, Seal(k, n, p, a), a), Open(k, n, Seal(k, n, p, a), a) == p),
                       patterns=[Seal(k, n, p, a)]))
    A.append(z3.ForAll([k, n, p, a], isb(Open(k, n, p, a)) == isb(p), patterns=[Open(k, n, p, a)]))
    return A


smt.AXIOMS.extend(_cipher_axioms())
from .contract import EXT_PAIRS
EXT_PAIRS.extend([('Dec', 2, 'Enc'), ('DecNext', 2, 'Enc'), ('Dec', 1, 'Enc', 1), ('DecNext', 1, 'Enc', 1),
                  ('Open', 2, 'Seal'), ('OpenOk', 2, 'Seal'), ('Open', 1, 'Seal', 1), ('OpenOk', 1, 'Seal', 1),
                  ('Open', 3, 'Seal', 3), ('OpenOk', 3, 'Seal', 3)])


class CipherModel(object):
    """fields: key (opaque), state (Seq: chaining state), isBlockCipher, isAEAD (bool),
    block_size, tagLength, nonceLength (int), name (VStr)."""

    def getattr(self, ex, v, name, st):
        if name in ('encrypt', 'decrypt', 'seal', 'open'):
            return VPy(SpecFn(getattr(self, 'm_' + name)(v), name))
        return None

    def _crypt(self, v, F, Next, what):
        def f(ex, args, kw, st, fr, node):
            d = args[0]
            if not isinstance(d, VSeq):
                raise Unsupported('%s(%r)' % (what, d))
            key = st.heap[(v.oid, 'key')]
            state = st.heap[(v.oid, 'state')]
            isblock = st.heap[(v.oid, 'isBlockCipher')]
            bs = st.heap[(v.oid, 'block_size')]
            res = []
            bad_len = z3.And(truthy(isblock), slen(d.t) % bs.t != 0)
            ok, bad = ex.split(st, z3.Not(bad_len))
            if bad is not None:
                res.append(ex.raise_(bad, AssertionError, '%s of non-block-multiple line %d' % (what, getattr(node, 'lineno', 0))))
            if ok is not None:
                out = VSeq(F(to_val(key), state.t, d.t), 'byte', 'bytearray')
                ok.heap[(v.oid, 'state')] = VSeq(Next(to_val(key), state.t, d.t), 'byte')
                ok.assume(z3.And(slen(out.t) == slen(d.t), isb(out.t) == isb(d.t)))
                res.append(Outcome('normal', ok, out))
            return res
        return f

    def m_encrypt(self, v):
        return self._crypt(v, Enc, EncNext, 'encrypt')

    def m_decrypt(self, v):
        return self._crypt(v, Dec, DecNext, 'decrypt')

    def m_seal(self, v):
        def f(ex, args, kw, st, fr, node):
            nonce, data, aad = args
            key = st.heap[(v.oid, 'key')]
            tl = st.heap[(v.oid, 'tagLength')]
            out = VSeq(Seal(to_val(key), nonce.t, data.t, aad.t), 'byte', 'bytearray')
            st.assume(z3.And(slen(out.t) == slen(data.t) + tl.t, isb(out.t) == isb(data.t)))
            return [Outcome('normal', st, out)]
        return f

    def m_open(self, v):
        def f(ex, args, kw, st, fr, node):
            nonce, data, aad = args
            key = st.heap[(v.oid, 'key')]
            tl = st.heap[(v.oid, 'tagLength')]
            okc = OpenOk(to_val(key), nonce.t, data.t, aad.t)
            res = []
            t, fl = ex.split(st, okc)
            if fl is not None:
                res.append(Outcome('normal', fl, VNone()))
            if t is not None:
                out = VSeq(Open(to_val(key), nonce.t, data.t, aad.t), 'byte', 'bytearray')
                t.assume(z3.And(slen(out.t) == slen(data.t) - tl.t, isb(out.t) == isb(data.t), slen(data.t) >= tl.t))
                res.append(Outcome('normal', t, out))
            return res
        return f


REG.models['Cipher'] = CipherModel()


def make_cipher(name, st, kind, cname=None, block_size=None):
    """kind: 'block' | 'stream' | 'aead'"""
    o = st.alloc('Cipher')
    st.fresh_objs.discard(o.oid)
    st.heap[(o.oid, 'key')] = VOpaque(z3.Const(fresh_name(name + '.key'), Val))
    sv = VSeq(z3.Const(fresh_name(name + '.state'), Seq), 'byte')
    st.assume(isb(sv.t))
    st.heap[(o.oid, 'state')] = sv
    st.heap[(o.oid, 'isBlockCipher')] = VBool(z3.BoolVal(kind == 'block'))
    st.heap[(o.oid, 'isAEAD')] = VBool(z3.BoolVal(kind == 'aead'))
    bs = VInt(z3.Int(fresh_name(name + '.block_size'))) if block_size is None else VInt(block_size)
    st.heap[(o.oid, 'block_size')] = bs
    tl = VInt(z3.Int(fresh_name(name + '.tagLength')))
    nl = VInt(z3.Int(fresh_name(name + '.nonceLength')))
    st.heap[(o.oid, 'tagLength')] = tl
    st.heap[(o.oid, 'nonceLength')] = nl
    st.heap[(o.oid, 'name')] = VStr(cname or {'block': 'aes128', 'stream': 'rc4', 'aead': 'aes128gcm'}[kind])
    return o


def _make2(self, name, st, bv=None):
    if self.kind == 'cipher':
        return make_cipher(name, st, self.kw['ckind'], self.kw.get('cname'), self.kw.get('block_size'))
    return _make(self, name, st, bv)


T.make = _make2
T.cipher = staticmethod(lambda ckind, cname=None, block_size=None: T('cipher', ckind=ckind, cname=cname, block_size=block_size))


def consistency_witnesses():
    """Ground terms that exercise the cipher axioms with non-byte sequences."""
    k = z3.Const('w_k', Val)
    big = smt.s_single(z3.IntVal(300))
    sm = smt.s_single(z3.IntVal(3))
    ts = [Enc(k, sm, big), Dec(k, sm, Enc(k, sm, big)), Seal(k, sm, big, sm), Open(k, sm, Seal(k, sm, big, sm), sm),
          Enc(k, sm, sm), Dec(k, sm, sm), Open(k, sm, sm, sm), Hmac(k, big)]
    return [slen(t) >= 0 for t in ts] + [isb(t) == isb(t) for t in ts]


def _enum_to_str(ex, args, kw, st, fr, node):
    """TLSEnum.toStr / toRepr: human-readable name of a numeric id (used only to build
    messages); assumed to return a string and raise nothing."""
    return [Outcome('normal', st, VStr('<enum-name>'))]


for _q in ('tlslite/constants.py:TLSEnum.toStr', 'tlslite/constants.py:TLSEnum.toRepr',
           'tlslite/constants.py:ContentType.toRepr', 'tlslite/constants.py:AlertDescription.toStr',
           'tlslite/constants.py:HandshakeType.toStr'):
    REG.external[_q] = _enum_to_str
