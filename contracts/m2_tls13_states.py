"""C09/C16/C03: TLS 1.3 traffic keys (tlslite/recordlayer.py: calcTLS1_3PendingState, _calcTLS1_3KeyUpdate).
RFC 8446 7.3:   [sender]_write_key = HKDF-Expand-Label(Secret, "key", "", key_length)
                [sender]_write_iv  = HKDF-Expand-Label(Secret, "iv",  "", iv_length)       (iv_length = 12 for all suites)
RFC 8446 7.2:   application_traffic_secret_N+1 = HKDF-Expand-Label(application_traffic_secret_N, "traffic upd", "", Hash.length)
Key AND iv of a state come from the SAME secret; after a key update both come from the NEW secret, which is also the
secret handed back to the caller for the next update.  HKDF_expand_label itself is proved in contracts/kdf.py; the suite
tables (_getCipherSettings, sha384PrfSuites) in contracts/suites.py."""
import z3

from pyvc.m2 import M2Spec, m2task, fresh_opaque
from pyvc.executor import Outcome, lift_py
from pyvc.values import VBool, VInt, VOpaque, VNone, VTuple, VObj, VPy, VStr, truthy, to_val, eq_op, v_int, v_none
from pyvc import smt
from pyvc.contract import REG
from tlslite.constants import CipherSuite

RL = 'tlslite/recordlayer.py:RecordLayer.'
Val = smt.Val
EL = z3.Function('spec_HKDF_expand_label', Val, Val, Val, Val, Val, Val)
KEYLEN = z3.Function('spec_cipher_key_length', Val, Val)
IVLEN = z3.Function('spec_cipher_iv_length', Val, Val)
CFUNC = z3.Function('spec_cipher_constructor', Val, Val)
MKCIPHER = z3.Function('spec_cipher_object', Val, Val, Val, Val)       # constructor, key, implementations


def T(v):
    return v if z3.is_expr(v) else to_val(v)


def h_el(ex, recv, args, kwargs, st, fr, node):
    if len(args) != 5 or kwargs:
        return None
    return [Outcome('normal', st, VOpaque(EL(*[T(a) for a in args])))]


def h_settings(ex, recv, args, kwargs, st, fr, node):
    s = T(args[0])
    return [Outcome('normal', st, VTuple([VOpaque(KEYLEN(s)), VOpaque(IVLEN(s)), VOpaque(CFUNC(s))]))]


def h_cipher_func(ex, recv, args, kwargs, st, fr, node):
    f = st.env['cipher_func']
    return [Outcome('normal', st, VOpaque(MKCIPHER(T(f), T(args[0]), T(args[1]))))]


SPEC = M2Spec(hooks={'HKDF_expand_label': h_el, '_getCipherSettings': h_settings, 'cipher_func': h_cipher_func})


def B(x):
    return T(lift_py(x))


def _is(v, const):
    """value `v` equals the python constant (bytes / bytearray compare equal by content)"""
    return eq_op(v if not z3.is_expr(v) else VOpaque(v), lift_py(const)).t


def _prf_facts(api, st, suite, prf, prf_len=None):
    in384 = api.ex.contains(VPy(CipherSuite.sha384PrfSuites), suite, st).t
    api.oblige(st, 'hash-is-sha384-exactly-for-the-SHA384-suites-else-sha256',
               z3.And(z3.Implies(in384, T(prf) == T(VStr('sha384'))), z3.Implies(z3.Not(in384), T(prf) == T(VStr('sha256')))))
    if prf_len is not None:
        api.oblige(st, 'next-secret-length-is-Hash.length',
                   z3.And(z3.Implies(in384, T(prf_len) == T(VInt(48))), z3.Implies(z3.Not(in384), T(prf_len) == T(VInt(32)))))


def _state_ok(api, st, name, state, secret, suite, prf, impl):
    """`state` (a ConnectionState built in this call) has key and iv expanded from `secret`"""
    if isinstance(state, VObj):
        key = lambda f: (state.oid, f)
    elif isinstance(state, VOpaque) and 'new_ConnectionState' in str(state.t):
        key = lambda f: ('o', state.t.get_id(), f)
    else:
        api.oblige(st, name + ':is-a-fresh-ConnectionState', False)
        return
    nonce, enc, mac = st.heap.get(key('fixedNonce')), st.heap.get(key('encContext')), st.heap.get(key('macContext'))
    s = T(suite)
    api.oblige(st, name + ':iv=HKDF-Expand-Label(secret,"iv","",12)',
               nonce is not None and T(nonce) == EL(T(secret), B(b"iv"), B(b""), T(VInt(12)), T(prf)))
    api.oblige(st, name + ':cipher-keyed-with-HKDF-Expand-Label(secret,"key","",key_length(suite))-by-the-suites-constructor',
               enc is not None and T(enc) == MKCIPHER(CFUNC(s), EL(T(secret), B(b"key"), B(b""), KEYLEN(s), T(prf)), T(impl)))
    api.oblige(st, name + ':no-MAC-context(AEAD-only)', mac is not None and T(mac) == v_none)


def _check_update(api):
    ns = api.normal_exits()
    api.oblige(api.entry, 'has-normal-exit', len(ns) >= 1)
    e = api.entry.env
    for k, o in enumerate(ns, 1):
        st = o.st
        prf, plen = st.env.get('prf_name'), st.env.get('prf_length')
        rv = o.val
        if not (isinstance(rv, VTuple) and len(rv.items) == 2) or prf is None or plen is None:
            api.oblige(st, 'exit#%d:returns(next-secret,new-state)' % k, False)
            continue
        _prf_facts(api, st, e['cipherSuite'], prf, plen)
        new = EL(T(e['app_secret']), B(b"traffic upd"), B(b""), T(plen), T(prf))
        api.oblige(st, 'exit#%d:next-secret=HKDF-Expand-Label(current-secret,"traffic upd","",Hash.length)' % k,
                   T(rv.items[0]) == new)
        _state_ok(api, st, 'exit#%d:new-state' % k, rv.items[1], new, e['cipherSuite'], prf, VNone())
    for o in api.raise_exits():
        api.oblige(o.st, 'no-exception-of-its-own', False)


m2task('RecordLayer._calcTLS1_3KeyUpdate/rfc8446-7.2', ('C09', 'C16', 'C03'), RL + '_calcTLS1_3KeyUpdate', SPEC,
       check=_check_update, opts={'ground_feasible': True},
       doc='next application traffic secret, key and iv of the new state are the RFC 8446 7.2/7.3 expansions; key and iv '
           'both come from the NEW secret, which is the one returned')


def _check_pending(api):
    ns = api.normal_exits()
    api.oblige(api.entry, 'has-normal-exit', len(ns) >= 1)
    e = api.entry.env
    me = e['self']
    for k, o in enumerate(ns, 1):
        st = o.st
        prf = st.env.get('prf_name')
        if prf is None:
            api.oblige(st, 'exit#%d:hash-chosen' % k, False)
            continue
        _prf_facts(api, st, e['cipherSuite'], prf)
        w = st.heap.get((me.oid, '_pendingWriteState'))
        r = st.heap.get((me.oid, '_pendingReadState'))
        client = api.ex.getattr_(me, 'client', api.entry, None)[0].val if False else None
        cs, ss = st.env.get('clientPendingState'), st.env.get('serverPendingState')
        _state_ok(api, st, 'exit#%d:client-state' % k, cs, e['cl_traffic_secret'], e['cipherSuite'], prf, e['implementations'])
        _state_ok(api, st, 'exit#%d:server-state' % k, ss, e['sr_traffic_secret'], e['cipherSuite'], prf, e['implementations'])
        isclient = truthy(st.heap.get((me.oid, 'client'))) if (me.oid, 'client') in st.heap else None
        if isclient is None or w is None or r is None or cs is None or ss is None:
            api.oblige(st, 'exit#%d:pending-states-installed' % k, False)
            continue
        api.oblige(st, 'exit#%d:own-direction-is-the-pending-WRITE-state,peers-direction-the-pending-READ-state' % k,
                   z3.And(z3.Implies(isclient, z3.And(T(w) == T(cs), T(r) == T(ss))),
                          z3.Implies(z3.Not(isclient), z3.And(T(w) == T(ss), T(r) == T(cs)))))
    for o in api.raise_exits():
        api.oblige(o.st, 'no-exception-of-its-own', False)


def _setup_pending(ex, st, fr):
    c = fresh_opaque('self_client')
    st.heap[(st.env['self'].oid, 'client')] = c


m2task('RecordLayer.calcTLS1_3PendingState/rfc8446-7.3', ('C09', 'C03', 'C01'), RL + 'calcTLS1_3PendingState', SPEC,
       check=_check_pending, setup=_setup_pending, opts={'ground_feasible': True},
       doc='both pending states carry key and iv expanded (labels "key"/"iv", iv length 12) from the traffic secret of their '
           'own direction, keyed by the constructor of the negotiated suite; client role writes with the client secret')
