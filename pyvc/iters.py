"""Stateful iterator objects (iter(), enumerate(), next(), zip(it, it)) and
comprehensions over iterables of symbolic length.

An iterator over a sequence is a heap object of class 'SeqIter' with fields
  seq   the underlying sequence (VSeq)
  pos   number of elements already consumed (VInt, 0 <= pos)
  enum  VNone, or the VInt `start` of enumerate(seq, start): elements are (start + index, seq[index])
so that consumption survives forks and is visible to later statements
(`next(it); next(it); for x in it: ...` continues at index 2).

Every iterable that can drive a `for` loop / comprehension is presented to the
executor as an index range [lo, hi) with an element function (a "loop source"):
  lo, hi            VInt
  elem_at(ex,st,i)  value bound to the loop target at index i (z3 Int); advances iterator state
  done(ex, st)      iterator state after exhaustion
  static_items(ex, st)   list of elements when the length is a literal (advances the state), else None
  stateful          True when iteration consumes an iterator object
Inside loop invariants `ns.idx` is that index (for an iterator object: the
position in the underlying sequence; for zip(it, it): the pair number).

The module is imported for its side effects (registration in REG and in the
builtin table).
"""
import builtins

import z3

from . import smt
from . import values as _values
from .smt import slen, sat, isb
from .values import (VInt, VBool, VNone, VSeq, VTuple, VList, VObj, VPy, Unsupported, fresh_name, truthy)
from .contract import REG
from .builtins_model import model, _out, _raise
from .executor import Outcome, ZipObj, EnumObj, MAX_UNROLL

ITER = 'SeqIter'


def make_iter(st, seq, enum_start=None):
    o = st.alloc(ITER)
    st.heap[(o.oid, 'seq')] = seq
    st.heap[(o.oid, 'pos')] = VInt(0)
    st.heap[(o.oid, 'enum')] = VNone() if enum_start is None else enum_start
    return o


def _elem(seq, st, i):
    x = VInt(sat(seq.t, i))
    if seq.elem == 'byte':
        st.assume(z3.And(0 <= x.t, x.t <= 255))       # instance of the isb axiom
    return x


def _lit(t):
    c = z3.simplify(t)
    return c.as_long() if z3.is_int_value(c) else None


class _Source(object):
    stateful = False

    def done(self, ex, st):
        pass

    def static_items(self, ex, st):
        a, b = _lit(self.lo.t), _lit(self.hi.t)
        if a is None or b is None or b - a > MAX_UNROLL:
            return None
        items = [self.elem_at(ex, st, z3.IntVal(i)) for i in range(a, max(a, b))]
        self.done(ex, st)
        return items


class SeqSource(_Source):
    """plain sequence"""

    def __init__(self, seq):
        self.seq = seq
        self.lo, self.hi = VInt(0), VInt(slen(seq.t))

    def elem_at(self, ex, st, i):
        return _elem(self.seq, st, i)


class SliceSource(_Source):
    """a slice a[lo:hi] (bounds already normalised by the executor: 0 <= lo <= hi <= len(a)) iterated through
    the indices lo .. hi of the underlying sequence"""

    def __init__(self, base, lo, hi, elem_kind):
        self.seq = VSeq(base, elem_kind)
        self.lo, self.hi = VInt(lo), VInt(hi)

    def elem_at(self, ex, st, i):
        return _elem(self.seq, st, i)


def seq_source(v):
    t = v.t
    if z3.is_app(t) and t.decl().name() == 's_slice':
        return SliceSource(t.arg(0), t.arg(1), t.arg(2), v.elem)
    return SeqSource(v)


class EnumSource(_Source):
    """enumerate(seq) not yet turned into an iterator object (legacy EnumObj)"""

    def __init__(self, seq, start):
        self.seq, self.start = seq, start
        self.lo, self.hi = VInt(0), VInt(slen(seq.t))

    def elem_at(self, ex, st, i):
        return VTuple([VInt(i + self.start), _elem(self.seq, st, i)])


class IterSource(_Source):
    """iterator object: indices pos .. len(seq)"""
    stateful = True

    def __init__(self, it, st):
        self.it = it
        self.seq = st.heap[(it.oid, 'seq')]
        self.enum = st.heap[(it.oid, 'enum')]
        self.lo = st.heap[(it.oid, 'pos')]
        n = slen(self.seq.t)
        self.hi = VInt(z3.If(self.lo.t > n, self.lo.t, n))

    def elem_at(self, ex, st, i):
        st.heap[(self.it.oid, 'pos')] = VInt(z3.simplify(i + 1))
        x = _elem(self.seq, st, i)
        if isinstance(self.enum, VNone):
            return x
        return VTuple([VInt(z3.simplify(i + self.enum.t)), x])

    def done(self, ex, st):
        st.heap[(self.it.oid, 'pos')] = VInt(z3.simplify(self.hi.t))


class ZipSameSource(_Source):
    """zip(it, it, ...): m references to ONE iterator object -> consecutive m-tuples.
    Index = tuple number; a trailing incomplete tuple is consumed and dropped (as zip does)."""
    stateful = True

    def __init__(self, it, m, st):
        self.inner = IterSource(it, st)
        self.m = m
        self.pos0 = self.inner.lo
        self.lo = VInt(0)
        self.hi = VInt((self.inner.hi.t - self.pos0.t) / m)

    def elem_at(self, ex, st, i):
        base = self.pos0.t + self.m * i
        return VTuple([self.inner.elem_at(ex, st, z3.simplify(base + j)) for j in range(self.m)])

    def done(self, ex, st):
        self.inner.done(ex, st)


class ZipSource(_Source):
    """zip of stateless sources (sequences): index 0 .. min(len)"""

    def __init__(self, subs):
        self.subs = subs
        n = None
        for s in subs:
            ln = s.hi.t - s.lo.t
            n = ln if n is None else z3.If(ln < n, ln, n)
        self.lo, self.hi = VInt(0), VInt(z3.simplify(n))

    def elem_at(self, ex, st, i):
        return VTuple([s.elem_at(ex, st, z3.simplify(s.lo.t + i)) for s in self.subs])


def _is_iter(v):
    return isinstance(v, VObj) and v.cls == ITER


def provider(ex, v, st):
    if _is_iter(v):
        return IterSource(v, st)
    if isinstance(v, VPy) and isinstance(v.obj, ZipObj):
        parts = v.obj.parts
        if len(parts) >= 2 and all(_is_iter(p) for p in parts) and len(set(p.oid for p in parts)) == 1:
            return ZipSameSource(parts[0], len(parts), st)
        if parts and all(isinstance(p, VSeq) for p in parts):
            return ZipSource([SeqSource(p) for p in parts])
        return None
    if isinstance(v, VPy) and isinstance(v.obj, EnumObj) and isinstance(v.obj.inner, VSeq):
        return EnumSource(v.obj.inner, v.obj.start)
    return None


if not hasattr(REG, 'loop_sources'):
    REG.loop_sources = []
REG.loop_sources.append(provider)


class IterModel(object):
    def getattr(self, ex, v, name, st):
        return None

    def next(self, ex, it, st, fr, node):
        seq = st.heap[(it.oid, 'seq')]
        pos = st.heap[(it.oid, 'pos')]
        enum = st.heap[(it.oid, 'enum')]
        ok, bad = ex.split(st, pos.t < slen(seq.t))
        res = []
        if bad is not None:
            res.append(ex.raise_(bad, StopIteration, 'next() on exhausted iterator line %d' % getattr(node, 'lineno', 0)))
        if ok is not None:
            x = _elem(seq, ok, pos.t)
            ok.heap[(it.oid, 'pos')] = VInt(z3.simplify(pos.t + 1))
            val = x if isinstance(enum, VNone) else VTuple([VInt(z3.simplify(pos.t + enum.t)), x])
            res.append(Outcome('normal', ok, val))
        return res


REG.models[ITER] = IterModel()


@model(builtins.iter)
def m_iter(ex, args, kw, st, fr, node):
    v = args[0]
    if isinstance(v, VSeq):
        return _out(st, make_iter(st, v))
    return _out(st, v)          # iterators are their own iterator; other iterables: stateless view (legacy)


@model(builtins.enumerate)
def m_enumerate(ex, args, kw, st, fr, node):
    start = args[1] if len(args) > 1 else kw.get('start', VInt(0))
    v = args[0]
    if isinstance(v, VSeq):
        return _out(st, make_iter(st, v, ex._as_int(start)))
    c = ex._as_int(start).concrete()
    if c is None:
        raise Unsupported('enumerate with symbolic start over %r' % (v,))
    return _out(st, VPy(EnumObj(v, c)))


def _anyall(is_all):
    def f(ex, args, kw, st, fr, node):
        v = args[0]
        if isinstance(v, VSeq):
            k = z3.Int(fresh_name('any_k'))
            rng = z3.And(0 <= k, k < slen(v.t))
            if v.elem == 'byte':
                # ground instances of the isb axiom at the first and last index: they put the terms v[0], v[len-1]
                # into the solver's term set, so that the quantified result below can be instantiated there
                for ix in (z3.IntVal(0), slen(v.t) - 1):
                    st.assume(z3.Implies(z3.And(0 <= ix, ix < slen(v.t)), z3.And(0 <= sat(v.t, ix), sat(v.t, ix) <= 255)))
            if is_all:
                return _out(st, VBool(z3.ForAll([k], z3.Implies(rng, sat(v.t, k) != 0))))
            return _out(st, VBool(z3.Exists([k], z3.And(rng, sat(v.t, k) != 0))))
        items = ex.iter_items(v, st)
        if items is None:
            raise Unsupported('any/all of %r' % (v,))
        ts = [truthy(x) for x in items]
        return _out(st, VBool(z3.And(ts + [z3.BoolVal(True)]) if is_all else z3.Or(ts + [z3.BoolVal(False)])))
    return f


model(builtins.any)(_anyall(False))
model(builtins.all)(_anyall(True))


# ---------------------------------------------------------------------------
# comprehension / generator expression over an iterable of symbolic length

def comp_symbolic(ex, node, g, itv, st, fr):
    """[elt for target in itv] with len(itv) symbolic: a fresh sequence r with
         len(r) == hi - lo   and   forall j in [0, len): r[j] == elt[target := itv[lo + j]]
    Supported when the element expression evaluates without forking, raising,
    obligations or fresh unknowns (pure arithmetic / bit operations on the
    elements).  Returns a VSeq (list of ints; booleans as 0/1) or None."""
    if g.ifs:
        return None
    src = seq_source(itv) if isinstance(itv, VSeq) else (provider(ex, itv, st) or ex.loop_source(itv, st))
    if src is None:
        return None
    i = z3.Int(fresh_name('ci'))
    s = st.fork()
    s.assume(z3.And(src.lo.t <= i, i < src.hi.t))
    npc = len(s.pc)
    elem = src.elem_at(ex, s, i)
    outs = ex.assign(g.target, elem, s, fr)
    if len(outs) != 1 or outs[0].kind != 'normal':
        return None
    n_ob = len(ex.obligations)
    fresh0 = _values._FRESH[0]
    try:
        eo = ex.eval(node.elt, s, fr)
    except Unsupported:
        del ex.obligations[n_ob:]
        return None
    if len(eo) != 1 or eo[0].kind != 'normal' or len(ex.obligations) != n_ob or _values._FRESH[0] != fresh0:
        del ex.obligations[n_ob:]
        return None
    v = eo[0].val
    if isinstance(v, VBool):
        et = z3.If(v.t, 1, 0)
    elif isinstance(v, VInt) and not v.is_bv():
        et = v.t
    else:
        return None
    facts = list(eo[0].st.pc[npc:])
    r = z3.Const(fresh_name('comp'), smt.Seq)
    j = z3.Int(fresh_name('cj'))
    n = z3.If(src.hi.t > src.lo.t, src.hi.t - src.lo.t, 0)
    body = z3.And(facts + [sat(r, j) == et])
    body = z3.substitute(body, (i, src.lo.t + j))
    st.assume(slen(r) == z3.simplify(n))
    pats = [sat(r, j)]
    if isinstance(src, (SeqSource, SliceSource)) and z3.is_int_value(z3.simplify(src.lo.t)) \
            and z3.simplify(src.lo.t).as_long() == 0:
        try:                                                   # also instantiate from accesses to the source element j
            z3.ForAll([j], sat(src.seq.t, j) == 0, patterns=[sat(src.seq.t, j)])
            pats.append(sat(src.seq.t, j))
        except z3.Z3Exception:
            pass
    st.assume(z3.ForAll([j], z3.Implies(z3.And(0 <= j, j < slen(r)), body), patterns=pats))
    # isb(r) <=> every element is a byte (definition of isb; one direction is an axiom, the other by witness)
    w = z3.Int(fresh_name('cw'))
    st.assume(z3.Or(isb(r), z3.And(0 <= w, w < slen(r), z3.Not(z3.And(0 <= sat(r, w), sat(r, w) <= 255)))))
    # element-wise xor of two whole sequences of equal length is the sequence term s_xor(A, B)
    # (same elements, same length: equal in the intended model of extensional sequences)
    if z3.is_app(et) and et.decl().name() == 'bxor' and isinstance(src, ZipSource) and len(src.subs) == 2:
        a_, b_ = src.subs[0].seq, src.subs[1].seq
        if et.arg(0).eq(sat(a_.t, i)) and et.arg(1).eq(sat(b_.t, i)):
            st.assume(z3.Implies(slen(a_.t) == slen(b_.t), r == smt.s_xor(a_.t, b_.t)))
    src.done(ex, st)
    return VSeq(r, 'int', 'list')


REG.comp_symbolic = comp_symbolic
