#!/bin/bash
# Runs every claimed check (quick tier) on the current /repo tree, validates MANIFEST and evidence files.
cd /verif
python3 tools/mkmanifest.py >/dev/null
rc_all=0
for p in $(python3 -c "import json;print(' '.join(c['property_id'] for c in json.load(open('MANIFEST.json'))['checks']))"); do
  ./check $p --tier quick ${1:+--update-baseline} > /tmp/runall_$p.out 2>&1; rc=$?
  echo "$p exit=$rc $(tail -1 /tmp/runall_$p.out | cut -c1-200)"
  grep -E "^VIOLATION|^KNOWN-FINDING" /tmp/runall_$p.out | cut -c1-160
  [ $rc -ne 0 ] && rc_all=1
done
python3-vt - <<'PY'
import json,jsonschema,glob
jsonschema.validate(json.load(open('MANIFEST.json')),json.load(open('/root/.vp/MANIFEST.schema.json')))
m=json.load(open('MANIFEST.json'))
for c in m['checks']:
    e=json.load(open(c['evidence_file']))
    jsonschema.validate(e,json.load(open('/root/.vp/EVIDENCE.schema.json')))
    cov=e['coverage']
    assert cov['obligations']==cov['discharged'], (c['property_id'],cov['obligations'],cov['discharged'])
print('manifest + evidence valid; obligations == discharged everywhere')
PY
exit $rc_all
