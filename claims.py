"""Per-property claim texts used to generate MANIFEST.json (tools/mkmanifest.py)."""
TECH = 'contract-based deductive verification: VCs generated from the real function ASTs, discharged by z3/cvc5'
CLAIMS = {
 'C12': {
  'text': 'ct_check_cbc_mac_and_pad is proved equal to the plain specification of the property (correct MAC of the remaining data followed by a version-allowed padding) for every body length < 2^16, every pad byte, digest/block size, sequence number, content type and all four versions; the eight ct_* helpers are proved against their arithmetic meaning in bit-vector arithmetic; loops are cut by inductive invariants, nothing is bounded.',
  'design_ref': 'DESIGN.md section 3 C12',
  'note': 'HMAC is an uninterpreted function of (key, bytes fed); engine encoding of Python semantics (pyvc) is trusted and cross-checked against CPython on every run (bounded differential run reported under coverage.bounded, not counted as proved); SSLv3 "one block" read as pad_length <= block_size; caller strip and sender side: see evidence not_built.',
  'technique': TECH + '; loop invariants with quantifiers; bit-vector mode for ct_* helpers'},
 'C01': {
  'text': 'Per-path inverse lemmas over the real record-protection code: for MAC-then-encrypt (block and stream), encrypt-then-MAC and the three AEAD nonce/AAD constructions (AES-GCM TLS1.2, ChaCha20 TLS1.2, TLS1.3) the receiver function applied to the sender function\'s output returns exactly the payload, for every version, payload length, block/digest/tag size, with both sequence numbers and CBC chaining state staying in step; plus contracts for addPadding, calculateMAC, getSeqNumBytes and the TLS1.3 inner-plaintext de-padding. Partial: fragmentation, read-buffer FIFO, key-block mirror and record-size caps are listed under not_built in the evidence.',
  'design_ref': 'DESIGN.md section 3 C01',
  'note': 'cipher objects by assumed interface contract (Dec(Enc(x))=x, Open(Seal(x))=x), HMAC uninterpreted; no two live endpoints are executed; handshake-established key equality is C03/C04',
  'technique': TECH + '; round-trip scenarios over sender/receiver states'},
 'C02': {
  'text': 'Integrity-binding postconditions on every unprotect path of the real record layer: a record is returned only if the complete MAC (all digest bytes) over the receiver\'s own sequence number, type, version, length and body under the read key compared equal (MtE block via the C12 specification, MtE stream/null, EtM), padding is well formed, and the counter moves exactly once; every other path raises TLSBadRecordMAC/TLSDecryptionFailed before data is returned. Partial: AEAD open() internals are under C09; alert mapping and TLS1.3 header exceptions are not_built.',
  'design_ref': 'DESIGN.md section 3 C02',
  'note': 'the step from tag equality to "exactly what the peer sent next" is MAC/AEAD unforgeability (assumed); cipher/HMAC objects abstract',
  'technique': TECH + '; exceptional postconditions (raises-only-when)'},
 'C20': {
  'text': 'Every classification list of CipherSuite, the parameter tables of the record layer (_getCipherSettings, _getMacSettings, _getHMACMethod), the PRF choice (calc_key, _getPRFParams, TLS 1.3 key derivation) and the name accessors are proved equal to an independent parse of the IANA suite name, with the suite id symbolic over all ids of ietfNames (finite domain, complete); the version/MAC/cipher/key-exchange filters are proved sound, complete and order preserving with the settings lists as symbolic subsets.',
  'design_ref': 'DESIGN.md section 3 C20',
  'note': 'oracle = specs/iana.py (hand-written from the RFC naming rules); key-exchange class dispatch chains in the handshake are covered only through the list facts; known findings F17/F18 (dead DHE_DSS SHA256 suites, getSrpDsaSuites) are carved out and printed as KNOWN-FINDING',
  'technique': TECH + '; finite-domain symbolic suite id; table tasks'},
 'C03': {
  'text': 'Negotiation core only: the suite filters (_filterSuites, filterForVersion, filter_for_certificate, filter_for_prfs and every get*Suites wrapper) are proved to return exactly the suites whose IANA-name MAC, cipher and key exchange are enabled in the settings and whose versions fit, for every suite id and every subset of the settings lists (sound, complete, order). Partial: the client/server ServerHello/ClientHello acceptance guards, key-size checks and KDF argument symmetry are not_built.',
  'design_ref': 'DESIGN.md section 3 C03',
  'note': 'agreement of the two endpoints\' views (secrets, exporter, flags) needs two executions and is not shown; only that whatever is negotiated lies inside the settings as far as suite selection goes',
  'technique': TECH + '; finite-domain symbolic sets'},
 'C05': {
  'text': 'TLS 1.3 server authentication on the client (TLSConnection._clientTLS13Handshake, executed from real source in guard-dominance mode): on every path that records a server certificate chain in the session, the CertificateVerify check returned true, it was the verify routine of the key taken from that very chain (or of a delegated credential whose own verify succeeded), applied to the signature of the received CertificateVerify message and to calcVerifyBytes of the transcript snapshot, and the signature scheme had been offered by the client. Partial: <=1.2 ServerKeyExchange/CertificateVerify sites, TLS 1.3 client auth, PHA, SRP, PSK binder sites are not_built.',
  'design_ref': 'DESIGN.md section 3 C05',
  'note': 'M2 abstraction: objects and callees opaque, heap havoc by whole-repository store scan; that verify() returns false for wrong signatures is C10; Finished/PSK proof is C04',
  'technique': TECH + '; guard-dominance mode (state merging, opaque callees, ghost facts)'},
 'C18': {
  'text': 'SessionCache: sequential specification proved on the real __init__/__getitem__/__setitem__/_purge against an abstract map+clock view with a five-part representation invariant (indices in range, cells<->dict bijection, time-sorted segment), incl. absence of internal errors; lock discipline proved per access site on the real AST for SessionCache, BaseDB and Python_RSAKey._rawPrivateKeyOp (every shared-field access inside the critical section, lock released on all exits, encapsulation). Linearizability then follows in monitor form.',
  'design_ref': 'DESIGN.md section 3 C18',
  'note': 'threading.Lock assumed to be a mutex, time.time monotone integer clock, maxEntries >= 2; thread schedules are not executed; re-storing an existing id (F5) and maxEntries=0 (F5b) are known findings carved out; RSA blinding algebra not built',
  'technique': TECH + '; data-structure invariant with ghost map; AST lock-discipline task'},
 'C19': {
  'text': 'validate() frame: a flow- and context-sensitive points-to analysis over the real AST of validate() and the 23 helpers it reaches poses one obligation per attribute store and per in-place mutation site (the mutated object is a fresh copy, never an alias of a receiver field); the numeric/range rejection helpers are proved to raise ValueError exactly for out-of-domain values and nothing else. Partial: idempotence, string-list domains and "compatible settings connect" are covered only by the bounded differential run / not built.',
  'design_ref': 'DESIGN.md section 3 C19',
  'note': 'points-to analysis is a custom checker (pyvc/framecheck.py), not SMT; liveness part of the property not claimed',
  'technique': TECH + '; AST frame/alias analysis task for the receiver-immutability obligations'},
}
NOT_APPLICABLE = {
 'C07': 'interoperability with OpenSSL: no contract on /repo functions can speak about another implementation\'s behaviour; needs a second implementation executing (see DESIGN.md C07)',
}
