"""Contracts on tlslite/utils/codec.py (Writer, Parser) -- C15 framing primitives, C08 clean failure.

Statement of the contracts (from the property, RFC 8446 section 3 presentation language):
* Writer.addX(v) appends exactly the n-byte big-endian encoding of v; when v does not fit in
  n bytes it raises ValueError (it never truncates or wraps); nothing but self.bytes changes and
  the old content stays a prefix (also on the exceptional exits).
* Parser.getX reads exactly the bytes at the old index, advances the index by exactly the
  number of bytes the framing declares, keeps 0 <= index <= len(bytes), never moves backwards,
  and raises DecodeError -- and nothing else -- exactly when the input is too short / the
  length is not a multiple of the element size / the length check fails.
"""
import z3

import tlslite.utils.codec as codec
from tlslite.utils.codec import DecodeError

from pyvc.contract import contract, scenario, LoopSpec, REG
from pyvc.state import T
from pyvc import spec as S
from pyvc import smt
from pyvc.values import VInt, VBool, VSeq, VNone, VObj, same_value, _lift

C = 'tlslite/utils/codec.py:'
PROP = ('C15', 'C08')

WRITER = T.obj(codec.Writer, bytes=T.bytes())


def wbytes(ns):
    return ns.f(ns.self, 'bytes')


# ---------------------------------------------------------------------------
# frame condition: every heap location of a pre-existing object other than the
# listed ones holds syntactically the same value as at entry.

def only_modifies(ns, *allowed):
    """allowed: (object value, field).  Every other heap location of a pre-existing object must hold
    the identical term as at entry or a value equal to it."""
    if ns._assume:
        # at a call site the frame is enforced by the `modifies` list (only those fields are havocked)
        return VBool(z3.BoolVal(True))
    st, old = ns._st, ns._old
    ok = set()
    eqs = []
    for (o, f) in allowed:
        if isinstance(o, VObj):
            ok.add((o.oid, f))
    for key, val in st.heap.items():
        if key in ok or key[0] in st.fresh_objs:
            continue
        if key not in old.heap:
            if key[0] in old.fresh_objs:
                continue
            # a field materialised lazily by a read is unchanged by construction; a field
            # created by a store on a pre-existing object is a frame violation
            return VBool(z3.BoolVal(False))
        if not same_value(val, old.heap[key]):
            o = old.heap[key]
            if isinstance(val, VInt) and isinstance(o, VInt):
                eqs.append(val == o)
            elif isinstance(val, VBool) and isinstance(o, VBool):
                eqs.append(val == o)
            elif isinstance(val, VSeq) and isinstance(o, VSeq):
                eqs.append(S.seq_eq(val, o))
            else:
                return VBool(z3.BoolVal(False))
    return S.And(*eqs)


def appended(ns, enc):
    """self.bytes == old self.bytes ++ enc, only self.bytes changed"""
    new, old = wbytes(ns), wbytes(ns.old)
    return S.And(S.seq_eq(new, S.cat(old, enc)),
                 S.len_(new) == S.len_(old) + S.len_(enc),
                 S.is_bytes(new),
                 only_modifies(ns, (ns.self, 'bytes')))


def prefix_kept(ns):
    """old content of self.bytes is a prefix of the new content; only self.bytes changed"""
    new, old = wbytes(ns), wbytes(ns.old)
    return S.And(S.len_(new) >= S.len_(old),
                 S.forall(lambda k: new[k] == old[k], 0, S.len_(old)),
                 only_modifies(ns, (ns.self, 'bytes')))


def unchanged(ns):
    new, old = wbytes(ns), wbytes(ns.old)
    return S.And(S.seq_eq(new, old), only_modifies(ns, (ns.self, 'bytes')))


def fits(x, n):
    """0 <= x < 256**n for literal n"""
    return (x >= 0) & (x < (1 << (8 * n)))


# --- Writer.addOne / addTwo / addThree / addFour ----------------------------
for _name, _n in (('addOne', 1), ('addTwo', 2), ('addThree', 3), ('addFour', 4)):
    contract(C + 'Writer.' + _name,
             params={'self': WRITER, 'val': T.int()},
             result=T.none(), modifies=[('self', 'bytes')],
             ensures=(lambda n: lambda ns: S.And(fits(ns.val, n), appended(ns, S.be(ns.val, n))))(_n),
             raises={ValueError: ('iff', (lambda n: lambda ns: S.Not(fits(ns.val, n)))(_n))},
             exc_ensures=unchanged,
             prop=PROP,
             doc='appends exactly the %d-byte big-endian encoding of val; ValueError iff val is outside '
                 '[0, 256**%d); buffer unchanged on error' % (_n, _n))


# --- Writer.add --------------------------------------------------------------
def fits_n(x, n):
    return S.And(n >= 0, x >= 0, x < S.pow256(n))


contract(C + 'Writer.add',
         params={'self': WRITER, 'x': T.int(), 'length': T.int()},
         result=T.none(), modifies=[('self', 'bytes')],
         ensures=lambda ns: S.And(fits_n(ns.x, ns.length), appended(ns, S.be_n(ns.x, ns.length)),
                                  S.len_(wbytes(ns)) == S.len_(wbytes(ns.old)) + ns.length),
         raises={ValueError: ('iff', lambda ns: S.Not(fits_n(ns.x, ns.length)))},
         exc_ensures=unchanged,
         prop=PROP,
         doc='appends exactly the length-byte big-endian encoding of x (any length >= 0); ValueError iff '
             'x is outside [0, 256**length) or length < 0; buffer unchanged on error')

REG.note('C15', 'trusted', 'int.to_bytes(n, "big") / int.from_bytes(b, "big") / struct.pack(">BHI") are modelled as the '
         'mathematical big-endian encoding s_be / s_val (pyvc/smt.py _be_axioms: element-wise definition for n <= 8, '
         'decode(encode(x)) == x for 0 <= x < 256**n, encode(decode(b)) == b, value range); OverflowError / struct.error '
         'exactly when the value is out of range; ValueError for a negative length')


# ===========================================================================
# Parser
# ===========================================================================
PARSER = T.obj(codec.Parser, bytes=T.bytes(), index=T.int(), indexCheck=T.int(), lengthCheck=T.int())


def pf(ns, name):
    return ns.f(ns.self, name)


def p_inv(ns):
    """class invariant of Parser as established by __init__: 0 <= index <= len(bytes)"""
    return S.And(pf(ns, 'index') >= 0, pf(ns, 'index') <= S.len_(pf(ns, 'bytes')))


def p_same(ns):
    """parser state completely unchanged (exceptional exits leave the parser where it was)"""
    return S.And(pf(ns, 'index') == pf(ns.old, 'index'), only_modifies(ns))


def p_advanced(ns, n):
    """index advanced by exactly n, invariant kept, nothing but index modified"""
    return S.And(pf(ns, 'index') == pf(ns.old, 'index') + n,
                 pf(ns, 'index') >= pf(ns.old, 'index'),
                 p_inv(ns),
                 only_modifies(ns, (ns.self, 'index')))


def chunk(ns_old, off, n):
    """bytes[index+off : index+off+n] of the entry state"""
    b, i = pf(ns_old, 'bytes'), pf(ns_old, 'index')
    return VSeq(smt.s_slice(b.t, (i + off).t, (i + off + n).t), 'byte', 'bytearray')


def short(ns, n):
    """fewer than n bytes left"""
    return pf(ns, 'index') + n > S.len_(pf(ns, 'bytes'))


contract(C + 'Parser.__init__',
         variants={'any': {'self': T.obj(codec.Parser), 'bytes': T.bytes()}},     # never applied: callers inline it
         result=T.none(), modifies=[],
         ensures=lambda ns: S.And(pf(ns, 'index') == 0, pf(ns, 'indexCheck') == 0, pf(ns, 'lengthCheck') == 0,
                                  pf(ns, 'bytes') == ns.bytes, p_inv(ns)),
         raises={}, prop=PROP,
         doc='binds the buffer, index = 0: establishes the invariant 0 <= index <= len(bytes)')

contract(C + 'Parser.getFixBytes',
         params={'self': PARSER, 'lengthBytes': T.int()},
         requires=lambda ns: p_inv(ns) & (ns.lengthBytes >= 0),
         result=T.bytes(), modifies=[('self', 'index')],
         ensures=lambda ns: S.And(S.seq_eq(ns.result, chunk(ns.old, 0, ns.lengthBytes)),
                                  S.len_(ns.result) == ns.lengthBytes, S.is_bytes(ns.result),
                                  p_advanced(ns, ns.lengthBytes)),
         raises={DecodeError: ('iff', lambda ns: short(ns, ns.lengthBytes))},
         exc_ensures=p_same, prop=PROP,
         doc='returns exactly bytes[index:index+n] and advances by n; DecodeError iff fewer than n bytes remain')

contract(C + 'Parser.skip_bytes',
         params={'self': PARSER, 'length': T.int()},
         requires=lambda ns: p_inv(ns) & (ns.length >= 0),
         result=T.none(), modifies=[('self', 'index')],
         ensures=lambda ns: p_advanced(ns, ns.length),
         raises={DecodeError: ('iff', lambda ns: short(ns, ns.length))},
         exc_ensures=p_same, prop=PROP,
         doc='advances by exactly n; DecodeError iff fewer than n bytes remain')

contract(C + 'Parser.get',
         params={'self': PARSER, 'length': T.int()},
         requires=lambda ns: p_inv(ns) & (ns.length >= 0),
         result=T.int(), modifies=[('self', 'index')],
         ensures=lambda ns: S.And(ns.result == S.be_val(chunk(ns.old, 0, ns.length)),
                                  ns.result >= 0, ns.result < S.pow256(ns.length),
                                  p_advanced(ns, ns.length)),
         raises={DecodeError: ('iff', lambda ns: short(ns, ns.length))},
         exc_ensures=p_same, prop=PROP,
         doc='returns the big-endian value of bytes[index:index+n], 0 <= value < 256**n, advances by n; '
             'DecodeError iff fewer than n bytes remain')

contract(C + 'Parser.getRemainingLength',
         params={'self': PARSER}, requires=p_inv, result=T.int(),
         ensures=lambda ns: S.And(ns.result == S.len_(pf(ns, 'bytes')) - pf(ns, 'index'), ns.result >= 0, p_same(ns)),
         raises={}, prop=PROP, doc='number of unread bytes (>= 0), no state change')
