"""Loop source for `for t in <list of tuples>` over a symbolic-length tuple list (values.VTupSeq)."""
from .values import VInt, VTupSeq
from .contract import REG


class TupSeqSource(object):
    stateful = False

    def __init__(self, v):
        self.v = v
        self.lo = VInt(0)
        self.hi = v.len()

    def elem_at(self, ex, st, i):
        from .values import VTuple
        from .smt import sat
        return VTuple([VInt(sat(c, i)) for c in self.v.cols])     # 0 <= i < len: no negative-index normalisation

    def done(self, ex, st):
        pass

    def static_items(self, ex, st):
        return None


def provider(ex, v, st):
    if isinstance(v, VTupSeq):
        return TupSeqSource(v)
    return None


if not hasattr(REG, 'loop_sources'):
    REG.loop_sources = []
REG.loop_sources.append(provider)
