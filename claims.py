"""Per-property claim texts used to generate MANIFEST.json (tools/mkmanifest.py)."""
TECH = 'contract-based deductive verification: VCs generated from the real function ASTs, discharged by z3/cvc5'
CLAIMS = {
 'C12': {
  'text': 'ct_check_cbc_mac_and_pad is proved equal to the plain specification of the property (correct MAC of the remaining data followed by a version-allowed padding) for every body length < 2^16, every pad byte, digest/block size, sequence number, content type and all four versions; the eight ct_* helpers are proved against their arithmetic meaning in bit-vector arithmetic; loops are cut by inductive invariants, nothing is bounded.',
  'design_ref': 'DESIGN.md section 3 C12',
  'note': 'HMAC is an uninterpreted function of (key, bytes fed); engine encoding of Python semantics (pyvc) is trusted and cross-checked against CPython on every run (bounded differential run reported under coverage.bounded, not counted as proved); SSLv3 "one block" read as pad_length <= block_size; caller strip and sender side: see evidence not_built.',
  'technique': TECH + '; loop invariants with quantifiers; bit-vector mode for ct_* helpers'},
}
NOT_APPLICABLE = {
 'C07': 'interoperability with OpenSSL: no contract on /repo functions can speak about another implementation\'s behaviour; needs a second implementation executing (see DESIGN.md C07)',
}
