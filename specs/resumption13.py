"""Bounded stand-in for C13 on the TLS 1.3 server: a ticket older than settings.ticketLifetime must not resume
(two real endpoints over a socketpair; the server thread's clock is skewed)."""
import os
import socket
import threading
import time

import tlslite
import tlslite.tlsconnection as tc
from tlslite.api import TLSConnection, HandshakeSettings, X509CertChain, X509, parsePEMKey

ROOT = os.path.dirname(os.path.dirname(os.path.abspath(tlslite.__file__)))


def _creds():
    cert = X509CertChain([X509().parse(open(os.path.join(ROOT, 'tests', 'serverX509Cert.pem')).read())])
    key = parsePEMKey(open(os.path.join(ROOT, 'tests', 'serverX509Key.pem')).read(), private=True)
    return cert, key


def _run(cert, key, session, skew, lifetime):
    a, b = socket.socketpair()
    a.settimeout(20); b.settimeout(20)
    out = {}

    def server():
        s = TLSConnection(b)
        st = HandshakeSettings()
        st.ticketKeys = [bytearray(b'k' * 32)]
        st.ticketLifetime = lifetime
        st.minVersion = st.maxVersion = (3, 4)
        st.ticket_count = 1
        real = time.time
        me = threading.current_thread()
        tc.time.time = lambda: real() + (skew if threading.current_thread() is me else 0)
        try:
            s.handshakeServer(certChain=cert, privateKey=key, settings=st)
            s.write(b'x')
            s.close()
        except Exception as e:
            out['server_error'] = repr(e)
        finally:
            tc.time.time = real
    t = threading.Thread(target=server)
    t.start()
    c = TLSConnection(a)
    st = HandshakeSettings()
    st.minVersion = st.maxVersion = (3, 4)
    try:
        c.handshakeClientCert(session=session, settings=st)
        c.read(1, 1)
        out['client_resumed'] = c.resumed
        sess = c.session
        try:
            c.close()
        except Exception:
            pass
    except Exception as e:
        out['client_error'] = repr(e)
        sess = None
    t.join()
    return sess, out


def xcheck_expired_ticket(rng, n):
    cert, key = _creds()
    fails, ev = [], 0
    for lifetime, skew in ((60, 0), (60, 3600), (3600, 3000), (3600, 3700), (86400, 90000)):
        sess, o1 = _run(cert, key, None, 0, lifetime)
        ev += 1
        if sess is None or not sess.tickets:
            fails.append({'class': 'tls13-no-ticket-issued', 'what': 'full handshake gave no ticket: %r' % (o1,), 'input': {}})
            continue
        _, o2 = _run(cert, key, sess, skew, lifetime)
        ev += 1
        expect = skew <= lifetime
        if 'client_error' in o2 or 'server_error' in o2:
            fails.append({'class': 'tls13-ticket-broke-the-connection', 'what': repr(o2), 'input': {'lifetime': lifetime, 'skew': skew}})
        elif o2.get('client_resumed') and not expect:
            fails.append({'class': 'tls13-expired-ticket-resumed',
                          'what': 'ticketLifetime=%d s, server clock %d s after issue: the connection was resumed' % (lifetime, skew),
                          'input': {'lifetime': lifetime, 'skew': skew}})
        elif not o2.get('client_resumed') and expect:
            fails.append({'class': 'tls13-live-ticket-not-resumed', 'what': repr(o2), 'input': {'lifetime': lifetime, 'skew': skew}})
    return {'evaluations': ev, 'distinct_nontrivial': ev, 'bound': '5 (lifetime, clock skew) pairs, one ticket each', 'failures': fails[:5]}


XCHECKS = {'tls13_expired_ticket': xcheck_expired_ticket}
