"""C19/C03/C04: HandshakeSettings.validate() returns a COPY that carries every setting of the receiver.
Every handshake runs on the validated copy, so a field that is not copied (or copied from another field) silently replaces
the caller's policy by the default (C03 "inside what each side's own HandshakeSettings allow", C04 sendFallbackSCSV,
C19 "yields the same result when applied again").  AST obligations on the real code:
  * every statement `other.<f> = self.<g>` of validate() and the _copy_*_settings helpers has f == g;
  * every field initialised by __init__ / _init_key_settings / _init_misc_extensions is assigned to `other` from the same
    field of `self` in validate() or one of the helpers it calls (a later sanity-check helper may normalise it further);
  * validate() calls each _copy_*_settings helper exactly once, with `other`."""
import ast

from pyvc.asttask import AstTask
from pyvc import source
from pyvc.contract import REG

HS = 'tlslite/handshakesettings.py:HandshakeSettings.'


def _self_fields(fn):
    return set(n.attr for n in ast.walk(fn) if isinstance(n, ast.Attribute) and isinstance(n.ctx, ast.Store)
               and isinstance(n.value, ast.Name) and n.value.id == 'self')


class CopyCompleteness(AstTask):
    def run(self, reg, meta):
        cls_src = source.load(HS + 'validate')
        val = cls_src.node
        helpers = sorted(set(n.func.attr for n in ast.walk(val) if isinstance(n, ast.Call) and isinstance(n.func, ast.Attribute)
                             and isinstance(n.func.value, ast.Name) and n.func.value.id == 'self' and n.func.attr.startswith('_copy_')))
        self.holds('copy-helpers-found', 'ast', len(helpers) >= 3, reason='validate() calls %s' % helpers)
        for h in helpers:
            calls = [n for n in ast.walk(val) if isinstance(n, ast.Call) and isinstance(n.func, ast.Attribute) and n.func.attr == h]
            ok = len(calls) == 1 and len(calls[0].args) == 1 and isinstance(calls[0].args[0], ast.Name) and calls[0].args[0].id == 'other'
            self.holds('validate-calls-%s(other)-once' % h, 'ast', ok, where=calls[0].lineno if calls else None)
        fields = set()
        for f in ('__init__', '_init_key_settings', '_init_misc_extensions'):
            fields |= _self_fields(source.load(HS + f).node)
        self.holds('settings-fields-found', 'ast', len(fields) >= 40, reason='%d fields' % len(fields))
        copied = {}
        for fname in ['validate'] + helpers:
            fn = source.load(HS + fname).node
            for n in ast.walk(fn):
                if not isinstance(n, ast.Assign) or len(n.targets) != 1:
                    continue
                t, v = n.targets[0], n.value
                if not (isinstance(t, ast.Attribute) and isinstance(t.value, ast.Name) and t.value.id == 'other'):
                    continue
                if isinstance(v, ast.Attribute) and isinstance(v.value, ast.Name) and v.value.id == 'self':
                    self.holds('%s:L%d:other.%s-copied-from-self.%s' % (fname, n.lineno, t.attr, t.attr), 'ast', v.attr == t.attr,
                               reason='other.%s is assigned self.%s' % (t.attr, v.attr), where=n.lineno)
                    if v.attr == t.attr:
                        copied[t.attr] = fname
                else:
                    # other.f = <expression over self.f> (e.g. a filtered list): must mention self.f and no other field of self
                    used = set(x.attr for x in ast.walk(v) if isinstance(x, ast.Attribute) and isinstance(x.value, ast.Name) and x.value.id == 'self')
                    if used:
                        self.holds('%s:L%d:other.%s-derived-from-self.%s-only' % (fname, n.lineno, t.attr, t.attr), 'ast', used == {t.attr},
                                   reason='other.%s is computed from %s' % (t.attr, sorted(used)), where=n.lineno)
                        if used == {t.attr}:
                            copied.setdefault(t.attr, fname)
        for f in sorted(fields):
            self.holds('field-%s-is-copied-to-the-validated-settings' % f, 'ast', f in copied,
                       reason='no `other.%s = self.%s` in validate() or its _copy_ helpers: the validated copy keeps the default' % (f, f))


REG.add_task(CopyCompleteness('HandshakeSettings.validate/copy-completeness', ('C19', 'C03', 'C04'), HS + 'validate',
                              doc='the validated copy carries every setting of the receiver: each field initialised by the constructor is '
                                  'assigned to the copy from the same field of the receiver'))


# ---------------------------------------------------------------------------------------------------------------------
# HandshakeHashes.copy(): the snapshot of the transcript that CertificateVerify / Finished / binders are computed over
HH = 'tlslite/handshakehashes.py:HandshakeHashes.'


class HashesCopy(AstTask):
    def run(self, reg, meta):
        init = source.load(HH + '__init__').node
        cp = source.load(HH + 'copy').node
        upd = source.load(HH + 'update').node
        fields = _self_fields(init)
        self.holds('transcript-state-fields-found', 'ast', len(fields) >= 7, reason=str(sorted(fields)))
        news = [n for n in ast.walk(cp) if isinstance(n, ast.Assign) and isinstance(n.value, ast.Call)
                and isinstance(n.value.func, ast.Name) and n.value.func.id == 'HandshakeHashes']
        self.holds('copy-builds-a-new-object', 'ast', len(news) == 1)
        got = {}
        for n in ast.walk(cp):
            if isinstance(n, ast.Assign) and len(n.targets) == 1 and isinstance(n.targets[0], ast.Attribute) \
                    and isinstance(n.targets[0].value, ast.Name) and n.targets[0].value.id == 'other':
                f = n.targets[0].attr
                used = set(x.attr for x in ast.walk(n.value) if isinstance(x, ast.Attribute) and isinstance(x.value, ast.Name) and x.value.id == 'self')
                # a fresh value (hash.copy() / bytearray(...)), not the live object itself
                fresh = isinstance(n.value, ast.Call)
                self.holds('copy:L%d:other.%s-is-a-fresh-copy-of-self.%s' % (n.lineno, f, f), 'ast', used == {f} and fresh,
                           reason='other.%s = %s' % (f, ast.unparse(n.value)), where=n.lineno)
                if used == {f} and fresh:
                    got[f] = True
        for f in sorted(fields):
            self.holds('copy:field-%s-is-carried-over' % f, 'ast', f in got,
                       reason='copy() does not copy self.%s: the snapshot would lose that part of the transcript' % f)
        # update() feeds every field
        fed = set()
        for n in ast.walk(upd):
            if isinstance(n, ast.Attribute) and isinstance(n.value, ast.Name) and n.value.id == 'self':
                fed.add(n.attr)
        for f in sorted(fields):
            self.holds('update:field-%s-receives-the-data' % f, 'ast', f in fed)
        rets = [n for n in ast.walk(cp) if isinstance(n, ast.Return)]
        self.holds('copy-returns-the-new-object', 'ast', len(rets) == 1 and isinstance(rets[0].value, ast.Name) and rets[0].value.id == 'other')


REG.add_task(HashesCopy('HandshakeHashes.copy/completeness', ('C05', 'C04'), HH + 'copy',
                        doc='a transcript snapshot carries every hash state and the raw buffer (used for intrinsic-hash signatures), each '
                            'as a fresh copy; update() feeds each of them'))
