"""Models of Python builtins and of the few stdlib / compat helpers the verified
code calls.  Each model is exact for the stated Python semantics (including the
exceptions the real builtin raises) or raises Unsupported."""
import builtins
import struct

import z3

from . import smt
from .smt import slen, sat, isb
from .values import (V, VInt, VBool, VNone, VStr, VSeq, VTuple, VList, VDict, VObj, VPy, VOpaque, VExc,
                     Unsupported, truthy, int_binop, cmp_op, eq_op, seq_concat, seq_from_items, fresh_name,
                     ite, to_val)

_TABLE = {}


def model(*objs):
    def deco(f):
        for o in objs:
            _TABLE[id(o)] = (o, f)
        return f
    return deco


def lookup(obj):
    try:
        e = _TABLE.get(id(obj))
    except Exception:
        return None
    if e is not None and e[0] is obj:
        return e[1]
    # int.from_bytes is a fresh builtin-method object on every attribute access
    if getattr(obj, '__self__', None) is int and getattr(obj, '__name__', '') == 'from_bytes':
        return m_int_from_bytes
    return None


def _out(st, v):
    from .executor import Outcome
    return [Outcome('normal', st, v)]


def _raise(ex, st, cls, origin):
    return [ex.raise_(st, cls, origin)]


@model(builtins.len)
def m_len(ex, args, kw, st, fr, node):
    v = args[0]
    if hasattr(v, 'len_'):                         # finite-domain values (pyvc/finite.py)
        return _out(st, v.len_())
    if isinstance(v, VSeq):
        return _out(st, VInt(slen(v.t)))
    if isinstance(v, (VList, VTuple)):
        return _out(st, VInt(len(v.items)))
    if type(v).__name__ in ('VTupSeq', 'VAbsList'):
        return _out(st, v.len())
    if isinstance(v, VStr):
        return _out(st, VInt(len(v.s)))
    if isinstance(v, VDict):
        return _out(st, VInt(len(v.d)))
    if isinstance(v, VPy) and hasattr(v.obj, '__len__'):
        return _out(st, VInt(len(v.obj)))
    if isinstance(v, VOpaque):
        f = z3.Function('v_len', smt.Val, smt.I)
        st.assume(f(v.t) >= 0)
        return _out(st, VInt(f(v.t)))
    if isinstance(v, VNone):
        return _raise(ex, st, TypeError, 'len(None) line %d' % node.lineno)
    if isinstance(v, VObj):
        m = ex.reg.models.get(v.cls)
        if m is not None and hasattr(m, 'len'):
            return _out(st, m.len(ex, v, st))
    raise Unsupported('len of %r' % (v,))


@model(builtins.range)
def m_range(ex, args, kw, st, fr, node):
    from .executor import RangeObj
    a = [ex._as_int(x) for x in args]
    one = VInt(z3.BitVecVal(1, ex.bv) if ex.bv else 1)
    zero = VInt(z3.BitVecVal(0, ex.bv) if ex.bv else 0)
    if len(a) == 1:
        r = RangeObj(zero, a[0], one)
    elif len(a) == 2:
        r = RangeObj(a[0], a[1], one)
    else:
        r = RangeObj(a[0], a[1], a[2])
    return _out(st, VPy(r))


@model(builtins.zip)
def m_zip(ex, args, kw, st, fr, node):
    from .executor import ZipObj
    return _out(st, VPy(ZipObj(args)))


@model(builtins.enumerate)
def m_enumerate(ex, args, kw, st, fr, node):
    from .executor import EnumObj
    return _out(st, VPy(EnumObj(args[0], 0)))


@model(builtins.reversed)
def m_reversed(ex, args, kw, st, fr, node):
    items = ex.iter_items(args[0], st)
    if items is None:
        from .views import RevObj
        return _out(st, VPy(RevObj(args[0])))
    return _out(st, VList(list(reversed(items))))


def _minmax(is_max):
    def f(ex, args, kw, st, fr, node):
        if len(args) == 1:
            items = ex.iter_items(args[0], st)
            if items is None:
                raise Unsupported('min/max of symbolic iterable')
        else:
            items = args
        if not items:
            return _raise(ex, st, ValueError, 'min/max of empty')
        cur = items[0]
        for x in items[1:]:
            c = cmp_op('>' if is_max else '<', x, cur)
            cur = ite(c, x, cur)
        return _out(st, cur)
    return f


model(builtins.max)(_minmax(True))
model(builtins.min)(_minmax(False))


@model(builtins.abs)
def m_abs(ex, args, kw, st, fr, node):
    v = ex._as_int(args[0])
    return _out(st, VInt(z3.If(v.t < 0, -v.t, v.t)))


@model(builtins.bool)
def m_bool(ex, args, kw, st, fr, node):
    if not args:
        return _out(st, VBool(z3.BoolVal(False)))
    return _out(st, VBool(truthy(args[0])))


@model(builtins.int)
def m_int(ex, args, kw, st, fr, node):
    if not args:
        return _out(st, VInt(0))
    v = args[0]
    if isinstance(v, (VInt, VBool)) and len(args) == 1:
        return _out(st, ex._as_int(v))
    raise Unsupported('int(%r)' % (v,))


@model(builtins.isinstance)
def m_isinstance(ex, args, kw, st, fr, node):
    v, c = args
    classes = [x.obj for x in c.items] if isinstance(c, VTuple) else [c.obj]

    def pyclass(v):
        if isinstance(v, VBool):
            return bool
        if isinstance(v, VInt):
            return int
        if isinstance(v, VNone):
            return type(None)
        if isinstance(v, VStr):
            return str
        if isinstance(v, VSeq):
            return {'bytearray': bytearray, 'bytes': bytes, 'list': list}[v.pytype]
        if isinstance(v, VTuple):
            return tuple
        if isinstance(v, VList):
            return list
        if isinstance(v, VDict):
            return dict
        if isinstance(v, VObj) and isinstance(v.cls, type):
            return v.cls
        if isinstance(v, VExc) and isinstance(v.cls, type):
            return v.cls
        return None
    pc = pyclass(v)
    if pc is None:
        if isinstance(v, VOpaque):
            f = z3.Function('v_isinstance', smt.Val, smt.I, smt.B)
            from .values import str_id
            return _out(st, VBool(f(v.t, z3.IntVal(str_id(repr(classes))))))
        raise Unsupported('isinstance of %r' % (v,))
    return _out(st, VBool(z3.BoolVal(issubclass(pc, tuple(classes)))))


@model(builtins.bytearray, builtins.bytes)
def m_bytearray(ex, args, kw, st, fr, node):
    pytype = 'bytearray'
    line = getattr(node, 'lineno', 0)
    if not args:
        return _out(st, VSeq(smt.s_empty, 'byte', pytype))
    v = args[0]
    if isinstance(v, VSeq):
        if v.elem == 'byte':
            return _out(st, VSeq(v.t, 'byte', pytype))
        ok, bad = ex.split(st, isb(v.t))
        res = []
        if bad is not None:
            res += _raise(ex, bad, ValueError, 'byte must be in range(0, 256) line %d' % line)
        if ok is not None:
            res += _out(ok, VSeq(v.t, 'byte', pytype))
        return res
    if isinstance(v, (VInt, VBool)):
        n = ex._as_int(v)
        ok, bad = ex.split(st, n.t >= 0)
        res = []
        if bad is not None:
            res += _raise(ex, bad, ValueError, 'negative count line %d' % line)
        if ok is not None:
            res += _out(ok, VSeq(smt.s_rep(z3.IntVal(0), n.t), 'byte', pytype))
        return res
    if isinstance(v, (VList, VTuple)):
        items = [ex._as_int(x) for x in v.items]
        rng = z3.And([z3.And(0 <= x.t, x.t <= 255) for x in items] + [z3.BoolVal(True)])
        ok, bad = ex.split(st, rng)
        res = []
        if bad is not None:
            res += _raise(ex, bad, ValueError, 'byte must be in range(0, 256) line %d' % line)
        if ok is not None:
            res += _out(ok, seq_from_items(items, 'byte', pytype))
        return res
    if isinstance(v, VStr):
        return _out(st, seq_from_items([VInt(b) for b in v.s.encode('latin-1')], 'byte', pytype))
    raise Unsupported('bytearray(%r)' % (v,))


@model(builtins.list, builtins.tuple)
def m_list(ex, args, kw, st, fr, node):
    if not args:
        return _out(st, VList([]))
    v = args[0]
    items = ex.iter_items(v, st)
    if items is not None:
        return _out(st, VList(items))
    if isinstance(v, VSeq):
        return _out(st, VSeq(v.t, 'int', 'list'))
    raise Unsupported('list(%r)' % (v,))


@model(builtins.divmod)
def m_divmod(ex, args, kw, st, fr, node):
    import ast
    res = []
    for o in ex.binop(ast.FloorDiv(), args[0], args[1], st, node):
        if o.kind != 'normal':
            res.append(o)
            continue
        for o2 in ex.binop(ast.Mod(), args[0], args[1], o.st, node):
            if o2.kind == 'normal':
                res += _out(o2.st, VTuple([o.val, o2.val]))
    return res


@model(builtins.sum)
def m_sum(ex, args, kw, st, fr, node):
    items = ex.iter_items(args[0], st)
    if items is None:
        raise Unsupported('sum of symbolic')
    acc = VInt(0)
    for x in items:
        acc = int_binop('+', acc, ex._as_int(x))
    return _out(st, acc)


@model(builtins.hasattr)
def m_hasattr(ex, args, kw, st, fr, node):
    o, n = args
    if isinstance(o, VPy) and isinstance(n, VStr):
        return _out(st, VBool(z3.BoolVal(hasattr(o.obj, n.s))))
    if isinstance(o, VObj) and isinstance(n, VStr):
        import inspect
        if (o.oid, n.s) in st.heap:
            return _out(st, VBool(z3.BoolVal(True)))
        if inspect.isclass(o.cls) and any(n.s in k.__dict__ for k in o.cls.__mro__):
            return _out(st, VBool(z3.BoolVal(True)))
        if ex.reg.field_type(o.cls, n.s) is not None:
            return _out(st, VBool(z3.BoolVal(True)))
        if o.oid in st.fresh_objs:
            return _out(st, VBool(z3.BoolVal(False)))
        raise Unsupported('hasattr(%r, %s): attribute presence unknown for a parameter object' % (o, n.s))
    raise Unsupported('hasattr')


@model(builtins.getattr)
def m_getattr(ex, args, kw, st, fr, node):
    if isinstance(args[1], VStr):
        outs = ex.getattr_(args[0], args[1].s, st, fr, node)
        if len(args) == 3:
            res = []
            for o in outs:
                if o.kind == 'raise' and o.val.cls is AttributeError:
                    res += _out(o.st, args[2])
                else:
                    res.append(o)
            return res
        return outs
    raise Unsupported('getattr with computed name')


@model(builtins.pow)
def m_pow(ex, args, kw, st, fr, node):
    if len(args) == 3:
        b, e, m = [ex._as_int(x) for x in args]
        f = z3.Function('modexp', smt.I, smt.I, smt.I, smt.I)
        r = f(b.t, e.t, m.t)
        st.assume(z3.Implies(m.t > 0, z3.And(0 <= r, r < m.t)))
        return _out(st, VInt(r))
    raise Unsupported('pow/2')


@model(builtins.next)
def m_next(ex, args, kw, st, fr, node):
    it = args[0]
    if isinstance(it, VObj):
        m = ex.reg.models.get(it.cls)
        if m is not None and hasattr(m, 'next'):
            return m.next(ex, it, st, fr, node)
    raise Unsupported('next(%r)' % (it,))


@model(builtins.iter)
def m_iter(ex, args, kw, st, fr, node):
    return _out(st, args[0])


@model(builtins.print)
def m_print(ex, args, kw, st, fr, node):
    return _out(st, VNone())


@model(builtins.str, builtins.repr)
def m_str(ex, args, kw, st, fr, node):
    return _out(st, VStr('<str>'))


# ---------------------------------------------------------------- methods on
# builtin values (bytearray / list / dict / str / int)

def call_method(ex, recv, name, args, kw, st, fr, node):
    line = getattr(node, 'lineno', 0)
    if isinstance(recv, VInt):
        if name == 'to_bytes':
            return int_to_bytes(ex, recv, args, kw, st, line)
        if name == 'bit_length':
            f = z3.Function('bit_length', smt.I, smt.I)
            r = f(recv.t)
            st.assume(r >= 0)
            return _out(st, VInt(r))
    if isinstance(recv, VSeq):
        if name == 'copy':
            return _out(st, recv)
        if name in ('hex', 'decode'):
            return _out(st, VStr('<str>'))
        if name == 'count' and len(args) == 1:
            f = z3.Function('s_count', smt.Seq, smt.I, smt.I)
            r = f(recv.t, ex._as_int(args[0]).t)
            st.assume(z3.And(0 <= r, r <= slen(recv.t)))
            return _out(st, VInt(r))
        if name == 'startswith' and isinstance(args[0], VSeq):
            p = args[0]
            k = z3.Int(fresh_name('sw'))
            return _out(st, VBool(z3.And(slen(p.t) <= slen(recv.t),
                                         z3.ForAll([k], z3.Implies(z3.And(0 <= k, k < slen(p.t)),
                                                                   sat(recv.t, k) == sat(p.t, k))))))
    if isinstance(recv, VStr):
        if name in ('lower', 'upper', 'strip') and not args and not kw:
            return _out(st, VStr(getattr(recv.s, name)()))      # VStr is always a concrete string: exact
        if name in ('format', 'join', 'lower', 'upper', 'strip'):
            return _out(st, VStr('<str>'))
        if name == 'encode':
            return _out(st, seq_from_items([VInt(b) for b in recv.s.encode('utf-8')], 'byte', 'bytes'))
    if isinstance(recv, VList):
        if name == 'index':
            res = []
            rest = st
            for i, it in enumerate(recv.items):
                if rest is None:
                    break
                t, rest = ex.split(rest, eq_op(args[0], it).t)
                if t is not None:
                    res += _out(t, VInt(i))
            if rest is not None:
                res += _raise(ex, rest, ValueError, 'list.index line %d' % line)
            return res
        if name == 'copy':
            return _out(st, VList(recv.items))
    if isinstance(recv, VDict):
        if name == 'get':
            k = args[0]
            dflt = args[1] if len(args) > 1 else VNone()
            from .executor import lift_py
            key = k.s if isinstance(k, VStr) else (k.concrete() if isinstance(k, VInt) else None)
            if key is not None:
                return _out(st, lift_py(recv.d[key]) if key in recv.d else dflt)
        if name in ('keys', 'values', 'items'):
            from .executor import lift_py
            return _out(st, VList([lift_py(x) for x in getattr(recv.d, name)()]))
    raise Unsupported('method %s on %r (line %d)' % (name, recv, line))


def mutating_method(ex, recv_node, recv, name, args, kw, st, fr, node):
    """Methods that mutate a bytearray/list in place: the executor rebinds the
    receiver expression (aliasing between distinct names is not modelled)."""
    line = getattr(node, 'lineno', 0)
    if hasattr(recv, 'mutate_'):                   # finite-domain values (pyvc/finite.py)
        return recv.mutate_(ex, name, args, st, line)
    if isinstance(recv, VSeq):
        if name == 'append':
            v = ex._as_int(args[0])
            res = []
            if recv.elem == 'byte':
                ok, bad = ex.split(st, z3.And(0 <= v.t, v.t <= 255))
                if bad is not None:
                    res += _raise(ex, bad, ValueError, 'byte must be in range(0, 256) line %d' % line)
                if ok is None:
                    return res, None
                st = ok
            new = VSeq(smt.s_concat(recv.t, smt.s_single(v.t)), recv.elem, recv.pytype)
            return res, (st, new, VNone())
        if name == 'extend':
            v = args[0]
            res = []
            if isinstance(v, (VList, VTuple)):
                v = ex._list_to_seq(v, st)
            if not isinstance(v, VSeq):
                raise Unsupported('extend(%r)' % (v,))
            if recv.elem == 'byte' and v.elem != 'byte':
                ok, bad = ex.split(st, isb(v.t))
                if bad is not None:
                    bad.assume(smt.nonbyte_witness(v.t))
                    res += _raise(ex, bad, ValueError, 'byte must be in range(0, 256) line %d' % line)
                if ok is None:
                    return res, None
                st = ok
            new = VSeq(smt.s_concat(recv.t, v.t), recv.elem, recv.pytype)
            return res, (st, new, VNone())
        if name == 'pop' and not args:
            n = slen(recv.t)
            res = []
            ok, bad = ex.split(st, n > 0)
            if bad is not None:
                res += _raise(ex, bad, IndexError, 'pop from empty line %d' % line)
            if ok is None:
                return res, None
            val = VInt(sat(recv.t, n - 1))
            new = VSeq(smt.s_slice(recv.t, z3.IntVal(0), n - 1), recv.elem, recv.pytype)
            return res, (ok, new, val)
    if isinstance(recv, VList):
        if name == 'append':
            return [], (st, VList(recv.items + [args[0]]), VNone())
        if name == 'extend':
            items = ex.iter_items(args[0], st)
            if items is None:
                raise Unsupported('list.extend(symbolic)')
            return [], (st, VList(recv.items + items), VNone())
        if name == 'pop':
            if not recv.items:
                return _raise(ex, st, IndexError, 'pop from empty list line %d' % line), None
            if not args:
                return [], (st, VList(recv.items[:-1]), recv.items[-1])
            c = ex._as_int(args[0]).concrete()
            if c is not None and -len(recv.items) <= c < len(recv.items):
                items = list(recv.items)
                v = items.pop(c)
                return [], (st, VList(items), v)
        if name == 'insert':
            c = ex._as_int(args[0]).concrete()
            if c is not None:
                items = list(recv.items)
                items.insert(c, args[1])
                return [], (st, VList(items), VNone())
        if name == 'remove':
            raise Unsupported('list.remove')
    return None, None


MUTATORS = {'append', 'extend', 'pop', 'insert', 'remove', 'clear', 'reverse', 'sort'}


def int_to_bytes(ex, x, args, kw, st, line):
    """int.to_bytes(length, 'big'): OverflowError iff x < 0 or x >= 256**length."""
    length = ex._as_int(args[0] if args else kw['length'])
    order = args[1] if len(args) > 1 else kw.get('byteorder', VStr('big'))
    if not isinstance(order, VStr) or order.s not in ('big', 'little'):
        raise Unsupported('to_bytes byteorder')
    n = length.concrete()
    if n is None or n < 0:
        # symbolic length: result is the axiomatised big-endian encoding s_be(x, length)
        # CPython: ValueError('length argument must be non-negative') is checked first, then OverflowError
        if order.s != 'big':
            raise Unsupported('to_bytes little-endian with symbolic length')
        res = []
        ok, bad = ex.split(st, length.t >= 0)
        if bad is not None:
            res += _raise(ex, bad, ValueError, 'to_bytes negative length line %d' % line)
        if ok is not None:
            ok2, bad2 = ex.split(ok, z3.And(x.t >= 0, x.t < smt.pow256(length.t)))
            if bad2 is not None:
                res += _raise(ex, bad2, OverflowError, 'to_bytes line %d' % line)
            if ok2 is not None:
                r = VSeq(smt.s_be(x.t, length.t), 'byte', 'bytes')
                ok2.assume(z3.And(slen(r.t) == length.t, isb(r.t)))
                res += _out(ok2, r)
        return res
    res = []
    ok, bad = ex.split(st, z3.And(x.t >= 0, x.t < (1 << (8 * n))))
    if bad is not None:
        res += _raise(ex, bad, OverflowError, 'to_bytes line %d' % line)
    if ok is not None:
        bs = [VInt((x.t / (1 << (8 * (n - 1 - i)))) % 256) for i in range(n)]
        if order.s == 'little':
            bs.reverse()
        res += _out(ok, seq_from_items(bs, 'byte', 'bytes'))
    return res


def m_int_from_bytes(ex, args, kw, st, fr, node):
    """int.from_bytes(b, 'big') for a bytes-like b: the big-endian value s_val(b)
    (element-wise definition for len(b) <= smt.BE_EXPLICIT by axiom)."""
    v = args[0] if args else kw['bytes']
    order = args[1] if len(args) > 1 else kw.get('byteorder', VStr('big'))
    if not isinstance(order, VStr) or order.s != 'big' or kw.get('signed') is not None:
        raise Unsupported('int.from_bytes byteorder/signed')
    if isinstance(v, (VList, VTuple)):
        v = ex._list_to_seq(v, st)
    if not isinstance(v, VSeq):
        raise Unsupported('int.from_bytes(%r)' % (v,))
    if v.elem != 'byte':
        raise Unsupported('int.from_bytes of a list of ints')
    r = VInt(smt.s_val(v.t))
    n = z3.simplify(slen(v.t))
    if z3.is_int_value(n) and n.as_long() <= smt.BE_EXPLICIT:
        k = n.as_long()
        tot = z3.IntVal(0)
        for i in range(k):
            tot = tot + sat(v.t, i) * z3.IntVal(256 ** (k - 1 - i))
        st.assume(r.t == tot)                       # instance of the s_val definition axiom
    st.assume(z3.Implies(isb(v.t), z3.And(r.t >= 0, r.t < smt.pow256(slen(v.t)))))
    return _out(st, r)


def _pack_rep(ex, fmt, rest, st, node):
    """struct.pack('>' + 'H' * n, *seq) with n == len(seq) (symbolic): 2*n bytes, the k-th pair being the
    big-endian encoding of seq[k]; struct.error iff some element is outside [0, 65536)."""
    if fmt.prefix != '>' or fmt.unit != 'H' or len(rest) != 1 or type(rest[0]).__name__ != 'VStar':
        raise Unsupported('struct.pack with a symbolic format')
    q = rest[0].v
    if not z3.is_true(z3.simplify(fmt.count.t == slen(q.t))):
        raise Unsupported('struct.pack: format count is not syntactically len(seq)')
    k = z3.Int(fresh_name('pk'))
    inrange = z3.ForAll([k], z3.Implies(z3.And(0 <= k, k < slen(q.t)), z3.And(0 <= sat(q.t, k), sat(q.t, k) < 65536)),
                        patterns=[sat(q.t, k)])
    res = []
    ok, bad = ex.split(st, inrange)
    if bad is not None:
        res += _raise(ex, bad, struct.error, 'struct.pack line %d' % node.lineno)
    if ok is not None:
        r = z3.Const(fresh_name('packed'), smt.Seq)
        j = z3.Int(fresh_name('pj'))
        ok.assume(z3.And(slen(r) == 2 * slen(q.t), isb(r)))
        ok.assume(z3.ForAll([j], z3.Implies(z3.And(0 <= j, j < slen(q.t)),
                                            z3.And(sat(r, 2 * j) == sat(q.t, j) / 256,
                                                   sat(r, 2 * j + 1) == sat(q.t, j) % 256)),
                            patterns=[sat(q.t, j)]))
        res += _out(ok, VSeq(r, 'byte', 'bytes'))
    return res


@model(struct.pack)
def m_pack(ex, args, kw, st, fr, node):
    fmt = args[0]
    if type(fmt).__name__ == 'VStrRep':
        return _pack_rep(ex, fmt, args[1:], st, node)
    if not isinstance(fmt, VStr) or not (fmt.s.startswith('>') or fmt.s.startswith('<')):
        raise Unsupported('struct.pack format')
    little = fmt.s.startswith('<')
    sizes = {'B': 1, 'H': 2, 'I': 4, 'L': 4, 'Q': 8}       # standard sizes (explicit byte order prefix)
    vals = [ex._as_int(a) for a in args[1:]]
    codes = list(fmt.s[1:])
    if len(codes) != len(vals) or any(c not in sizes for c in codes):
        raise Unsupported('struct.pack format %s' % fmt.s)
    rng = z3.And([z3.And(0 <= v.t, v.t < (1 << (8 * sizes[c]))) for c, v in zip(codes, vals)])
    res = []
    ok, bad = ex.split(st, rng)
    if bad is not None:
        res += _raise(ex, bad, struct.error, 'struct.pack line %d' % node.lineno)
    if ok is not None:
        bs = []
        for c, v in zip(codes, vals):
            n = sizes[c]
            one = [VInt((v.t / (1 << (8 * (n - 1 - i)))) % 256) for i in range(n)]
            if little:
                one.reverse()
            bs += one
        res += _out(ok, seq_from_items(bs, 'byte', 'bytes'))
    return res


import hmac as _hmac


@model(_hmac.compare_digest)
def m_compare_digest(ex, args, kw, st, fr, node):
    """hmac.compare_digest(a, b) on bytes-like values: True iff equal content (timing is not modelled)."""
    a, b = args
    if isinstance(a, VSeq) and isinstance(b, VSeq):
        st.assume(smt.ext_witness_eq(a.t, b.t))
        return _out(st, VBool(a.t == b.t))
    raise Unsupported('compare_digest(%r, %r)' % (a, b))


# ---------------------------------------------------------------- super(Class, self)
class SuperProxy(object):
    """super(cls, obj): attribute lookup continues after `cls` in type(obj).__mro__
    (only methods are resolved this way; data attributes live on the heap object)."""

    def __init__(self, cls, obj):
        self._cls = cls
        self._obj = obj

    def __getattr__(self, name):
        from .executor import BoundMethod
        import types
        ocls = self._obj.cls
        mro = list(ocls.__mro__)
        for k in mro[mro.index(self._cls) + 1:]:
            if name in k.__dict__:
                raw = k.__dict__[name]
                if isinstance(raw, types.FunctionType):
                    return BoundMethod(self._obj, raw, k)
                raise AttributeError(name)
        raise AttributeError(name)

    def __getattribute__(self, name):
        # names that SuperProxy itself defines as an object (`__init__`, `__eq__`, ...) must be resolved along the
        # MRO of the proxied object too: super(K, self).__init__(...)
        if name in ('_cls', '_obj', '__class__', '__dict__', '__getattr__'):
            return object.__getattribute__(self, name)
        return object.__getattribute__(self, '__getattr__')(name)


@model(builtins.super)
def m_super(ex, args, kw, st, fr, node):
    if len(args) == 2 and isinstance(args[0], VPy) and isinstance(args[1], VObj) \
            and isinstance(args[1].cls, type) and args[0].obj in args[1].cls.__mro__:
        return _out(st, VPy(SuperProxy(args[0].obj, args[1])))
    raise Unsupported('super() form')


import os as _os


@model(_os.urandom)
def m_urandom(ex, args, kw, st, fr, node):
    """os.urandom(n): n arbitrary bytes (fresh, unconstrained); ValueError for negative n."""
    n = ex._as_int(args[0])
    res = []
    ok, bad = ex.split(st, n.t >= 0)
    if bad is not None:
        res += _raise(ex, bad, ValueError, 'negative argument line %d' % getattr(node, 'lineno', 0))
    if ok is not None:
        r = VSeq(z3.Const(fresh_name('urandom'), smt.Seq), 'byte', 'bytes')
        ok.assume(z3.And(slen(r.t) == n.t, isb(r.t)))
        res += _out(ok, r)
    return res
