"""M1 contract on TLSRecordLayer._sendMsg (C01: fragmentation, 1/n-1 split; C16 uses it for control messages).

The function is a generator that hands `Message` objects to `_sendMsgThroughSocket`.  That callee is replaced
by a ghost recorder: every call appends the fragment's bytes to the ghost field `g_out` of `self`, counts it in
`g_n`, and poses the per-fragment obligations at the call site:

  O-frag-limit   len(fragment) <= recordSize == min(_user_record_limit, send_record_limit)   (RFC 5246 6.2.1,
                 RFC 8449 4: never more plaintext than the limit in force)
  O-frag-type    fragment.contentType == msg.contentType at entry
  O-frag-concat  (ensures) concatenation of all fragments, in call order, == msg.write() at entry; in particular
                 with the 1/n-1 split the first fragment is byte 0 and the rest follows without repeating it
  O-frag-split   (ensures) when the BEAST countermeasure applies (randomizeFirstBlock, version <= TLS 1.0, CBC,
                 application data, non-empty payload) the first fragment has length exactly 1
  O-frag-term    variant len(buf) of the fragmentation loop, under requires recordSize >= 1
"""
import socket

import z3

import tlslite.messages as MSG
import tlslite.recordlayer as RL
import tlslite.tlsrecordlayer as TRLM
import tlslite.handshakehashes as HH

from pyvc.contract import contract, LoopSpec, REG
from pyvc.executor import Outcome
from pyvc.state import T
from pyvc import spec as S
from pyvc.values import VInt, VBool, VSeq, VList, VNone, VObj, VExc, Unsupported, truthy, to_val

Q = 'tlslite/tlsrecordlayer.py:TLSRecordLayer.'
VERSION = T.tuple(T.int(0, 255), T.int(0, 255))


def _one(outs, what):
    ok = [o for o in outs if o.kind == 'normal']
    if len(ok) != 1 or len(outs) != 1:
        raise Unsupported('ghost recorder: %s has %d outcomes' % (what, len(outs)))
    return ok[0]


def _payload(ex, msg, st, fr, node):
    """msg.write() evaluated with the real method of the message's class"""
    o = _one(ex.getattr_(msg, 'write', st, fr, node), 'msg.write')
    return _one(ex.call(o.val, [], {}, o.st, fr, node), 'msg.write()')


def x_sendMsgThroughSocket(ex, args, kwargs, st, fr, node):
    """ghost recorder for TLSRecordLayer._sendMsgThroughSocket(self, msg)"""
    self_, msg = args[0], args[1]
    if not isinstance(self_, VObj) or (self_.oid, 'g_out') not in st.heap:
        return ex.opaque_call(Q + '_sendMsgThroughSocket', args, st)        # not under the _sendMsg contract
    line = getattr(node, 'lineno', 0)
    o = _payload(ex, msg, st, fr, node)
    st, data = o.st, o.val
    ct = _one(ex.getattr_(msg, 'contentType', st, fr, node), 'contentType').val
    lim = _one(ex.getattr_(self_, 'recordSize', st, fr, node), 'recordSize').val
    ex.oblige(st, 'O-frag-limit@L%d' % line, (S.len_(data) <= lim).t, kind='assert', where=line)
    ex.oblige(st, 'O-frag-type@L%d' % line, (ct == st.heap[(self_.oid, 'g_ctype')]).t, kind='assert', where=line)
    # no empty record is put on the wire for a non-empty message (a zero-length handshake record is a fatal error at the peer;
    # C14: a message is processed the same however it is split)
    ex.oblige(st, 'O-frag-nonempty@L%d' % line,
              S.Or(S.len_(data) >= 1, S.len_(st.heap[(self_.oid, 'g_m0')]) == 0).t, kind='assert', where=line)
    n = st.heap[(self_.oid, 'g_n')]
    first = st.heap[(self_.oid, 'g_first_len')]
    st.heap[(self_.oid, 'g_first_len')] = S.ite(n == 0, S.len_(data), first)
    st.heap[(self_.oid, 'g_out')] = S.cat(st.heap[(self_.oid, 'g_out')], data)
    st.heap[(self_.oid, 'g_n')] = n + 1
    outs = []
    # the transport may fail at any fragment (C17): the exception leaves _sendMsg
    bad = st.fork()
    outs.append(Outcome('raise', bad, VExc(socket.error, [], '_sendMsgThroughSocket line %d' % line)))
    outs.append(Outcome('normal', st, VList([])))                           # no further yields are modelled
    return outs


REG.external[Q + '_sendMsgThroughSocket'] = x_sendMsgThroughSocket


def x_hh_update(ex, args, kwargs, st, fr, node):
    if st.ghost.get('$sendmsg_contract') is None:
        # not under the _sendMsg contract: behave as if this model were not registered
        from pyvc import source
        qual = 'tlslite/handshakehashes.py:HandshakeHashes.update'
        fs = source.load(qual)
        if not hasattr(ex, 'spec') and ex.reg.may_inline(qual, fs, fr):
            ex.inlined.add(qual)
            return ex.inline(fs, args, kwargs, st, fr, node)
        return ex.opaque_call(qual, args, st)
    return [Outcome('normal', st, VNone())]


REG.external['tlslite/handshakehashes.py:HandshakeHashes.update'] = x_hh_update


def _self_t():
    rl = T.obj(RL.RecordLayer, _version=VERSION, send_record_limit=T.int(),
               _writeState=T.obj(RL.ConnectionState, encContext=T.obj(None, isBlockCipher=T.bool())))
    return T.obj(TRLM.TLSRecordLayer, _user_record_limit=T.int(), _recordLayer=rl,
                 _handshake_hash=T.obj(HH.HandshakeHashes),
                 g_out=T.bytes(), g_n=T.int(), g_first_len=T.int(), g_ctype=T.int(), g_m0=T.bytes())


def _setup(field):
    def setup(ex, st, ns):
        s, m = st.env['self'], st.env['msg']
        st.ghost['$sendmsg_contract'] = VBool(z3.BoolVal(True))
        st.heap[(s.oid, 'g_out')] = S.empty()
        st.heap[(s.oid, 'g_n')] = VInt(0)
        st.heap[(s.oid, 'g_first_len')] = VInt(-1)
        st.heap[(s.oid, 'g_ctype')] = st.heap[(m.oid, 'contentType')]
        st.heap[(s.oid, 'g_m0')] = st.heap[(m.oid, field)]
    return setup


def _limit(ns):
    return S.min_(ns.f(ns.self, '_user_record_limit'), ns.f(ns.f(ns.self, '_recordLayer'), 'send_record_limit'))


def _requires(ns):
    return _limit(ns) >= 1


def _requires_message(ns):
    # a plain Message has no splitFirstByte(): _queue_flush (the only caller that passes one) carries handshake data
    return S.And(_limit(ns) >= 1, S.Not(_split_applies(ns)))


def _split_applies(ns):
    """RFC-independent statement of when the 1/n-1 countermeasure is due: CBC suite, version <= TLS 1.0, application data"""
    rl = ns.f(ns.self, '_recordLayer')
    enc = ns.f(ns.f(rl, '_writeState'), 'encContext')
    v = ns.f(rl, '_version')
    return S.And(ns.randomizeFirstBlock, v <= (3, 1), ns.f(enc, 'isBlockCipher'), ns.f(ns.msg, 'contentType') == 23)


def _ensures(ns):
    g = lambda f: ns.f(ns.self, f)
    m0 = g('g_m0')
    return S.And(S.len_(g('g_out')) == S.len_(m0),          # (length stated separately: decidable without sequence reasoning)
                 S.seq_eq(g('g_out'), m0),
                 g('g_n') >= 1,
                 S.implies(S.And(_split_applies(ns.old), S.len_(m0) >= 1), g('g_first_len') == 1),
                 S.implies(S.And(_split_applies(ns.old), S.len_(m0) >= 2), g('g_n') >= 2))


def _inv(ns):
    g = lambda f: ns.f(ns.self, f)
    return S.And(S.len_(g('g_out')) + S.len_(ns.buf) == S.len_(g('g_m0')),
                 S.seq_eq(S.cat(g('g_out'), ns.buf), g('g_m0')),
                 g('g_n') >= 0,
                 # what is left to send is non-empty (so the final fragment is): only an empty message yields an empty record
                 S.Or(S.len_(ns.buf) >= 1, S.len_(g('g_m0')) == 0),
                 ns.contentType == g('g_ctype'),
                 S.implies(S.And(_split_applies(ns.old), S.len_(g('g_m0')) >= 1),
                           S.And(g('g_first_len') == 1, g('g_n') >= 1)))


_GHOST = [('self', 'g_out'), ('self', 'g_n'), ('self', 'g_first_len')]

for _vn, _mt, _field, _req in (
        ('ApplicationData', T.obj(MSG.ApplicationData, contentType=T.int(0, 255), bytes=T.bytes()), 'bytes', _requires),
        ('Message', T.obj(MSG.Message, contentType=T.int(0, 255), data=T.bytes()), 'data', _requires_message)):
    contract(Q + '_sendMsg', name='TLSRecordLayer._sendMsg[%s]' % _vn,
             params={'self': _self_t(), 'msg': _mt, 'randomizeFirstBlock': T.bool(), 'update_hashes': T.bool()},
             setup=_setup(_field), requires=_req, ensures=_ensures,
             raises={socket.error: None},
             loops={2: LoopSpec(_inv, variant=lambda ns: S.len_(ns.buf), modifies_fields=_GHOST,
                                fingerprint='self.recordSize')},
             prop=('C01', 'C16', 'C14'),
             doc='every fragment handed to _sendMsgThroughSocket is <= recordSize and carries msg.contentType; their '
                 'concatenation in call order is msg.write() at entry, also across the 1/n-1 split (first fragment is '
                 'exactly byte 0); the fragmentation loop terminates when recordSize >= 1')

REG.note('C01', 'assumptions', '_sendMsg: recordSize >= 1 (recordSize == 0 loops forever: caller obligation; the negotiated '
                               'record_size_limit is >= 64 by RFC 8449)')
REG.note('C01', 'trusted', '_sendMsg: HandshakeHashes.update(buf) does not mutate buf (ghost no-op model); '
                           '_sendMsgThroughSocket is replaced by a ghost recorder of (contentType, bytes) that may also raise '
                           'socket.error; the yielded 0/1 progress values are not modelled')
REG.note('C01', 'assumptions', '_sendMsg message variants verified: ApplicationData (payload in .bytes, splitFirstByte) and '
                               'Message (payload in .data); other message classes reach the loop only through their write() '
                               'result, which is covered by the Message variant as far as fragmentation is concerned')

REG.xchecks.append({'prop': 'C01', 'module': 'specs.posthandshake', 'name': 'sendmsg_fragments', 'function': Q + '_sendMsg'})
