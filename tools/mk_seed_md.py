#!/usr/bin/env python3
"""Regenerates the 'seeded changes' section of DESIGN.md from seeded/*/meta.json and seeded/RESULTS.tsv."""
import json, os, re
H = '/verif'
res = {}
if os.path.exists(H + '/seeded/RESULTS.tsv'):
    for l in open(H + '/seeded/RESULTS.tsv'):
        p = l.rstrip('\n').split('\t')
        if len(p) >= 3:
            res[p[0]] = (p[2], p[3] if len(p) > 3 else '')
rows = []
for d in sorted(os.listdir(H + '/seeded')):
    mp = H + '/seeded/%s/meta.json' % d
    if not os.path.exists(mp):
        continue
    m = json.load(open(mp))
    rc, v = res.get(d, ('not run', ''))
    ob = ''
    mm = re.search(r'obligation=(.*?)(?: no-failing-input-found)?$', v)
    if mm:
        ob = mm.group(1)
    verdict = {'1': 'caught', '0': '**missed**', '2': 'undecided (exit 2)', '3': 'checker problem (exit 3)'}.get(rc, rc)
    if 'no-failing-input-found' in v:
        verdict += ' (no-failing-input-found)'
    rows.append('| %s | %s | %s | %s | %s |' % (d, m.get('property'), (m.get('breaks') or '')[:170].replace('|', '/').replace('\n', ' '),
                                               verdict, ('`%s`' % ob[:110]) if ob else ''))
caught = sum(1 for r in rows if '| caught' in r)
md = ['## 11. Seeded changes: which checks catch which\n',
      'Each seed was written by an independent sub-agent that saw only the property text and a scratch worktree; each was confirmed by me '
      '(demo passes on the clean tree, unit tests pass with the patch, demo fails with the patch; `seeded/<id>/meta.json`). '
      '`tools/seed_matrix.sh` applies each patch to a scratch worktree and runs the quick check of its property '
      '(`VERIF_REPO=<worktree> ./check <P>`). Result of the last run: %d of %d caught.\n' % (caught, len(rows)),
      '| seed | property | what it breaks | result | first obligation reported |', '|---|---|---|---|---|'] + rows
s = open(H + '/DESIGN.md').read()
i = s.find('## 11. Seeded changes')
if i >= 0:
    import re as _re
    _m = _re.search(r'\n## (?!11\.)', s[i + 5:])
    j = (i + 5 + _m.start()) if _m else -1
    s = s[:i] + '\n'.join(md) + '\n' + (s[j:] if j >= 0 else '')
else:
    s = s.rstrip('\n') + '\n\n' + '\n'.join(md) + '\n'
open(H + '/DESIGN.md', 'w').write(s)
print('seed table: %d rows, %d caught' % (len(rows), caught))
