"""C15: DelegatedCredential (tlslite/x509.py), the payload of the TLS 1.3 CertificateEntry delegated_credential extension.
RFC 9345 4:  struct { uint32 valid_time; SignatureScheme dc_cert_verify_algorithm; opaque ASN1_subjectPublicKeyInfo<1..2^24-1>; } Credential;
             struct { Credential cred; SignatureScheme algorithm; opaque signature<1..2^16-1>; } DelegatedCredential;
write() is proved to produce exactly this layout from the object's own fields (cred.* then algorithm then signature)."""
import tlslite.x509 as X

from pyvc.contract import contract, REG
from pyvc.state import T
from pyvc import spec as S

from contracts.codec import PROP, only_modifies, fits

XQ = 'tlslite/x509.py:'
CRED = T.obj(X.Credential, valid_time=T.int(), dc_cert_verify_algorithm=T.tuple(T.int(), T.int()),
             subject_public_key_info=T.bytes())
DC = T.obj(X.DelegatedCredential, cred=CRED, algorithm=T.tuple(T.int(), T.int()), signature=T.bytes())


def _is_byte(x):
    return (x >= 0) & (x <= 255)


def _fields(ns):
    c = ns.f(ns.self, 'cred')
    return (ns.f(c, 'valid_time'), ns.f(c, 'dc_cert_verify_algorithm'), ns.f(c, 'subject_public_key_info'),
            ns.f(ns.self, 'algorithm'), ns.f(ns.self, 'signature'))


def dc_fits(ns):
    vt, cva, spki, alg, sig = _fields(ns)
    return S.And(fits(vt, 4), _is_byte(cva[0]), _is_byte(cva[1]), S.len_(spki) < (1 << 24),
                 _is_byte(alg[0]), _is_byte(alg[1]), S.len_(sig) < (1 << 16))


def _layout(ns):
    vt, cva, spki, alg, sig = _fields(ns)
    return S.cat(S.be(vt, 4), S.byte(cva[0]), S.byte(cva[1]), S.be(S.len_(spki), 3), spki,
                 S.byte(alg[0]), S.byte(alg[1]), S.be(S.len_(sig), 2), sig)


contract(XQ + 'DelegatedCredential.write', params={'self': DC}, result=T.bytes(),
         requires=lambda ns: S.And(_is_byte(_fields(ns)[1][0]), _is_byte(_fields(ns)[1][1]),
                                   _is_byte(_fields(ns)[3][0]), _is_byte(_fields(ns)[3][1])),
         ensures=lambda ns: S.And(dc_fits(ns), S.seq_eq(ns.result, _layout(ns)),
                                  S.len_(ns.result) == 4 + 2 + 3 + S.len_(_fields(ns)[2]) + 2 + 2 + S.len_(_fields(ns)[4]),
                                  only_modifies(ns)),
         raises={ValueError: ('iff', lambda ns: S.Not(dc_fits(ns)))},
         prop=PROP,
         doc='valid_time(4) dc_cert_verify_algorithm(2) spki<3> | algorithm(2) signature<2>: the credential scheme comes from '
             'cred.dc_cert_verify_algorithm and the delegation scheme from self.algorithm, each exactly once')
REG.note('C15', 'assumptions', 'DelegatedCredential.write: the two bytes of each SignatureScheme are in 0..255 (precondition; '
                               'Writer.addOne appends without a range check, bytearray.append raises ValueError otherwise)')
REG.note('C15', 'not_built', 'DelegatedCredential.parse (Credential.marshal + parse_pub_key) and the round trip; covered by the '
                             'differential run specs.x509_dc')
REG.xchecks.append({'prop': 'C15', 'module': 'specs.x509_dc', 'name': 'delegated_credential_write', 'function': XQ + 'DelegatedCredential.write'})
