"""M2 tasks on the SERVER side of tlslite/tlsconnection.py (C03, C04, C05, C08, C11, C13, C19).

Tasks (key `m2:<name>`; properties):
  _serverGetClientHello/version-negotiation (C03)  /fallback-scsv (C04)  /resumed-serverhello-sentinel (C04)
      /cipher-suites (C03)  /record-size-limit (C19,C08,C03)  /peer-controlled-dereferences (C08)
      /resumption (C13)  /hello-retry (C04)
  _handshakeServerAsyncHelper/downgrade-sentinel (C04)  /completion-record (C03,C05,C13,C04)
  _server_select_certificate/selection (C03)   _ticket_to_session/guards, _tryDecrypt/guards (C13)
  _serverSendTickets/payload (C03,C13)   _serverTLS13Handshake/peer-identity (C05,C13)  /locals-bound (C08)
  _serverCertKeyExchange/client-auth-and-uniformity (C05,C11)   calcVerifyBytes/premaster-use (C11)
  _serverSRPKeyExchange/alerts-and-result (C05,C08)  _serverAnonKeyExchange/alerts-and-result (C08)
  _serverFinished/order (C04,C03,C13)
Non-vacuity: `M2S_FLIP='*' python3-vt -m pyvc.run1 contracts.m2_server` negates every goal; all must be refuted.

Executor: pyvc/m2x.py (M2 + site hooks, loop refinement, 3-way generator idiom).  Every obligation is taken
from the property text / the RFC named in its comment, not from what the code does.  Expected refutations on
the pinned tree (each reproduced on the real code, see specs/m2_server.py and design_probes/f17..f19):
  F8  AlertDescription.decoder_error does not exist (two sites)                       -> AttributeError
  F9  sni_ext.hostNames[0] with an SNI extension without host_name entries            -> IndexError
  F17 version floor: a ClientHello without supported_versions and legacy version > (3,3) is answered with
      TLS 1.2 even when settings.minVersion == (3,4)                                   -> C03 violated
  F18 `supported.groups` on a missing supported_groups extension (psk_ke only ClientHello with key_share)
                                                                                       -> AttributeError
  F19 `selected_group` unbound in _serverTLS13Handshake (psk_ke only, PSK not accepted, no key_share)
                                                                                       -> UnboundLocalError
  F20 `assert False` in _serverGetClientHello for a server configured with settings.virtual_hosts only (which
      _handshakeServerAsyncHelper accepts as credentials)                              -> AssertionError
  F21 the ServerHello of an abbreviated (session-ID / ticket) handshake never carries the RFC 8446 4.1.3
      downgrade sentinel although the server supports TLS 1.3                          -> C04 (RFC MUST)
"""
import ast

import z3

from tlslite.constants import (AlertDescription, CipherSuite, ExtensionType, ContentType, HandshakeType)
from pyvc.m2 import M2Spec, NoReturn, fresh_opaque
from pyvc.m2x import (m2xtask, term_mentions, V_CONCAT, V_EMPTY_LIST, V_IN, V_GETITEM)
from pyvc.executor import Outcome
from pyvc.values import (V, VBool, VPy, VOpaque, VInt, VNone, VTuple, VList, VObj, VStr, VExc, truthy, to_val, eq_op,
                         v_truthy, v_none, v_int, v_tup2, val_int, Unsupported)
from pyvc.contract import REG
from pyvc import smt
from contracts.m2_common import TC, h_sendError

Val = smt.Val
PROPS_ALL = ('C03', 'C04', 'C05', 'C08', 'C11', 'C13', 'C19')


# ---------------------------------------------------------------------------------------------------
# term helpers

def UF(name, *sorts):
    return z3.Function(name, *sorts)


def attr_t(name, t):
    return UF('v_attr_' + name, Val, Val)(t)


def A(name, v):
    return VOpaque(attr_t(name, to_val(v)))


GETEXT = UF('pure_getExtension_2', Val, Val, Val)
V_LEN = UF('v_len', Val, smt.I)
CMP = dict((k, UF('v_cmp_' + k, Val, Val, smt.B)) for k in ('lt', 'le', 'gt', 'ge'))


def ext_of(ch, etype):
    """term of `ch.getExtension(etype)` (getExtension is modelled as a pure method)"""
    return GETEXT(attr_t('getExtension', to_val(ch)), v_int(z3.IntVal(int(etype))))


def tup(a, b):
    return v_tup2(v_int(z3.IntVal(a)), v_int(z3.IntVal(b)))


def T(v):
    return to_val(v)


def is_const_int(v, n):
    if not isinstance(v, VInt):
        return False
    s = z3.simplify(v.t)
    return z3.is_int_value(s) and s.as_long() == n


def apps(formulas, pred):
    """all sub-terms t of the formulas with pred(t)"""
    seen, out, stack = set(), [], list(formulas)
    while stack:
        e = stack.pop()
        k = e.get_id()
        if k in seen:
            continue
        seen.add(k)
        if z3.is_quantifier(e):
            continue
        if z3.is_app(e):
            if pred(e):
                out.append(e)
            stack.extend(e.children())
    return out


# ---- protocol versions are (major, minor) int pairs ordered lexicographically ------------------------------
# Python compares tuples lexicographically; for pairs of small non-negative ints that is the order of
# rank(v) = 256*major + minor.  The M2 abstraction keeps `a < b` on opaque values as the uninterpreted
# predicate v_cmp_lt(a, b); the facts below are ground instances (for the comparison terms that occur in the
# formulas at hand) of:  v_cmp_op(a, b) <=> rank(a) op rank(b);  rank((x, y)) = 256 x + y for literals;
# a == b <=> rank(a) == rank(b) for values that are compared with a version.
RANK = UF('version_rank', Val, smt.I)


def order_facts(formulas):
    cmps = apps(formulas, lambda e: e.decl().name() in ('v_cmp_lt', 'v_cmp_le', 'v_cmp_gt', 'v_cmp_ge'))
    facts, terms = [], {}
    for c in cmps:
        a, b = c.arg(0), c.arg(1)
        op = c.decl().name()[-2:]
        ra, rb = RANK(a), RANK(b)
        facts.append(c == {'lt': ra < rb, 'le': ra <= rb, 'gt': ra > rb, 'ge': ra >= rb}[op])
        terms[a.get_id()] = a
        terms[b.get_id()] = b
    # literal pairs
    lits = apps(list(formulas), lambda e: e.decl().name() == 'v_tup2' and all(
        z3.is_app(x) and x.decl().name() == 'v_int' and z3.is_int_value(z3.simplify(x.arg(0))) for x in e.children()))
    for l in lits:
        x, y = [z3.simplify(c.arg(0)).as_long() for c in l.children()]
        facts.append(RANK(l) == 256 * x + y)
        terms[l.get_id()] = l
    # if-then-else terms among the compared values: look inside
    todo = list(terms.values())
    while todo:
        t = todo.pop()
        if z3.is_app(t) and t.decl().kind() == z3.Z3_OP_ITE:
            for ch in t.children()[1:]:
                if ch.get_id() not in terms:
                    terms[ch.get_id()] = ch
                    todo.append(ch)
    ts = list(terms.values())
    for i in range(len(ts)):
        for j in range(i + 1, len(ts)):
            facts.append((ts[i] == ts[j]) == (RANK(ts[i]) == RANK(ts[j])))
    return facts


def gv(g, k):
    """Val term of ghost fact k; a fact that was never recorded is a fresh unknown (nothing is provable of it)"""
    v = g.get(k)
    if v is None:
        return z3.Const(fresh_name_('missing_ghost_' + k), Val)
    return to_val(v)


def fresh_name_(base):
    from pyvc.values import fresh_name
    return fresh_name(base)


def ob(ex, st, name, goal, kind='m2'):
    """ex.oblige that also accepts a python bool (a missing ghost fact is `False`, not a crash)"""
    if isinstance(goal, bool):
        goal = z3.BoolVal(goal)
    ex.oblige(st, name, goal, kind=kind)


def oblige_ordered(ex, st, name, goal, extra=()):
    """obligation `goal` under the version-order facts for the comparison terms of pc and goal"""
    if isinstance(goal, bool):
        goal = z3.BoolVal(goal)
    fs = order_facts(list(st.pc) + [goal] + list(extra))
    ex.oblige(st, name, z3.Implies(z3.And(fs + list(extra) + [z3.BoolVal(True)]), goal), kind='m2')


REG.note('C03', 'assumptions',
         'm2_server: protocol versions (ClientHello.client_version, entries of supported_versions, '
         'settings.minVersion/maxVersion/versions) are (int, int) tuples; their Python order is the order of '
         '256*major+minor (ground instances of this are added to the version obligations)')


# ---- site naming: ordinal of an AST node among the nodes of the same kind in the function -----------------

def site(fr, node, pred, label):
    nodes = [n for n in ast.walk(fr.fs.node) if pred(n)]
    nodes.sort(key=lambda n: (getattr(n, 'lineno', 0), getattr(n, 'col_offset', 0)))
    for k, n in enumerate(nodes):
        if n is node:
            return '%s#%d' % (label, k + 1)
    return '%s#?' % label


def src(node):
    try:
        return ast.unparse(node)
    except Exception:
        return '?'


# ---- python lists embedded into Val by the M2X merge: [x] is v_concat(v_empty_list, v_list1(x)) ---------------

def list_facts(formulas):
    fs = []
    for e in apps(formulas, lambda e: e.decl().name() == 'v_concat' and e.arg(0).eq(V_EMPTY_LIST)
                  and z3.is_app(e.arg(1)) and e.arg(1).decl().name() == 'v_list1'):
        fs.append(z3.And(V_GETITEM(e, v_int(z3.IntVal(0))) == e.arg(1).arg(0), v_truthy(e), V_LEN(e) == 1))
    return fs


# ---- names that may be unbound ----------------------------------------------------------------------------

def UNBOUND(name):
    return z3.Const('UNBOUND_' + name, Val)


def prebind(*names):
    def setup(ex, st, fr):
        for n in names:
            st.env[n] = VOpaque(UNBOUND(n))
    return setup


def unbound_cond(t, u):
    if t.eq(u):
        return z3.BoolVal(True)
    if z3.is_app(t) and t.decl().kind() == z3.Z3_OP_ITE:
        c, a, b = t.children()
        return z3.Or(z3.And(c, unbound_cond(a, u)), z3.And(z3.Not(c), unbound_cond(b, u)))
    return z3.BoolVal(False)


def make_on_name(names, done=None):
    """C08: a local that is assigned only on some paths must be bound at every load (else UnboundLocalError,
    an undocumented exception).  The M2 merge would silently drop such a name; the tasks bind it to a marker
    at entry and this hook demands that the marker is not what a load sees."""
    def on_name(ex, name, val, st, fr, node):
        if name in names and isinstance(val, VOpaque) and term_mentions(val.t, [UNBOUND(name)]):
            where = site(fr, node, lambda n: isinstance(n, ast.Name) and n.id == name and isinstance(n.ctx, ast.Load),
                         name)
            ob(ex, st, 'C08:local-bound-at-use:%s' % where,
                      z3.Not(unbound_cond(val.t, UNBOUND(name))), kind='m2')
            # (execution continues only if the name was bound: later uses are not blamed again)
            st.assume(z3.Not(unbound_cond(val.t, UNBOUND(name))))
    return on_name


#: extensions of the first ClientHello that _serverGetClientHello overwrites with those of the second before comparing
HRR_EDITED = (ExtensionType.key_share, ExtensionType.cookie, ExtensionType.client_hello_padding,
              ExtensionType.pre_shared_key, ExtensionType.early_data)


def _hello_equal_facts(ex, a, b, st):
    """clientHello1 (edited in place) == clientHello: the serialisations agree, hence every field and every extension
    that was NOT edited is the same object-by-value in both messages"""
    ta, tb = T(a), T(b)
    fs = [attr_t(f, ta) == attr_t(f, tb) for f in ('client_version', 'random', 'session_id', 'cipher_suites',
                                                   'compression_methods')]
    for name in dir(ExtensionType):
        v = getattr(ExtensionType, name)
        if name.startswith('_') or not isinstance(v, int) or v in HRR_EDITED:
            continue
        k = v_int(z3.IntVal(v))
        fs.append(GETEXT(attr_t('getExtension', ta), k) == GETEXT(attr_t('getExtension', tb), k))
    # pre_shared_key is overwritten only when both hellos carry one (`if new_ext and old_ext`)
    k = v_int(z3.IntVal(ExtensionType.pre_shared_key))
    old, new = GETEXT(attr_t('getExtension', ta), k), GETEXT(attr_t('getExtension', tb), k)
    fs.append(z3.Implies(z3.Not(z3.And(old != v_none, new != v_none)), old == new))
    return z3.And(fs)


# ---- non-vacuity switch: M2S_FLIP=<substring|*> negates the goal of every matching obligation after the run;
# each flipped obligation must then be refuted (its path condition is satisfiable and the goal is not void)

def m2s(name, prop, qual, spec, check, setup=None, doc='', opts=None, keep=None):
    """keep: predicate on obligation names -- one execution poses obligations of several properties; a task
    keeps those of its own property so that an expected refutation shows up under that property only"""
    import os

    def check2(api):
        check(api)
        if keep is not None:
            api.ex.obligations[:] = [ob for ob in api.ex.obligations if keep(ob.name)]
        pat = os.environ.get('M2S_FLIP')
        if pat:
            for ob in api.ex.obligations:
                if ob.kind == 'm2' and (pat == '*' or pat in ob.name):
                    ob.goal = z3.Not(ob.goal)
    if qual == TC + '_serverGetClientHello':
        # the first ClientHello is edited in place (through its extension objects) before `clientHello1 != clientHello`:
        # that comparison must not equate the two message terms
        spec.unknown_compare = {'clientHello1': _hello_equal_facts}
    return m2xtask(name, prop, qual, spec, check=check2, setup=setup, doc=doc, opts=opts)


# ---------------------------------------------------------------------------------------------------
# shared hooks

def h_getFirstMatching(ex, recv, args, kwargs, st, fr, node):
    """utils/lists.py getFirstMatching(values, matches): None, or an element of `values` that is in `matches`
    (contract proved on the real body by task m2:getFirstMatching)."""
    r = fresh_opaque('firstMatching')
    st.events.append(('getFirstMatching', args, r))
    try:
        st.assume(z3.Or(r.t == v_none, z3.And(V_IN(r.t, T(args[0])), V_IN(r.t, T(args[1])))))
    except Unsupported:
        pass
    return [Outcome('normal', st, r)]


# ===================================================================================================
# _serverGetClientHello
# ===================================================================================================

SGC = TC + '_serverGetClientHello'
SUITE_GETTERS = ('getSrpCertSuites', 'getSrpSuites', 'getTLS13Suites', 'getEcdsaSuites', 'getEcdheCertSuites',
                 'getDheCertSuites', 'getDheDsaSuites', 'getCertSuites', 'getAnonSuites', 'getEcdhAnonSuites')
SGC_PURE = {'getExtension', 'copy', 'digest', 'decode', 'is_valid_hostname', 'toStr', 'intersection',
            '_curveNamesToList', '_groupNamesToList', '_getPRFParams', 'len', 'set', 'str', 'format'}
REG.note('C03', 'trusted',
         'm2_server/_serverGetClientHello: pure callees (results are functions of receiver and arguments, no heap '
         'effect; read): ClientHello.getExtension (scan of self.extensions), HandshakeHashes.copy/digest, '
         'bytearray.decode, is_valid_hostname, GroupName.toStr, frozenset.intersection, _curveNamesToList, '
         '_groupNamesToList, _getPRFParams.  getFirstMatching(values, matches) returns None or an element of '
         'values that is in matches (utils/lists.py, 3 lines, read).')


class Exits(object):
    """exit states of a coroutine that signals its result with `yield <value>`"""

    def __init__(self):
        self.resumed = []       # (st, value)  `yield None`
        self.full = []          # (st, VTuple) `yield (clientHello, version, ...)`
        self.other = []

    def on_yield(self, ex, val, st, fr, ynode):
        # the generator idioms `yield result` pass values of sub-coroutines through: not exits
        if isinstance(ynode.value, ast.Name):
            return
        if isinstance(val, VNone):
            self.resumed.append((st.fork(), val))
        elif isinstance(val, VTuple):
            self.full.append((st.fork(), val))
        else:
            self.other.append((st.fork(), val))


def alert_exits(api, desc):
    """_sendError exits whose alert description is the constant `desc`"""
    out = []
    for o in api.raise_exits(NoReturn):
        a = o.val.args[0] if o.val.args else None
        if is_const_int(a, int(desc)):
            out.append(o)
    return out


def h_select_certificate(ex, recv, args, kwargs, st, fr, node):
    """_server_select_certificate(settings, client_hello, cipher_suites, cert_chain, private_key, version)
    -> (cipher, sig_scheme, cert, key) with cipher in cipher_suites and in client_hello.cipher_suites
    (task m2:_server_select_certificate/selection); raises TLSHandshakeFailure / TLSInsufficientSecurity /
    TLSIllegalParameterException."""
    from tlslite.errors import TLSHandshakeFailure, TLSInsufficientSecurity, TLSIllegalParameterException
    r = fresh_opaque('select_certificate')
    st.events.append(('_server_select_certificate', args, r))
    st.ghost['select_args'] = VTuple(list(args))
    st.ghost['select_result'] = r
    outs = []
    for cls in (TLSHandshakeFailure, TLSInsufficientSecurity, TLSIllegalParameterException):
        outs.append(Outcome('raise', st.fork(), VExc(cls, [], '_server_select_certificate raises %s' % cls.__name__)))
    c = V_GETITEM(r.t, v_int(z3.IntVal(0)))
    st.assume(z3.And(V_IN(c, T(args[2])), V_IN(c, attr_t('cipher_suites', T(args[1])))))
    outs.append(Outcome('normal', st, r))
    return outs


FIELD_LIKE = {'version', '_send_record_limit', '_recv_record_limit'}
REG.note('C03', 'trusted', 'm2_server: the TLSRecordLayer properties version, _send_record_limit, _recv_record_limit '
                           'return what their setter stored (tlsrecordlayer.py: getter/setter forward to the same '
                           'attribute of self._recordLayer; read)')


def sgc_setup(ex, st, fr):
    ex.spec.field_like_properties = FIELD_LIKE
    prebind('selected_group', 'cl_key_share', 'cookie', 'name')(ex, st, fr)
    me = st.env['self']
    for f in ('_send_record_limit', '_recv_record_limit', '_peer_record_size_limit'):
        st.heap[(me.oid, f)] = VOpaque(z3.Const('initial_' + f, Val))


# ---------------------------------------------------------------------------------------------------
# T1  version negotiation, TLS_FALLBACK_SCSV (C03, C04)

def _t1():
    exits = Exits()
    spec = M2Spec(hooks={'_sendError': h_sendError, 'getFirstMatching': h_getFirstMatching,
                         '_server_select_certificate': h_select_certificate},
                  pure=SGC_PURE | set(SUITE_GETTERS) | {'filterForVersion'}, on_yield=exits.on_yield)

    rec = {'resumed_sh': 0}

    def on_sub_store(ex, base, tgt, val, st, fr):
        # any write of a downgrade sentinel (none exists in this function on the pinned tree)
        from tlslite.constants import TLS_1_2_DOWNGRADE_SENTINEL, TLS_1_1_DOWNGRADE_SENTINEL
        from pyvc.executor import lift_py
        for nm, c in (('12', TLS_1_2_DOWNGRADE_SENTINEL), ('11', TLS_1_1_DOWNGRADE_SENTINEL)):
            try:
                if z3.is_true(z3.simplify(eq_op(val, lift_py(c)).t)):
                    st.ghost['sentinel' + nm] = VBool(z3.BoolVal(True))
                    st.ghost['sentinel_base'] = base
            except Exception:
                pass

    def h_create(ex, recv, args, kwargs, st, fr, node):
        if not (len(args) == 7 and 'extensions' in kwargs):
            return None
        # the ServerHello of the abbreviated handshake; RFC 8446 4.1.3 makes no exception for resumption
        rec['resumed_sh'] += 1
        maxv = attr_t('maxVersion', T(st.env['settings']))
        v = T(st.env['version'])
        s12 = truthy(ex.ghost_get(st, 'sentinel12'))
        s11 = truthy(ex.ghost_get(st, 'sentinel11'))
        oblige_ordered(ex, st, 'C04:resumed-ServerHello:TLS1.2-sentinel-iff-version==(3,3)-and-maxVersion>(3,3)',
                       s12 == z3.And(v == tup(3, 3), CMP['gt'](maxv, tup(3, 3))))
        oblige_ordered(ex, st, 'C04:resumed-ServerHello:TLS1.1-sentinel-iff-version<(3,3)-and-maxVersion>=(3,3)',
                       s11 == z3.And(CMP['lt'](v, tup(3, 3)), CMP['ge'](maxv, tup(3, 3))))
        return None
    spec.hooks['create'] = h_create
    spec.on_subscript_store = on_sub_store

    def check(api):
        entry = api.entry
        settings = entry.env['settings']
        minv, maxv = attr_t('minVersion', T(settings)), attr_t('maxVersion', T(settings))
        versions = attr_t('versions', T(settings))
        SCSV = v_int(z3.IntVal(CipherSuite.TLS_FALLBACK_SCSV))
        api.oblige(entry, 'cover:full-handshake-exit-reached', len(exits.full) >= 1)
        api.oblige(entry, 'cover:resumed-exit-reached', len(exits.resumed) >= 1)
        for kind, lst in (('full', exits.full), ('resumed', exits.resumed)):
            for (st, val) in lst:
                v = T(st.env['version'])
                ch = st.ghost.get('first_client_hello')
                ch = T(ch) if ch is not None else None
                # C03: "every negotiated parameter (version ...) lies inside what each side's own settings allow"
                oblige_ordered(api.ex, st, 'C03:%s-exit:version-not-above-settings.maxVersion' % kind,
                               z3.Or(V_IN(v, versions), CMP['le'](v, maxv)))
                oblige_ordered(api.ex, st, 'C03:%s-exit:version-not-below-settings.minVersion' % kind,
                               z3.Or(V_IN(v, versions), CMP['le'](minv, v)))
                if kind == 'full':
                    api.oblige(st, 'C03:full-exit:yielded-version-is-the-negotiated-one', T(val.items[1]) == v)
        # the ClientHello the version was negotiated from: the first one (a second one after HelloRetryRequest must
        # equal it, task hello-retry); use the events of _getMsg
        for kind, lst in (('full', exits.full), ('resumed', exits.resumed)):
            for (st, val) in lst:
                v = T(st.env['version'])
                ch1 = gv(st.ghost, 'ch1')
                suites = attr_t('cipher_suites', ch1)
                cver = attr_t('client_version', ch1)
                vext = ext_of(st.ghost['ch1'], ExtensionType.supported_versions)
                # RFC 7507 section 3: SCSV present and the server's highest version is higher than the one
                # negotiated => MUST abort (so no exit with both)
                oblige_ordered(api.ex, st, 'C04:%s-exit:no-exit-with-FALLBACK_SCSV-and-version-below-maxVersion' % kind,
                               z3.Not(z3.And(V_IN(SCSV, suites), CMP['lt'](v, maxv))))
                # RFC 8446 4.2.1 / D.1: TLS 1.3 is negotiated only through supported_versions
                oblige_ordered(api.ex, st, 'C03:%s-exit:TLS13-only-via-supported_versions' % kind,
                               z3.Implies(CMP['ge'](v, tup(3, 4)), V_IN(v, attr_t('versions', vext))))
                # C03 (client policy): the version is one the client offered, or not above its legacy version
                oblige_ordered(api.ex, st, 'C03:%s-exit:version-offered-by-client' % kind,
                               z3.Or(V_IN(v, attr_t('versions', vext)), CMP['le'](v, cver)))
        # the abort with inappropriate_fallback happens only under the RFC 7507 condition
        fb = alert_exits(api, AlertDescription.inappropriate_fallback)
        api.oblige(entry, 'cover:inappropriate_fallback-abort-exists', len(fb) >= 1)
        for o in fb:
            st = o.st
            ch1 = gv(st.ghost, 'ch1')
            oblige_ordered(api.ex, st, 'C04:inappropriate_fallback-alert-only-if-SCSV-and-version-below-maxVersion',
                           z3.And(V_IN(SCSV, attr_t('cipher_suites', ch1)), CMP['lt'](T(st.env['version']), maxv)))
        pv = alert_exits(api, AlertDescription.protocol_version)
        api.oblige(entry, 'cover:protocol_version-abort-exists', len(pv) >= 2)
        api.oblige(entry, 'cover:resumed-ServerHello-site-reached', rec['resumed_sh'] >= 1)
    return spec, check


def h_getMsg_ch(ex, recv, args, kwargs, st, fr, node):
    """_getMsg(handshake, client_hello): remember the first ClientHello"""
    r = fresh_opaque('clientHello_msg')
    st.events.append(('_getMsg', args, r))
    ex.havoc_call('_getMsg', st)
    if 'ch1' not in st.ghost:
        st.ghost['ch1'] = r
    else:
        st.ghost['ch2'] = r
    return [Outcome('normal', st, r)]


def _reg_t1():
    for (nm, prop, keep, doc) in (
            ('version-negotiation', ('C03',), lambda n: n.startswith('C03:') or n.startswith('cover:'),
             'server: negotiated version inside settings (versions / [minVersion, maxVersion]) and inside what the '
             'client offered; TLS 1.3 only via supported_versions'),
            ('fallback-scsv', ('C04',), lambda n: (n.startswith('C04:') and 'resumed-ServerHello' not in n)
             or n.startswith('cover:'),
             'server: TLS_FALLBACK_SCSV aborts with inappropriate_fallback iff version < maxVersion (RFC 7507)'),
            ('resumed-serverhello-sentinel', ('C04',), lambda n: 'resumed-ServerHello' in n,
             'server: the ServerHello of an abbreviated handshake carries the RFC 8446 4.1.3 downgrade sentinel '
             'under the same conditions as the full handshake')):
        spec, check = _t1()
        spec.hooks['_getMsg'] = h_getMsg_ch
        m2s('_serverGetClientHello/' + nm, prop, SGC, spec, check=check, setup=sgc_setup, doc=doc, keep=keep)


_reg_t1()


# ---------------------------------------------------------------------------------------------------
# T2  candidate cipher suites (C03)

def _t2():
    exits = Exits()
    sources = {}            # id of result term -> (getter name, term)

    def h_getter(ex, recv, args, kwargs, st, fr, node):
        name = node.func.attr
        r = fresh_opaque('suites_' + name)
        sources[r.t.get_id()] = (name, r.t)
        st.events.append((name, args, r))
        where = site(fr, node, lambda n: isinstance(n, ast.Call) and isinstance(n.func, ast.Attribute)
                     and n.func.attr in SUITE_GETTERS, name)
        # C03: the suites offered for selection are those the server's settings allow for the negotiated version
        ob(ex, st, 'C03:%s:called-with-the-settings-and-the-negotiated-version' % where,
                  z3.And(len(args) == 2, T(args[0]) == T(st.env['settings']), T(args[1]) == T(st.env['version'])),
                  kind='m2')
        if name in ('getTLS13Suites', 'getEcdheCertSuites', 'getEcdsaSuites', 'getDheCertSuites', 'getDheDsaSuites', 'getCertSuites'):
            st.ghost['added:' + name] = VBool(z3.BoolVal(True))
        return [Outcome('normal', st, r)]

    def only_sources(t):
        if t.eq(V_EMPTY_LIST) or t.get_id() in sources:
            return True
        if z3.is_app(t) and t.decl().name() == 'v_concat':
            return only_sources(t.arg(0)) and only_sources(t.arg(1))
        if z3.is_app(t) and t.decl().kind() == z3.Z3_OP_ITE:
            return only_sources(t.arg(1)) and only_sources(t.arg(2))
        return False

    def h_filterForVersion(ex, recv, args, kwargs, st, fr, node):
        r = fresh_opaque('candidate_suites')
        st.events.append(('filterForVersion', args, r))
        lst = args[0]
        ok = isinstance(lst, VList) and not lst.items or (isinstance(lst, VOpaque) and only_sources(lst.t))
        ob(ex, st, 'C03:candidate-list-is-built-only-from-CipherSuite.get*Suites(settings, version)-results',
                  z3.BoolVal(bool(ok)), kind='m2')
        v = T(st.env['version'])
        ob(ex, st, 'C03:candidate-list-filtered-to-exactly-the-negotiated-version',
                  z3.And('minVersion' in kwargs and T(kwargs['minVersion']) == v,
                         'maxVersion' in kwargs and T(kwargs['maxVersion']) == v), kind='m2')
        st.ghost['candidates'] = r
        # C19 "compatible settings connect": with a certificate configured (and no verifier database) every family whose
        # key-exchange group requirement is met IS among the candidates -- TLS 1.3 suites need any shared group (EC or
        # FFDHE), ECDHE suites a shared curve, DHE suites a shared FFDHE group / none advertised, RSA suites nothing
        e = st.env
        if all(k in e for k in ('verifierDB', 'cert_chain', 'ecGroupIntersect', 'ffGroupIntersect')):
            cert_only = z3.And(z3.Not(truthy(e['verifierDB'])), truthy(e['cert_chain']))
            ec, ff = truthy(e['ecGroupIntersect']), truthy(e['ffGroupIntersect'])
            added = lambda n: truthy(st.ghost.get('added:' + n, VBool(z3.BoolVal(False))))
            for fam, cond in (('getTLS13Suites', z3.Or(ec, ff)), ('getEcdheCertSuites', ec), ('getEcdsaSuites', ec),
                              ('getDheCertSuites', ff), ('getDheDsaSuites', ff), ('getCertSuites', z3.BoolVal(True))):
                ob(ex, st, 'C19:candidates-include-%s-whenever-its-group-requirement-is-met' % fam,
                   z3.Implies(z3.And(cert_only, cond), added(fam)), kind='m2')
        return [Outcome('normal', st, r)]

    hooks = {'_sendError': h_sendError, 'getFirstMatching': h_getFirstMatching, '_getMsg': h_getMsg_ch,
             '_server_select_certificate': h_select_certificate, 'filterForVersion': h_filterForVersion}
    for g in SUITE_GETTERS:
        hooks[g] = h_getter
    spec = M2Spec(hooks=hooks, pure=SGC_PURE, on_yield=exits.on_yield)

    def check(api):
        entry = api.entry
        api.oblige(entry, 'cover:full-handshake-exit-reached', len(exits.full) >= 1)
        api.oblige(entry, 'cover:all-ten-suite-getters-reached', len(set(n for n, _ in sources.values())) == 10)
        for (st, val) in exits.full:
            sa = st.ghost.get('select_args')
            sr = st.ghost.get('select_result')
            cand = st.ghost.get('candidates')
            if sa is None or sr is None or cand is None:
                api.oblige(st, 'C03:full-exit:suite-selected-by-_server_select_certificate', False)
                continue
            ch1 = st.ghost['ch1']
            api.oblige(st, 'C03:full-exit:selection-ran-on-(settings, first ClientHello, candidate list, version)',
                       z3.And(T(sa.items[0]) == T(st.env['settings']), T(sa.items[1]) == T(ch1),
                              T(sa.items[2]) == T(cand), T(sa.items[5]) == T(st.env['version'])))
            suite = T(val.items[2])
            api.oblige(st, 'C03:full-exit:yielded-suite-is-the-selected-one',
                       suite == V_GETITEM(T(sr), v_int(z3.IntVal(0))))
            api.oblige(st, 'C03:full-exit:suite-in-candidates-and-in-the-ClientHello-handed-on',
                       z3.And(V_IN(suite, T(cand)), V_IN(suite, attr_t('cipher_suites', T(val.items[0])))))
            api.oblige(st, 'C03:full-exit:yielded-signature-scheme-key-and-chain-are-the-selected-ones',
                       z3.And([T(val.items[k]) == V_GETITEM(T(sr), v_int(z3.IntVal(j)))
                               for k, j in ((3, 1), (5, 2), (4, 3))]))
    return spec, check


_spec2, _check2 = _t2()
m2s('_serverGetClientHello/cipher-suites', ('C03', 'C20', 'C19'), SGC, _spec2, check=_check2, setup=sgc_setup,
        doc='server: the candidate suites are CipherSuite.get*Suites(settings, version) results filtered to the '
            'negotiated version; the yielded suite is the one _server_select_certificate picked from them')


# ---------------------------------------------------------------------------------------------------
# T3  record_size_limit (C19 / C08 / C03; RFC 8449)

def none_tested_expressions(fnode):
    """source texts of expressions that the function compares with None using is / is not"""
    out = set()
    for n in ast.walk(fnode):
        if isinstance(n, ast.Compare) and len(n.ops) == 1 and isinstance(n.ops[0], (ast.Is, ast.IsNot)) \
                and isinstance(n.comparators[0], ast.Constant) and n.comparators[0].value is None:
            out.add(src(n.left))
    return out


def make_none_safety_hook(counter):
    """C08 None-safety: an order comparison on a value that the same function tests for None must be
    dominated by that test (else TypeError, an undocumented exception, on peer-controlled input)."""
    def on_compare(ex, op, a, b, st, fr, node):
        if not isinstance(op, (ast.Lt, ast.LtE, ast.Gt, ast.GtE)) or not isinstance(node, ast.Compare) \
                or len(node.ops) != 1:
            return
        tested = none_tested_expressions(fr.fs.node)
        for (v, n) in ((a, node.left), (b, node.comparators[0])):
            if src(n) in tested and isinstance(v, VOpaque):
                counter.append(src(n))
                ob(ex, st, 'C08:none-test-dominates-order-comparison:%s' % src(node), v.t != v_none, kind='m2')
    return on_compare


REG.note('C19', 'trusted',
         'm2_server/record-size-limit: between the stores and the full-handshake exit of _serverGetClientHello the '
         'callees (_sendMsgs, _getMsg, message constructors, getRandomBytes) do not assign _send_record_limit / '
         '_recv_record_limit / _peer_record_size_limit: their only store sites in tlslite/ are '
         '_clientGetServerHello, _clientTLS13Handshake, _serverGetClientHello, _sendFinished and the '
         'TLSRecordLayer property setters (the name-based frame scan cannot separate them: 316 names)')


def _t3():
    exits = Exits()
    stores = {'_send_record_limit': [], '_recv_record_limit': [], '_peer_record_size_limit': []}
    compared = []
    P14 = 2 ** 14

    def rsl_of(st):
        return attr_t('record_size_limit', ext_of(st.ghost['ch1'], ExtensionType.record_size_limit))

    SUB = UF('v_binop_Sub', Val, Val, Val)
    C14 = v_int(z3.IntVal(P14))
    ONE = v_int(z3.IntVal(1))

    def vmin(a, b):
        """Python min(a, b) on opaque values in the abstraction's own symbols"""
        return z3.If(CMP['lt'](b, a), b, a)

    def mk_store(name):
        def hook(ex, obj, val, st, fr, node):
            stores[name].append(1)
            v = T(st.env['version'])
            rsl = rsl_of(st)
            srv = attr_t('record_size_limit', T(st.env['settings']))
            tls13 = CMP['ge'](v, tup(3, 4))
            # RFC 8449 section 4: values below 64 are rejected (illegal_parameter) -- so never stored
            oblige_ordered(ex, st, 'C19:%s:stored-only-for-a-client-limit>=64' % name,
                           z3.And(CMP['le'](v_int(z3.IntVal(64)), rsl), rsl != v_none))
            ob(ex, st, 'C19:%s:stored-only-if-the-server-enabled-record_size_limit' % name, v_truthy(srv),
                      kind='m2')
            if name == '_send_record_limit':
                # TLS 1.3: the limit counts the content-type byte, the record layer's limit does not
                oblige_ordered(ex, st, 'C19:_send_record_limit:set-at-ClientHello-time-only-in-TLS1.3', tls13)
                oblige_ordered(ex, st, 'C19:_send_record_limit:TLS1.3-value-is-min(2^14, client_limit-1)',
                               T(val) == vmin(C14, SUB(rsl, ONE)))
            elif name == '_recv_record_limit':
                oblige_ordered(ex, st, 'C19:_recv_record_limit:set-at-ClientHello-time-only-in-TLS1.3', tls13)
                oblige_ordered(ex, st, 'C19:_recv_record_limit:TLS1.3-value-is-min(2^14, own_limit-1)',
                               T(val) == vmin(C14, SUB(srv, ONE)))
            else:
                # TLS <= 1.2: takes effect with the cipher change; the value is the client's limit itself
                oblige_ordered(ex, st, 'C19:_peer_record_size_limit:used-only-below-TLS1.3', z3.Not(tls13))
                oblige_ordered(ex, st, 'C19:_peer_record_size_limit:value-is-min(2^14, client_limit)',
                               T(val) == vmin(C14, rsl))
        return hook

    spec = M2Spec(hooks={'_sendError': h_sendError, 'getFirstMatching': h_getFirstMatching, '_getMsg': h_getMsg_ch,
                         '_server_select_certificate': h_select_certificate},
                  pure=SGC_PURE | set(SUITE_GETTERS) | {'filterForVersion'}, on_yield=exits.on_yield,
                  on_store=dict((k, mk_store(k)) for k in stores), stable_fields=set(stores))
    spec.on_compare = make_none_safety_hook(compared)

    def check(api):
        entry = api.entry
        me = entry.env['self']
        for k in stores:
            api.oblige(entry, 'cover:store-site-reached:%s' % k, len(stores[k]) >= 1)
        api.oblige(entry, 'cover:none-safety-site-reached:size_limit_ext.record_size_limit',
                   'size_limit_ext.record_size_limit' in compared)
        api.oblige(entry, 'cover:exits-reached', len(exits.full) >= 1 and len(exits.resumed) >= 1)
        # (the resumed exit runs _sendFinished, which legitimately moves the pending limit into the send limit)
        for (st, val) in exits.full:
            v = T(st.env['version'])
            ext = ext_of(st.ghost['ch1'], ExtensionType.record_size_limit)
            rsl = attr_t('record_size_limit', ext)
            srv = attr_t('record_size_limit', T(st.env['settings']))
            tls13 = CMP['ge'](v, tup(3, 4))
            send = st.heap.get((me.oid, '_send_record_limit'))
            peer = st.heap.get((me.oid, '_peer_record_size_limit'))
            if send is None or peer is None:
                api.oblige(st, 'C19:full-exit:limit-fields-tracked', False)
                continue
            both = z3.And(v_truthy(ext), v_truthy(srv))
            init_send = z3.Const('initial__send_record_limit', Val)
            init_peer = z3.Const('initial__peer_record_size_limit', Val)
            oblige_ordered(api.ex, st, 'C19:full-exit:TLS1.3-send-limit-is-client_limit-1-(content-type-byte)',
                           z3.Implies(z3.And(both, tls13), T(send) == vmin(C14, SUB(rsl, ONE))))
            oblige_ordered(api.ex, st, 'C19:full-exit:TLS<=1.2-pending-limit-is-client_limit-and-send-limit-untouched',
                           z3.Implies(z3.And(both, z3.Not(tls13)),
                                      z3.And(T(peer) == vmin(C14, rsl), T(send) == init_send)))
            api.oblige(st, 'C19:full-exit:no-limit-change-unless-both-sides-sent-the-extension',
                       z3.Implies(z3.Not(both), z3.And(T(send) == init_send, T(peer) == init_peer)))
    return spec, check


_spec3, _check3 = _t3()
m2s('_serverGetClientHello/record-size-limit', ('C19', 'C08', 'C03'), SGC, _spec3, check=_check3,
        setup=sgc_setup,
        doc='server, RFC 8449: the None test on the parsed limit dominates its range comparison; a limit is '
            'stored only if >= 64 and only if the server enabled the extension; TLS 1.3 send limit = client limit '
            '- 1, TLS <= 1.2 pending limit = client limit')


# ---------------------------------------------------------------------------------------------------
# T4  peer-controlled dereferences (C08)

def is_ext_value(t):
    """is the term the result of getExtension (possibly None), or an if-then-else of such / None"""
    if z3.is_app(t) and t.decl().name() == 'pure_getExtension_2':
        return True
    if z3.is_app(t) and t.decl().kind() == z3.Z3_OP_ITE:
        a, b = t.arg(1), t.arg(2)
        return (is_ext_value(a) or a.eq(v_none)) and (is_ext_value(b) or b.eq(v_none)) and \
            (is_ext_value(a) or is_ext_value(b))
    return False


def _none_fields():
    """{(extension type, field name)}: fields of the extension classes that are None after parsing an EMPTY extension body
    (read off the real classes of this tree: each class is instantiated and fed an empty parser)"""
    import inspect
    from tlslite import extensions as E
    from tlslite.utils.codec import Parser
    res = set()
    for _, cls in inspect.getmembers(E, inspect.isclass):
        if not issubclass(cls, E.TLSExtension) or cls is E.TLSExtension:
            continue
        try:
            o = cls()
            o.parse(Parser(bytearray(0)))
        except Exception:
            continue
        names = [k for k, v in vars(o).items() if v is None and not k.startswith('_')]
        if getattr(o, '_internal_value', 0) is None:
            names.append(getattr(o, '_field_name', None) or getattr(o, '_fieldName', None))
            for k in dir(cls):
                if isinstance(getattr(cls, k, None), property):
                    continue
            # CustomNameExtension exposes _internal_value under a per-class public name
            for k in dir(o):
                if k.startswith('_') or k in ('extData', 'extType', 'encExt', 'serverType'):
                    continue
                try:
                    if getattr(o, k) is None and not callable(getattr(cls, k, None)):
                        names.append(k)
                except Exception:
                    pass
        for n in names:
            if n:
                res.add((int(o.extType), n))
    return res


NONE_FIELDS = _none_fields()
_PARENTS = {}


def _parent_of(fr, node):
    key = id(fr.fs.node)
    if key not in _PARENTS:
        m = {}
        for p_ in ast.walk(fr.fs.node):
            for c in ast.iter_child_nodes(p_):
                m[id(c)] = p_
        _PARENTS[key] = m
    return _PARENTS[key].get(id(node))


def _needs_a_list(fr, node):
    """is the value of this expression iterated over, searched with `in`, subscripted or measured with len()?"""
    p_ = _parent_of(fr, node)
    if isinstance(p_, (ast.For, ast.comprehension)) and p_.iter is node:
        return 'iterated'
    if isinstance(p_, ast.Compare) and node in p_.comparators and any(isinstance(o, (ast.In, ast.NotIn)) for o in p_.ops):
        return 'searched'
    if isinstance(p_, ast.Subscript) and p_.value is node:
        return 'subscripted'
    if isinstance(p_, ast.Call) and node in p_.args and isinstance(p_.func, ast.Name) and p_.func.id in ('len', 'iter', 'list', 'set', 'sorted', 'min', 'max', 'chain'):
        return 'passed to %s()' % p_.func.id
    return None


def _ext_types_of(t):
    """extension type constants of a getExtension value term (through if-then-else)"""
    if z3.is_app(t) and t.decl().name() == 'pure_getExtension_2':
        a = z3.simplify(t.arg(1))
        ints = [x for x in apps([a], lambda e: z3.is_int_value(e))]
        return set(x.as_long() for x in ints) or {None}
    if z3.is_app(t) and t.decl().kind() == z3.Z3_OP_ITE:
        return _ext_types_of(t.arg(1)) | _ext_types_of(t.arg(2))
    return set()


def make_deref_hooks(seen):
    def on_getattr(ex, v, name, st, fr, node):
        if isinstance(node, ast.Attribute) and isinstance(node.ctx, ast.Load) and is_ext_value(v.t) \
                and any((t, name) in NONE_FIELDS for t in _ext_types_of(v.t)):
            use = _needs_a_list(fr, node)
            if use:
                # C08: the list field of an extension is None when the peer sent the extension with an empty body:
                # iterating / searching / indexing it must be dominated by a test of the field (else TypeError)
                fld = attr_t(name, v.t)
                seen.append(src(node) + ':list')
                ob(ex, st, 'C08:extension-list-field-not-None-where-%s:%s' % (use.split()[0], site(
                    fr, node, lambda n: isinstance(n, ast.Attribute) and src(n) == src(node), src(node))),
                    z3.Implies(v.t != v_none, z3.Or(fld != v_none, v_truthy(fld))), kind='m2')
        # C08: an extension looked up in the ClientHello may be absent (None): every attribute access on it must
        # be dominated by a test (else AttributeError on peer-controlled input)
        if isinstance(node, ast.Attribute) and isinstance(node.ctx, ast.Load) and is_ext_value(v.t) \
                and name != 'getExtension':
            seen.append(src(node))
            ob(ex, st, 'C08:extension-present-at-attribute-access:%s' % site(
                fr, node, lambda n: isinstance(n, ast.Attribute) and src(n) == src(node), src(node)),
                z3.Implies(_ext_objects_truthy(st, v.t), v.t != v_none), kind='m2')

    def on_index(ex, base, idx, st, node):
        # C08: `X[0]` / `X[-1]` on a peer-supplied list must be dominated by a non-emptiness guard (IndexError)
        if isinstance(base, VOpaque) and isinstance(idx, VInt) and isinstance(node, ast.Subscript):
            k = z3.simplify(idx.t)
            if z3.is_int_value(k) and k.as_long() in (0, -1):
                seen.append(src(node))
                goal = z3.Or(v_truthy(base.t), V_LEN(base.t) >= 1)
                ob(ex, st, 'C08:list-non-empty-at-subscript:%s' % site(
                    ex.root_fr, node, lambda n: isinstance(n, ast.Subscript) and src(n) == src(node), src(node)),
                    z3.Implies(_container_lemmas(st, base.t), goal), kind='m2')
    return on_getattr, on_index


def _ext_objects_truthy(st, t):
    """extension objects are truthy (no __bool__ / __len__ in tlslite/extensions.py): not None => truthy"""
    fs = []
    for e in apps(list(st.pc) + [t], lambda e: e.decl().name() == 'pure_getExtension_2'):
        fs.append(z3.Implies(e != v_none, v_truthy(e)))
    return z3.And(fs + [z3.BoolVal(True)])


def _container_lemmas(st, base):
    """getExtension returns an element of self.extensions: a found extension means a non-empty list"""
    fs = []
    for e in apps(list(st.pc), lambda e: e.decl().name() == 'pure_getExtension_2'):
        f = e.arg(0)
        if z3.is_app(f) and f.decl().name() == 'v_attr_getExtension':
            fs.append(z3.Implies(e != v_none, v_truthy(attr_t('extensions', f.arg(0)))))
    return z3.And(fs + [z3.BoolVal(True)])


REG.note('C08', 'trusted', 'm2_server/dereferences: ClientHello.getExtension(t) returns None or an element of '
                           'self.extensions (so a found extension implies a non-empty extensions list); extension objects are truthy '
                           '(no __bool__/__len__ in tlslite/extensions.py); read')


def _t4():
    exits = Exits()
    seen = []
    on_getattr, on_index = make_deref_hooks(seen)
    spec = M2Spec(hooks={'_sendError': h_sendError, 'getFirstMatching': h_getFirstMatching, '_getMsg': h_getMsg_ch,
                         '_server_select_certificate': h_select_certificate},
                  pure=SGC_PURE | set(SUITE_GETTERS) | {'filterForVersion'}, on_yield=exits.on_yield)
    spec.on_getattr = on_getattr

    def on_index2(ex, base, idx, st, node):
        on_index(ex, base, idx, st, node)
    spec.on_index = on_index2
    spec.on_name = make_on_name({'selected_group', 'cl_key_share', 'cookie', 'name'})

    def check(api):
        from tlslite.errors import TLSLocalAlert
        entry = api.entry
        api.oblige(entry, 'cover:dereference-sites-seen', len(set(seen)) >= 10)
        api.oblige(entry, 'cover:exits-reached', len(exits.full) >= 1 and len(exits.resumed) >= 1)
        # every way out other than the two yields is a fatal alert (_sendError): C08 "documented exception types"
        k = 0
        for o in api.raise_exits():
            if o.val.cls is NoReturn:
                continue
            k += 1
            nm = getattr(o.val.cls, '__name__', str(o.val.cls))
            if nm == 'AttributeError' and 'decoder_error' in o.val.origin:
                # every AlertDescription.<name> used must exist on the live class
                api.unreachable(o.st, 'C08:AlertDescription-name-exists:%s' % o.val.origin.split()[1])
            elif nm == 'AssertionError' and 'raise' in o.val.origin:
                # `raise AssertionError()` for a non-resumable session: SessionCache.__getitem__ returns only
                # valid() sessions and _ticket_to_session creates resumable ones (assumption below)
                sess = o.st.env.get('session')
                api.oblige(o.st, 'C08:no-AssertionError-for-non-resumable-session',
                           z3.Implies(v_truthy(attr_t('resumable', T(sess))), z3.BoolVal(False)))
            elif nm == 'AssertionError':
                # `assert False`: no credentials at all -- excluded by the caller (_handshakeServerAsyncHelper
                # raises ValueError first) except for settings.virtual_hosts without a default certificate
                s = o.st.env['settings']
                pre = z3.Or(v_truthy(T(entry.env['verifierDB'])), v_truthy(T(entry.env['cert_chain'])),
                            v_truthy(T(entry.env['anon'])), v_truthy(attr_t('pskConfigs', T(s))),
                            v_truthy(attr_t('virtual_hosts', T(s))))
                api.oblige(o.st, 'C08:assert-False-unreachable-under-the-callers-credential-check', z3.Not(pre))
            else:
                api.unreachable(o.st, 'C08:no-undocumented-exception:%s:%s' % (nm, o.val.origin))
        api.oblige(entry, 'cover:non-alert-exits-examined', k >= 1)
        # exit facts the functions that receive this ClientHello rely on (contracts/m2_ext_none.py assumes them):
        # list fields of the extensions are not None (the extension is absent or was sent with a body)
        for j, (st, val) in enumerate(exits.full, 1):
            ch = T(val.items[0])

            def ext_of_(t_):
                return GETEXT(attr_t('getExtension', ch), v_int(z3.IntVal(int(t_))))
            ver = ext_of_(ExtensionType.supported_versions)
            tls13 = z3.And(ver != v_none, V_IN(tup(3, 4), attr_t('versions', ver)))
            for t_, fld, cond in EXIT_FACTS:
                e_ = ext_of_(t_)
                f_ = attr_t(fld, e_)
                goal = z3.Or(e_ == v_none, f_ != v_none, v_truthy(f_))
                api.oblige(st, 'C08:full-exit#%d:ClientHello-extension-%d.%s-is-not-None%s' % (j, t_, fld, '(TLS1.3-hello)' if cond else ''),
                           z3.Implies(_ext_objects_truthy(st, e_), z3.Implies(tls13, goal) if cond else goal))
    return spec, check


#: (extension type, list field, only for a hello that offers TLS 1.3 in supported_versions)
EXIT_FACTS = [(43, 'versions', False), (51, 'client_shares', False), (9, 'certTypes', False), (11, 'formats', False),
              (45, 'modes', True), (41, 'identities', True), (41, 'binders', True)]

_spec4, _check4 = _t4()
m2s('_serverGetClientHello/peer-controlled-dereferences', ('C08',), SGC, _spec4, check=_check4,
        setup=sgc_setup,
        doc='server: every attribute access on a ClientHello extension that may be absent and every [0]/[-1] on '
            'a peer-supplied list is dominated by a guard; every AlertDescription name exists; no exception other '
            'than the fatal-alert exit leaves')


# ---------------------------------------------------------------------------------------------------
# T5  resumption by session ID / TLS <= 1.2 ticket (C13)

def h_sendError_line(ex, recv, args, kwargs, st, fr, node):
    st.ghost['alert_line'] = VInt(z3.IntVal(getattr(node, 'lineno', 0)))
    return h_sendError(ex, recv, args, kwargs, st, fr, node)


def find_try_with_call(fnode, callee):
    for n in ast.walk(fnode):
        if isinstance(n, ast.Try):
            for m in ast.walk(ast.Module(body=n.body, type_ignores=[])):
                if isinstance(m, ast.Call) and isinstance(m.func, ast.Attribute) and m.func.attr == callee:
                    return n
    return None


def h_bytearray(ex, recv, args, kwargs, st, fr, node):
    """bytearray(text, 'utf-8') is a pure function of text (everything else: the builtin model)"""
    from pyvc.executor import Executor
    if len(args) == 2 and isinstance(args[1], VStr) and isinstance(args[0], VOpaque):
        return [Outcome('normal', st, VOpaque(UF('pure_bytearray_2', Val, Val, Val)(args[0].t, T(args[1]))))]
    try:
        return Executor.instantiate(ex, bytearray, args, kwargs, st, fr, node)
    except Unsupported:
        return [Outcome('normal', st, fresh_opaque('new_bytearray'))]


def _t5():
    exits = Exits()
    calls = {}

    def h_ticket_to_session(ex, recv, args, kwargs, st, fr, node):
        r = fresh_opaque('ticket_session')
        st.events.append(('_ticket_to_session', args, r))
        st.ghost['ticket_session'] = r
        calls['_ticket_to_session'] = r
        ob(ex, st, 'C13:_ticket_to_session-called-with-(settings, the session_ticket extension of this ClientHello)',
                  z3.And(T(args[0]) == T(st.env['settings']),
                         T(args[1]) == ext_of(st.ghost['ch1'], ExtensionType.session_ticket)), kind='m2')
        return [Outcome('normal', st, r)]

    def h_filter(ex, recv, args, kwargs, st, fr, node):
        r = fresh_opaque('candidate_suites')
        st.ghost['candidates'] = r
        return [Outcome('normal', st, r)]

    def _attached(ex, st, what):
        # C13/C17 (RFC 5246 7.2.2): a fatal alert during the abbreviated handshake must make the session non-resumable;
        # _shutdown(False) clears `resumable` of self.session, so the cached session has to be attached by now
        me = st.env['self']
        cur = st.heap.get((me.oid, 'session'))
        sess = st.env.get('session')
        ob(ex, st, 'C13:resumption:cached-session-attached-to-the-connection-before-%s(a-failure-invalidates-it)' % what,
           cur is not None and sess is not None and T(cur) == T(sess), kind='m2')

    def h_getFinished(ex, recv, args, kwargs, st, fr, node):
        _attached(ex, st, 'the-client-Finished-is-read')
        st.ghost['finished_secret'] = args[0]
        st.ghost['finished_checked'] = VBool(z3.BoolVal(True))
        ex.havoc_call('_getFinished', st)
        return [Outcome('normal', st, fresh_opaque('getFinished'))]

    def h_sendFinished(ex, recv, args, kwargs, st, fr, node):
        _attached(ex, st, 'the-server-Finished-is-sent')
        st.ghost['sent_finished_secret'] = args[0]
        ex.havoc_call('_sendFinished', st)
        return [Outcome('normal', st, fresh_opaque('sendFinished'))]

    def h_calcPending(ex, recv, args, kwargs, st, fr, node):
        st.ghost['pending_args'] = VTuple(list(args[:4]))
        ex.havoc_call('_calcPendingStates', st)
        return [Outcome('normal', st, VNone())]

    def h_create(ex, recv, args, kwargs, st, fr, node):
        if len(args) >= 7 and 'extensions' in kwargs:          # ServerHello.create(version, random, sid, suite, ...)
            st.ghost['sh_args'] = VTuple(list(args[:4]))
        return None

    def store_etm(ex, obj, val, st, fr, node):
        sess = st.env.get('session')
        if sess is not None:
            ob(ex, st, 'C13:record-layer-EtM-switched-on-only-from-the-stored-session',
                      v_truthy(attr_t('encryptThenMAC', T(sess))), kind='m2')
        st.ghost['etm_on'] = VBool(z3.BoolVal(True))

    spec = M2Spec(hooks={'_sendError': h_sendError_line, 'getFirstMatching': h_getFirstMatching, '_getMsg': h_getMsg_ch,
                         '_server_select_certificate': h_select_certificate, 'filterForVersion': h_filter,
                         '_ticket_to_session': h_ticket_to_session, '_getFinished': h_getFinished,
                         '_sendFinished': h_sendFinished, '_calcPendingStates': h_calcPending, 'create': h_create,
                         'bytearray': h_bytearray},
                  pure=SGC_PURE | set(SUITE_GETTERS), on_yield=exits.on_yield,
                  on_store={'encryptThenMAC': store_etm}, stable_fields={'session'})

    BA = UF('pure_bytearray_2', Val, Val, Val)

    def facts(st, ch):
        sess = T(st.env['session'])
        chs = T(ch)
        cand = st.ghost.get('candidates')
        utf8 = T(VStr('utf-8'))
        d = {
            'sess': sess,
            'found': v_truthy(sess),
            'resumable': v_truthy(attr_t('resumable', sess)),
            'in_cand': V_IN(attr_t('cipherSuite', sess), T(cand)) if cand is not None else z3.BoolVal(False),
            'in_client': V_IN(attr_t('cipherSuite', sess), attr_t('cipher_suites', chs)),
            'etm_sess': v_truthy(attr_t('encryptThenMAC', sess)),
            'etm_ch': v_truthy(ext_of(ch, ExtensionType.encrypt_then_mac)),
            'ems_sess': v_truthy(attr_t('extendedMasterSecret', sess)),
            'ems_ch': v_truthy(ext_of(ch, ExtensionType.extended_master_secret)),
            'sni_sent': v_truthy(attr_t('server_name', chs)),
            'sni_same': z3.And(v_truthy(attr_t('serverName', sess)),
                               attr_t('server_name', chs) == BA(attr_t('serverName', sess), utf8)),
            'srp_sent': v_truthy(attr_t('srp_username', chs)),
            'srp_same': z3.And(v_truthy(attr_t('srpUsername', sess)),
                               attr_t('srp_username', chs) == BA(attr_t('srpUsername', sess), utf8)),
        }
        return d

    def check(api):
        entry = api.entry
        me = entry.env['self']
        cache = T(entry.env['sessionCache'])
        api.oblige(entry, 'cover:resumed-exit-reached', len(exits.resumed) >= 1)
        api.oblige(entry, 'cover:full-exit-reached', len(exits.full) >= 1)
        for (st, val) in exits.resumed:
            ch = st.ghost['ch1']
            f = facts(st, ch)
            tick = st.ghost.get('ticket_session')
            src_ = [f['sess'] == V_GETITEM(cache, attr_t('session_id', T(ch)))]
            if tick is not None:
                src_.append(f['sess'] == T(tick))
            # C13: "resumed only from a session that completed ..., was issued under one of the server's ticket keys"
            api.oblige(st, 'C13:resumed:session-came-from-sessionCache[id]-or-from-_ticket_to_session', z3.Or(src_))
            api.oblige(st, 'C13:resumed:session-found-and-resumable', z3.And(f['found'], f['resumable']))
            api.oblige(st, 'C13:resumed:suite-still-among-the-servers-candidates', f['in_cand'])
            api.oblige(st, 'C13:resumed:suite-offered-in-this-ClientHello (RFC 5246 7.4.1.2)', f['in_client'])
            api.oblige(st, 'C13:resumed:server_name-sent-implies-equal-to-the-sessions (RFC 6066 3)',
                       z3.Implies(f['sni_sent'], f['sni_same']))
            api.oblige(st, 'C13:resumed:srp_username-sent-implies-equal-to-the-sessions',
                       z3.Implies(f['srp_sent'], f['srp_same']))
            api.oblige(st, 'C13:resumed:EtM-session-only-with-EtM-in-ClientHello (RFC 7366)',
                       z3.Implies(f['etm_sess'], f['etm_ch']))
            api.oblige(st, 'C13:resumed:EMS-of-session-equals-EMS-of-ClientHello (RFC 7627 5.3)',
                       f['ems_sess'] == f['ems_ch'])
            # O-resumed-equals-original
            sess = f['sess']
            sh = st.ghost.get('sh_args')
            pa = st.ghost.get('pending_args')
            ok = sh is not None and pa is not None and isinstance(sh, VTuple) and isinstance(pa, VTuple)
            api.oblige(st, 'C13:resumed:ServerHello-and-pending-state-built', bool(ok))
            if ok:
                api.oblige(st, 'C13:resumed:ServerHello-carries-the-sessions-suite-and-the-negotiated-version',
                           z3.And(T(sh.items[3]) == attr_t('cipherSuite', sess), T(sh.items[0]) == T(st.env['version'])))
                api.oblige(st, 'C13:resumed:keys-from-the-sessions-suite-and-master-secret-and-both-hello-randoms',
                           z3.And(T(pa.items[0]) == attr_t('cipherSuite', sess),
                                  T(pa.items[1]) == attr_t('masterSecret', sess),
                                  T(pa.items[2]) == attr_t('random', T(ch))))
            fin = st.ghost.get('finished_secret')
            api.oblige(st, 'C13:resumed:client-Finished-checked-under-the-sessions-master-secret-before-the-exit',
                       z3.And(truthy(api.ghost(st, 'finished_checked')),
                              fin is not None and T(fin) == attr_t('masterSecret', sess)))
            api.oblige(st, 'C13:resumed:EtM-of-the-connection-is-the-sessions',
                       truthy(api.ghost(st, 'etm_on')) == f['etm_sess'])
            cur = st.heap.get((me.oid, 'session'))
            api.oblige(st, 'C13:resumed:connection-session-is-the-stored-session',
                       cur is not None and T(cur) == sess)
        # declines never break the connection: every fatal alert raised inside the resumption `try` happens with
        # a session that was found, is resumable and acceptable -- and for one of the RFC-mandated reasons
        fnode = api.fr.fs.node
        tr = find_try_with_call(fnode, '_ticket_to_session')
        api.oblige(entry, 'C13:declines:resumption-try-has-`except KeyError: pass`',
                   tr is not None and any(isinstance(h.type, ast.Name) and h.type.id == 'KeyError'
                                          and len(h.body) == 1 and isinstance(h.body[0], ast.Pass)
                                          for h in tr.handlers))
        inside = lambda n: tr is not None and tr.lineno <= getattr(n, 'lineno', 0) <= tr.end_lineno
        subs = [n for n in ast.walk(fnode) if isinstance(n, ast.Subscript) and isinstance(n.value, ast.Name)
                and n.value.id == 'sessionCache']
        api.oblige(entry, 'C13:declines:sessionCache-lookup-(KeyError)-is-inside-that-try',
                   len(subs) >= 1 and all(inside(n) for n in subs))
        api.oblige(entry, 'C13:declines:no-KeyError-leaves-the-function', len(api.raise_exits(KeyError)) == 0)
        n_in = 0
        for o in api.raise_exits(NoReturn):
            st = o.st
            ln = st.ghost.get('alert_line')
            ln = z3.simplify(ln.t).as_long() if isinstance(ln, VInt) and z3.is_int_value(z3.simplify(ln.t)) else 0
            if tr is None or not (tr.lineno <= ln <= tr.end_lineno):
                continue
            n_in += 1
            f = facts(st, st.ghost['ch1'])
            desc = o.val.args[0]
            api.oblige(st, 'C13:declines:alert-inside-resumption-only-for-a-found-resumable-acceptable-session',
                       z3.And(f['found'], f['resumable'], f['in_cand']))
            if is_const_int(desc, AlertDescription.illegal_parameter):
                api.oblige(st, 'C13:declines:illegal_parameter-only-for-suite-not-offered-or-EtM-dropped',
                           z3.Or(z3.Not(f['in_client']), z3.And(f['etm_sess'], z3.Not(f['etm_ch']))))
            elif is_const_int(desc, AlertDescription.handshake_failure):
                api.oblige(st, 'C13:declines:handshake_failure-only-for-name-mismatch-or-EMS-dropped (RFC 7627 5.3)',
                           z3.Or(z3.And(f['ems_sess'], z3.Not(f['ems_ch'])),
                                 z3.And(f['sni_sent'], z3.Not(f['sni_same'])),
                                 z3.And(f['srp_sent'], z3.Not(f['srp_same']))))
            else:
                api.oblige(st, 'C13:declines:no-other-alert-inside-the-resumption-block', False)
        api.oblige(entry, 'cover:alerts-inside-resumption-block-examined', n_in >= 4)
        # a session without EMS offered with an EMS ClientHello is not resumed and not aborted: full handshake
        # (RFC 7627 5.3) -- covered by `EMS-of-session-equals-EMS-of-ClientHello` on the resumed exit together
        # with `handshake_failure-only-for-...` (no alert for that case)
    return spec, check


REG.note('C13', 'trusted', 'm2_server/resumption: the field `session` of the connection is not assigned by _sendFinished / _getFinished '
                           'and what they call (direct store sites of `.session =`: TLSRecordLayer.__init__, the two handshake helpers, '
                           'the two TLS 1.3 handshake functions, _clientResume, _serverGetClientHello; read)')
_spec5, _check5 = _t5()
m2s('_serverGetClientHello/resumption', ('C13', 'C17'), SGC, _spec5, check=_check5, setup=sgc_setup,
        doc='server, session-ID and TLS<=1.2 ticket resumption: the abbreviated exit is reached only with a found, '
            'resumable session whose suite is still acceptable and offered, with SNI/SRP/EtM/EMS consistent, keys '
            'and ServerHello from the stored session; declines fall through to the full handshake')
REG.note('C13', 'trusted', 'm2_server/resumption: SessionCache.__getitem__ returns only valid() (resumable, '
                           'unexpired) sessions or raises KeyError (contracts/sessioncache.py, C18); '
                           'Session.create(...) sets resumable=True (session.py, read)')


# ---------------------------------------------------------------------------------------------------
# T6  HelloRetryRequest (C04; RFC 8446 4.1.2, 4.1.4, 4.2.2, 4.2.8)

def _t6():
    exits = Exits()
    seen = {'insert': 0}

    def h_sendMsgs(ex, recv, args, kwargs, st, fr, node):
        st.ghost['hrr_sent'] = VBool(z3.BoolVal(True))
        st.ghost['group_at_hrr'] = st.env.get('selected_group')
        ex.havoc_call('_sendMsgs', st)
        return [Outcome('normal', st, fresh_opaque('sendMsgs'))]

    def h_insert(ex, recv, args, kwargs, st, fr, node):
        k = site(fr, node, lambda n: isinstance(n, ast.Call) and isinstance(n.func, ast.Attribute)
                 and n.func.attr == 'insert', 'insert')
        if k == 'insert#1' and len(args) == 2:
            seen['insert'] += 1
            ext = T(args[1])
            cookie = st.env.get('cookie')
            st.ghost['cookie_echoed'] = VBool(z3.And(
                attr_t('extType', ext) == v_int(z3.IntVal(ExtensionType.cookie)),
                attr_t('extData', ext) == attr_t('extData', T(cookie))))
        return None

    def h_create(ex, recv, args, kwargs, st, fr, node):
        # TLSExtension.create returns self, an object without __bool__/__len__: truthy
        if src(node).startswith('cookie.create('):
            r = fresh_opaque('cookie_ext')
            st.assume(v_truthy(r.t))
            return [Outcome('normal', st, r)]
        return None

    spec = M2Spec(hooks={'_sendError': h_sendError, 'getFirstMatching': h_getFirstMatching, '_getMsg': h_getMsg_ch,
                         '_server_select_certificate': h_select_certificate, '_sendMsgs': h_sendMsgs,
                         'insert': h_insert, 'create': h_create},
                  pure=SGC_PURE | set(SUITE_GETTERS) | {'filterForVersion'}, on_yield=exits.on_yield)

    def check(api):
        entry = api.entry
        api.oblige(entry, 'cover:full-exit-reached', len(exits.full) >= 1)
        api.oblige(entry, 'cover:cookie-site-reached', seen['insert'] >= 1)
        for (st, val) in exits.full:
            hrr = truthy(api.ghost(st, 'hrr_sent'))
            ch1 = gv(st.ghost, 'ch1')
            ch2g = st.ghost.get('ch2')
            if ch2g is None:
                api.oblige(st, 'C04:hrr:second-ClientHello-read', False)
                continue
            ch2 = T(ch2g)
            ks2 = GETEXT(attr_t('getExtension', ch2), v_int(z3.IntVal(ExtensionType.key_share)))
            shares = attr_t('client_shares', ks2)
            grp = st.ghost.get('group_at_hrr')
            api.oblige(st, 'C04:hrr:handshake-continues-with-the-second-ClientHello',
                       z3.Implies(hrr, T(val.items[0]) == ch2))
            # RFC 8446 4.1.2: the second ClientHello must be the first one except for the listed changes
            # (the comparison is `clientHello1 != clientHello` on the edited first hello: its outcome is the ghost fact)
            api.oblige(st, 'C04:hrr:second-ClientHello-equals-the-(updated)-first-or-abort',
                       z3.Implies(hrr, truthy(api.ghost(st, 'last_unknown_compare'))))
            # RFC 8446 4.2.2: the cookie must be echoed
            api.oblige(st, 'C04:hrr:cookie-echoed-unchanged', z3.Implies(hrr, truthy(api.ghost(st, 'cookie_echoed'))))
            # RFC 8446 4.2.8: exactly one share, for the group the server asked for
            api.oblige(st, 'C04:hrr:exactly-one-key-share-in-the-second-ClientHello',
                       z3.Implies(hrr, z3.And(ks2 != v_none, V_LEN(shares) == 1)))
            api.oblige(st, 'C04:hrr:key-share-group-is-the-requested-one',
                       z3.Implies(hrr, grp is not None and attr_t('group', V_GETITEM(shares, v_int(z3.IntVal(0)))) == T(grp)))
            # no second HelloRetryRequest: the function has a single _sendMsgs site (RFC 8446 4.1.4)
        n_send = len([n for n in ast.walk(api.fr.fs.node) if isinstance(n, ast.Call)
                      and isinstance(n.func, ast.Attribute) and n.func.attr == '_sendMsgs'])
        loops = [n for n in ast.walk(api.fr.fs.node) if isinstance(n, (ast.For, ast.While))
                 and any(isinstance(m, ast.Call) and isinstance(m.func, ast.Attribute) and m.func.attr == '_sendMsgs'
                         for b in n.body for m in ast.walk(b))]
        api.oblige(entry, 'C04:hrr:at-most-one-HelloRetryRequest (single send site, not in a loop)',
                   n_send == 1 and len(loops) == 0)
    return spec, check


_spec6, _check6 = _t6()
m2s('_serverGetClientHello/hello-retry', ('C04',), SGC, _spec6, check=_check6, setup=sgc_setup,
    doc='server, HelloRetryRequest: the handshake continues only with a second ClientHello that equals the first '
        '(modulo the changes applied to the stored copy), echoes the cookie, and carries exactly one key share for '
        'the requested group')
REG.note('C04', 'not_built', 'm2_server/hello-retry: that the edits applied to the stored first ClientHello before '
                             'the comparison are exactly the changes RFC 8446 4.1.2 allows (key_share, cookie, '
                             'padding, pre_shared_key, early_data) is not proved -- list mutations are opaque in M2; '
                             'the synthetic message_hash transcript is not modelled')


# ===================================================================================================
# _handshakeServerAsyncHelper
# ===================================================================================================

HSH = TC + '_handshakeServerAsyncHelper'
HSH_PURE = {'getExtension', 'decode', 'len', 'isinstance', '_curveNamesToList', '_groupNamesToList', 'getattr', 'str'}


def hsh_hooks(rec):
    """hooks shared by the helper tasks; `rec` collects python-level facts"""
    def h_sgc(ex, recv, args, kwargs, st, fr, node):
        r = fresh_opaque('sgc_result')
        st.ghost['sgc_result'] = r
        st.ghost['settings_used'] = args[0]
        ex.havoc_call('_serverGetClientHello', st)
        return [Outcome('normal', st, r)]

    def h_sub(name):
        def h(ex, recv, args, kwargs, st, fr, node):
            r = fresh_opaque(name + '_result')
            st.ghost[name + '_result'] = r
            st.ghost[name + '_args'] = VTuple(list(args))
            ex.havoc_call(name, st)
            return [Outcome('normal', st, r)]
        return h

    def h_handshakeDone(ex, recv, args, kwargs, st, fr, node):
        rec.setdefault('done', []).append((st.fork(), kwargs.get('resumed')))
        ex.havoc_call('_handshakeDone', st)
        return [Outcome('normal', st, VNone())]

    def h_pending_etm(ex, recv, args, kwargs, st, fr, node):
        r = fresh_opaque('pending_etm')
        st.ghost['pending_etm'] = r
        return [Outcome('normal', st, r)]

    return {'_sendError': h_sendError, '_serverGetClientHello': h_sgc,
            '_serverTLS13Handshake': h_sub('_serverTLS13Handshake'),
            '_serverCertKeyExchange': h_sub('_serverCertKeyExchange'),
            '_serverSRPKeyExchange': h_sub('_serverSRPKeyExchange'),
            '_serverAnonKeyExchange': h_sub('_serverAnonKeyExchange'),
            '_serverFinished': h_sub('_serverFinished'),
            '_handshakeDone': h_handshakeDone, '_get_pending_state_etm': h_pending_etm}


def sgc_item(st, k):
    return V_GETITEM(gv(st.ghost, 'sgc_result'), v_int(z3.IntVal(k)))


# ---------------------------------------------------------------------------------------------------
# T7  downgrade sentinel in the full-handshake ServerHello (C04; RFC 8446 4.1.3)

def _t7():
    from tlslite.constants import TLS_1_2_DOWNGRADE_SENTINEL, TLS_1_1_DOWNGRADE_SENTINEL
    rec = {'creates': 0, 'stores': 0}

    def on_sub_store(ex, base, tgt, val, st, fr):
        sl = tgt.slice
        tail8 = isinstance(sl, ast.Slice) and sl.upper is None and src(sl.lower) == '-8'
        which = None
        from pyvc.executor import lift_py
        for nm, c in (('12', TLS_1_2_DOWNGRADE_SENTINEL), ('11', TLS_1_1_DOWNGRADE_SENTINEL)):
            try:
                if z3.is_true(z3.simplify(eq_op(val, lift_py(c)).t)):
                    which = nm
            except Exception:
                pass
        if which is None:
            return
        rec['stores'] += 1
        ob(ex, st, 'C04:sentinel%s:written-into-the-last-8-bytes' % which, z3.BoolVal(bool(tail8)), kind='m2')
        st.ghost['sentinel' + which] = VBool(z3.BoolVal(True))
        st.ghost['sentinel_base'] = base

    def h_create(ex, recv, args, kwargs, st, fr, node):
        if not (len(args) == 7 and 'extensions' in kwargs):
            return None
        rec['creates'] += 1
        settings = st.ghost['settings_used']
        maxv = attr_t('maxVersion', T(st.env['settings']))
        v = sgc_item(st, 1)
        s12 = truthy(ex.ghost_get(st, 'sentinel12'))
        s11 = truthy(ex.ghost_get(st, 'sentinel11'))
        base = st.ghost.get('sentinel_base')
        # RFC 8446 4.1.3: a TLS 1.3 server negotiating TLS 1.2 MUST set DOWNGRD\\x01; a server supporting TLS 1.2
        # or 1.3 negotiating TLS 1.1 or below MUST / SHOULD set DOWNGRD\\x00; otherwise the random is random
        oblige_ordered(ex, st, 'C04:ServerHello:TLS1.2-sentinel-iff-version==(3,3)-and-maxVersion>(3,3)',
                       s12 == z3.And(v == tup(3, 3), CMP['gt'](maxv, tup(3, 3))))
        oblige_ordered(ex, st, 'C04:ServerHello:TLS1.1-sentinel-iff-version<(3,3)-and-maxVersion>=(3,3)',
                       s11 == z3.And(CMP['lt'](v, tup(3, 3)), CMP['ge'](maxv, tup(3, 3))))
        ob(ex, st, 'C04:ServerHello:the-random-sent-is-the-buffer-the-sentinel-was-written-to',
                  z3.Implies(z3.Or(s12, s11), base is not None and T(base) == T(args[1])), kind='m2')
        ob(ex, st, 'C04:ServerHello:maxVersion-is-the-validated-settings-handed-to-_serverGetClientHello',
                  T(settings) == T(st.env['settings']), kind='m2')
        return None

    hooks = hsh_hooks(rec)
    hooks['create'] = h_create
    spec = M2Spec(hooks=hooks, pure=HSH_PURE)
    spec.on_subscript_store = on_sub_store

    def check(api):
        api.oblige(api.entry, 'cover:ServerHello.create-reached', rec['creates'] >= 1)
        api.oblige(api.entry, 'cover:both-sentinel-stores-reached', rec['stores'] >= 2)
    return spec, check


_spec7, _check7 = _t7()
m2s('_handshakeServerAsyncHelper/downgrade-sentinel', ('C04',), HSH, _spec7, check=_check7,
    doc='server full handshake: the downgrade sentinels are written into ServerHello.random under exactly the '
        'RFC 8446 4.1.3 conditions on (negotiated version, settings.maxVersion)')


# ---------------------------------------------------------------------------------------------------
# T8  what is recorded at completion (C03, C05, C13)

def _t8():
    rec = {'session_create': 0, 'cache_store': 0, 'etm_store': 0, 'ems_store': 0}

    def h_create(ex, recv, args, kwargs, st, fr, node):
        if 'encryptThenMAC' not in kwargs or 'tickets' not in kwargs:
            return None
        rec['session_create'] += 1
        me = st.env['self']
        ch = sgc_item(st, 0)
        suite = sgc_item(st, 2)
        ob(ex, st, 'C03:session:cipher-suite-is-the-negotiated-one', T(args[2]) == suite, kind='m2')
        pe = st.ghost.get('pending_etm')
        # the ticket / session is written before ChangeCipherSpec: the negotiated EtM lives in the PENDING state
        ob(ex, st, 'C03:session:encryptThenMAC-is-the-pending-states-value',
                  pe is not None and T(kwargs['encryptThenMAC']) == T(pe), kind='m2')
        ems = st.heap.get((me.oid, 'extendedMasterSecret'))
        ob(ex, st, 'C03:session:extendedMasterSecret-is-the-connections-flag',
                  ems is not None and T(kwargs['extendedMasterSecret']) == T(ems), kind='m2')
        ob(ex, st, 'C03:session:appProto-is-the-selected-ALPN-protocol',
                  T(kwargs['appProto']) == T(st.env['selectedALPN']), kind='m2')
        # C05: the client chain recorded is what _serverCertKeyExchange verified (or none)
        cke = st.ghost.get('_serverCertKeyExchange_result')
        from_cke = z3.BoolVal(False) if cke is None else \
            z3.And(truthy(VBool(z3.BoolVal(True))), T(args[4]) == V_GETITEM(T(cke), v_int(z3.IntVal(1))))
        ob(ex, st, 'C05:session:clientCertChain-is-None-or-the-chain-returned-by-_serverCertKeyExchange',
                  z3.Or(T(args[4]) == v_none, from_cke), kind='m2')
        # C05/C03: server chain recorded only for certificate suites and then the selected chain
        ob(ex, st, 'C03:session:serverCertChain-is-None-or-the-selected-chain',
                  z3.Or(T(args[5]) == v_none, T(args[5]) == T(st.env['cert_chain'])), kind='m2')
        # RFC 7627 5.4: requireExtendedMasterSecret without the client's extension must have aborted
        s = T(st.env['settings'])
        ems_ext = GETEXT(attr_t('getExtension', ch), v_int(z3.IntVal(ExtensionType.extended_master_secret)))
        ob(ex, st, 'C03:session:requireExtendedMasterSecret-implies-EMS-negotiated',
                  z3.Implies(z3.And(v_truthy(attr_t('useExtendedMasterSecret', s)),
                                    v_truthy(attr_t('requireExtendedMasterSecret', s))), v_truthy(ems_ext)), kind='m2')
        return None

    def store_ems(ex, obj, val, st, fr, node):
        if not isinstance(obj, VObj):
            return
        rec['ems_store'] += 1
        ch = sgc_item(st, 0)
        s = T(st.env['settings'])
        ems_ext = GETEXT(attr_t('getExtension', ch), v_int(z3.IntVal(ExtensionType.extended_master_secret)))
        ob(ex, st, 'C03:extendedMasterSecret-set-only-if-enabled-and-offered (RFC 7627)',
                  z3.And(v_truthy(attr_t('useExtendedMasterSecret', s)), v_truthy(ems_ext)), kind='m2')

    def store_etm(ex, obj, val, st, fr, node):
        rec['etm_store'] += 1
        ch = sgc_item(st, 0)
        suite = sgc_item(st, 2)
        s = T(st.env['settings'])
        etm_ext = GETEXT(attr_t('getExtension', ch), v_int(z3.IntVal(ExtensionType.encrypt_then_mac)))
        # RFC 7366 3: only for block (CBC) suites; VPy containers give concrete membership disjunctions
        in_stream = ex.contains(VPy(CipherSuite.streamSuites), VOpaque(suite), st).t
        in_aead = ex.contains(VPy(CipherSuite.aeadSuites), VOpaque(suite), st).t
        ob(ex, st, 'C03:encryptThenMAC-set-only-if-enabled-offered-and-CBC-suite (RFC 7366)',
                  z3.And(v_truthy(attr_t('useEncryptThenMAC', s)), v_truthy(etm_ext),
                         z3.Not(in_stream), z3.Not(in_aead)), kind='m2')

    def on_sub_store(ex, base, tgt, val, st, fr):
        if src(tgt.value) != 'sessionCache':
            return
        rec['cache_store'] += 1
        me = st.env['self']
        cur = st.heap.get((me.oid, 'session'))
        # C13: only a session whose handshake completed (both Finished exchanged) may become resumable by ID
        ob(ex, st, 'C13:sessionCache-store-only-after-_serverFinished-returned',
                  z3.BoolVal('_serverFinished_result' in st.ghost), kind='m2')
        ob(ex, st, 'C13:sessionCache-stores-the-connections-session-under-the-ServerHello-session-id',
                  z3.And(cur is not None and T(val) == T(cur), T(st.env['sessionID']) ==
                         T(ex.eval(tgt.slice, st.fork(), fr)[0].val)), kind='m2')

    hooks = hsh_hooks(rec)
    hooks['create'] = h_create
    spec = M2Spec(hooks=hooks, pure=HSH_PURE, on_store={'extendedMasterSecret': store_ems,
                                                      'encryptThenMAC': store_etm},
                  stable_fields={'extendedMasterSecret', 'session'})
    spec.on_subscript_store = on_sub_store

    def check(api):
        entry = api.entry
        for k in rec:
            if k != 'done':
                api.oblige(entry, 'cover:site-reached:%s' % k, rec[k] >= 1)
        done = rec.get('done', [])
        api.oblige(entry, 'cover:three-_handshakeDone-sites', len(done) >= 3)
        for (st, resumed) in done:
            r = z3.simplify(truthy(resumed)) if resumed is not None else None
            if r is not None and z3.is_true(r):
                api.oblige(st, 'C13:handshakeDone(resumed=True)-only-after-_serverGetClientHello-signalled-resumption',
                           gv(st.ghost, 'sgc_result') == v_none)
            else:
                fin = '_serverFinished_result' in st.ghost
                t13 = st.ghost.get('_serverTLS13Handshake_result')
                api.oblige(st, 'C04:handshakeDone(resumed=False)-only-after-_serverFinished-or-TLS1.3-"finished"',
                           z3.Or(z3.BoolVal(fin), t13 is not None and T(t13) == T(VStr('finished'))))
    return spec, check


_spec8, _check8 = _t8()
m2s('_handshakeServerAsyncHelper/completion-record', ('C03', 'C05', 'C13', 'C04'), HSH, _spec8, check=_check8,
    doc='server full handshake (<= TLS 1.2): session fields are the negotiated values (suite, EtM of the pending '
        'state, EMS flag, ALPN, chains); EtM/EMS switched on only if enabled and offered; the session is cached and '
        'the handshake reported done only after _serverFinished returned')
REG.note('C03', 'trusted', 'm2_server/helper: fields extendedMasterSecret and session of the connection are not '
                           'assigned by the key-exchange sub-coroutines between their stores in the helper and '
                           'Session.create (direct store sites: _handshakeStart, helper, _serverTLS13Handshake; read)')


# ---------------------------------------------------------------------------------------------------
# T8b  key-exchange class and sub-flow dispatch by the negotiated suite (C20; suites classified by the IANA name)

def _t8b():
    from specs import iana
    table = iana.table(CipherSuite.ietfNames)
    dom = dict((i, x) for i, x in table.items() if x.kind == 'tls' and iana.negotiable(x))
    assert len(dom) >= 60
    rec = {'kx': 0, 'flows': 0}

    def pred(p):
        ids = sorted(i for i, x in dom.items() if p(x))
        return lambda t: z3.Or([t == v_int(z3.IntVal(i)) for i in ids] + [z3.BoolVal(False)])
    P_DOM = pred(lambda x: True)
    CLASSES = {
        # class name -> (IANA condition, text)
        'RSAKeyExchange': pred(lambda x: x.kx == 'RSA'),
        'DHE_RSAKeyExchange': pred(lambda x: x.kx == 'DHE' and x.auth in ('RSA', 'DSS')),
        'ECDHE_RSAKeyExchange': pred(lambda x: x.kx == 'ECDHE' and x.auth in ('RSA', 'ECDSA')),
        'ADHKeyExchange': pred(lambda x: x.kx == 'DHE' and x.auth == 'anon'),
        'AECDHKeyExchange': pred(lambda x: x.kx == 'ECDHE' and x.auth == 'anon'),
    }
    FLOWS = {
        '_serverSRPKeyExchange': (pred(lambda x: x.kx == 'SRP'), 3, None),
        '_serverCertKeyExchange': (pred(lambda x: x.kx in ('RSA', 'DHE', 'ECDHE') and x.auth in ('RSA', 'DSS', 'ECDSA')), 7, 4),
        '_serverAnonKeyExchange': (pred(lambda x: x.auth == 'anon'), 2, 1),
    }

    def mk_class(cname):
        def h(ex, recv, args, kwargs, st, fr, node):
            rec['kx'] += 1
            suite = sgc_item(st, 2)
            s = T(st.env['cipherSuite'])
            ob(ex, st, 'C20:kx:%s-built-only-for-suites-whose-IANA-name-says-so' % cname,
               z3.Implies(z3.And(s == suite, P_DOM(s)), CLASSES[cname](s)))
            ob(ex, st, 'C20:kx:%s-built-for(negotiated-suite,received-ClientHello,ServerHello-being-sent)' % cname,
               z3.And(s == suite, T(args[0]) == s, T(args[1]) == T(st.env['clientHello']),
                      T(args[2]) == T(st.env['serverHello'])))
            # C03 "group/DH size ... lies inside what each side's own HandshakeSettings allow": the finite-field key exchanges
            # get the server's dhParams and RFC 7919 group list, the EC ones the accepted curves and the default curve
            sset = T(st.env['settings'])
            glist = z3.Function('pure__groupNamesToList_2', Val, Val, Val)(attr_t('_groupNamesToList', T(st.env['self'])), sset)
            if cname in ('DHE_RSAKeyExchange', 'ADHKeyExchange'):
                k0 = 4 if cname == 'DHE_RSAKeyExchange' else 3
                ob(ex, st, 'C03:kx:%s-gets-settings.dhParams-and-the-RFC7919-groups-of-the-settings' % cname,
                   len(args) == k0 + 2 and z3.And(T(args[k0]) == attr_t('dhParams', sset), T(args[k0 + 1]) == T(st.env['dhGroups'])
                                                  if 'dhGroups' in st.env else z3.BoolVal(False)))
            if cname in ('ECDHE_RSAKeyExchange', 'AECDHKeyExchange'):
                k0 = 4 if cname == 'ECDHE_RSAKeyExchange' else 3
                ob(ex, st, 'C03:kx:%s-gets-the-accepted-curves-and-the-default-curve-of-the-settings' % cname,
                   len(args) == k0 + 2 and z3.And(T(args[k0]) == T(st.env['acceptedCurves']) if 'acceptedCurves' in st.env else z3.BoolVal(False),
                                                  T(args[k0 + 1]) == T(st.env['defaultCurve']) if 'defaultCurve' in st.env else z3.BoolVal(False)))
            r = fresh_opaque('keyExchange_' + cname)
            st.ghost['kx_obj'] = r
            return [Outcome('normal', st, r)]
        return h

    def mk_flow(fname):
        p, suite_ix, kx_ix = FLOWS[fname]

        def h(ex, recv, args, kwargs, st, fr, node):
            rec['flows'] += 1
            suite = sgc_item(st, 2)
            s = T(st.env['cipherSuite'])
            ob(ex, st, 'C20:flow:%s-entered-only-for-suites-whose-IANA-name-says-so' % fname,
               z3.Implies(z3.And(s == suite, P_DOM(s)), p(s)))
            ob(ex, st, 'C20:flow:%s-gets-the-negotiated-suite' % fname,
               len(args) > suite_ix and z3.And(s == suite, T(args[suite_ix]) == s))
            if kx_ix is not None:
                ko = st.ghost.get('kx_obj')
                ob(ex, st, 'C20:flow:%s-gets-the-key-exchange-object-dispatched-for-the-suite' % fname,
                   ko is not None and len(args) > kx_ix and T(args[kx_ix]) == T(ko))
            r = fresh_opaque(fname + '_result')
            st.ghost[fname + '_result'] = r
            ex.havoc_call(fname, st)
            return [Outcome('normal', st, r)]
        return h

    hooks = hsh_hooks(rec)
    for c in CLASSES:
        hooks[c] = mk_class(c)
    for f in FLOWS:
        hooks[f] = mk_flow(f)
    spec = M2Spec(hooks=hooks, pure=HSH_PURE)

    def check(api):
        api.oblige(api.entry, 'cover:five-key-exchange-constructor-sites-reached', rec['kx'] >= 5)
        api.oblige(api.entry, 'cover:three-key-exchange-sub-flows-reached', rec['flows'] >= 3)
    return spec, check


_spec8b, _check8b = _t8b()
m2s('_handshakeServerAsyncHelper/key-exchange-dispatch', ('C20', 'C03'), HSH, _spec8b, check=_check8b,
    doc='server (<= TLS 1.2): the KeyExchange class instantiated and the key-exchange sub-flow entered are those the '
        'IANA name of the negotiated suite denotes (RSA / DHE_RSA|DSS / ECDHE_RSA|ECDSA / DH_anon / ECDH_anon / SRP), '
        'and they are built for the negotiated suite and the two hellos of this handshake')


# ===================================================================================================
# _server_select_certificate (C03)
# ===================================================================================================

def _t9():
    subsets = []        # (result term, input term): every element of result is an element of input
    rec = {'append': 0, 'returns': 0}

    def h_filter(ex, recv, args, kwargs, st, fr, node):
        """CipherSuite.filter_for_certificate / filter_for_prfs return a subsequence of their first argument
        (contracts/suites.py O-filter-order)"""
        r = fresh_opaque('filtered')
        subsets.append((r.t, T(args[0])))
        st.events.append((node.func.attr, args, r))
        if node.func.attr == 'filter_for_certificate':
            # C20: the suites kept are those whose authentication type fits THE certificate that will be presented with
            # them (the pair under examination), not some other chain of the server
            cur = st.env.get('cert')
            ob(ex, st, 'C20:suites-filtered-for-the-certificate-of-the-examined-(cert,key)-pair',
               cur is not None and len(args) >= 2 and T(args[1]) == T(cur), kind='m2')
        return [Outcome('normal', st, r)]

    def lemma(c):
        return z3.And([z3.Implies(V_IN(c, a), V_IN(c, b)) for (a, b) in subsets] + [z3.BoolVal(True)])

    def goal_for(st, c, entry):
        return z3.Implies(lemma(c), z3.And(V_IN(c, T(entry.env['cipher_suites'])),
                                           V_IN(c, attr_t('cipher_suites', T(entry.env['client_hello'])))))

    holder = {}

    def h_append(ex, recv, args, kwargs, st, fr, node):
        if not (isinstance(node.func.value, ast.Name) and node.func.value.id == 'possible_certs'):
            return None
        rec['append'] += 1
        tup_ = args[0]
        ok = isinstance(tup_, VTuple) and len(tup_.items) == 4
        ob(ex, st, 'C03:fallback-candidate-is-a-(cipher, scheme, cert, key)-tuple', z3.BoolVal(ok), kind='m2')
        if ok:
            ob(ex, st, 'C03:fallback-candidate-cipher-in-candidates-and-in-ClientHello',
                      goal_for(st, T(tup_.items[0]), holder['entry']), kind='m2')
            ob(ex, st, 'C03:fallback-candidate-cert-and-key-are-the-pair-being-examined',
                      z3.And(T(tup_.items[2]) == T(st.env['cert']), T(tup_.items[3]) == T(st.env['key'])), kind='m2')
        return [Outcome('normal', st, VNone())]

    def setup(ex, st, fr):
        holder['entry'] = st.fork()

    spec = M2Spec(hooks={'filter_for_certificate': h_filter, 'filter_for_prfs': h_filter, 'append': h_append},
                  pure={'getExtension', 'getEndEntityPublicKey', 'toRepr', 'len', 'items', 'any'})
    spec.refine_loops = True
    spec.loop_elem_facts = True

    def check(api):
        entry = api.entry
        rets = [o for o in api.outs if o.kind == 'return']
        direct = [o for o in rets if isinstance(o.val, VTuple)]
        api.oblige(entry, 'cover:direct-return-and-fallback-return-reached', len(direct) >= 1 and len(rets) > len(direct))
        api.oblige(entry, 'cover:fallback-append-site-reached', rec['append'] >= 1)
        for o in direct:
            api.oblige(o.st, 'C03:returned-cipher-in-candidates-and-in-ClientHello',
                       goal_for(o.st, T(o.val.items[0]), entry))
            api.oblige(o.st, 'C03:returned-cert-and-key-are-the-examined-pair',
                       z3.And(T(o.val.items[2]) == T(o.st.env['cert']), T(o.val.items[3]) == T(o.st.env['key'])))
        # the fallback `return possible_certs[0]`: possible_certs is only ever initialised empty, appended to at the
        # site checked above, tested and read (so its first element satisfies the append-site obligations)
        uses = [n for n in ast.walk(api.fr.fs.node) if isinstance(n, ast.Name) and n.id == 'possible_certs']
        stores = [n for n in uses if isinstance(n.ctx, ast.Store)]
        calls = [n for n in ast.walk(api.fr.fs.node) if isinstance(n, ast.Call) and isinstance(n.func, ast.Attribute)
                 and isinstance(n.func.value, ast.Name) and n.func.value.id == 'possible_certs']
        api.oblige(entry, 'C03:fallback-list-is-only-initialised-empty-and-appended-to-at-one-site',
                   len(stores) == 1 and len(calls) == 1 and calls[0].func.attr == 'append')
        for o in api.raise_exits():
            nm = getattr(o.val.cls, '__name__', '')
            api.oblige(o.st, 'C03:only-the-three-declared-exceptions-leave:%s' % nm,
                       nm in ('TLSHandshakeFailure', 'TLSInsufficientSecurity', 'TLSIllegalParameterException', 'IndexError'))
    return spec, check, setup


_spec9, _check9, _setup9 = _t9()
m2s('_server_select_certificate/selection', ('C03', 'C20'), TC + '_server_select_certificate', _spec9, check=_check9,
    setup=_setup9,
    doc='the cipher suite returned (directly, or as a fallback candidate) is an element of the candidate list '
        'handed in and of client_hello.cipher_suites; certificate and key are the examined pair')
REG.note('C03', 'trusted', 'm2_server/_server_select_certificate: filter_for_certificate / filter_for_prfs return '
                           'subsequences of their input (contracts/suites.py); iterating a list yields its elements')
REG.note('C03', 'not_built', 'm2_server/_server_select_certificate: that `possible_certs` is non-empty at '
                             '`return possible_certs[0]` (needs the last_cert invariant); the re-raise inside '
                             '`except Exception` is abstracted to the three declared exception classes')


# ===================================================================================================
# tickets: _ticket_to_session, _tryDecrypt, _serverSendTickets (C13, C03)
# ===================================================================================================

ADD = UF('v_binop_Add', Val, Val, Val)
CIPHER_MAKERS = ('createAESGCM', 'createAESCCM', 'createAESCCM_8', 'createCHACHA20')


def _t10():
    rec = {'create': 0}

    def h_tryDecrypt(ex, recv, args, kwargs, st, fr, node):
        r = fresh_opaque('tryDecrypt')
        st.ghost['td_result'] = r
        st.ghost['td_args'] = VTuple([args[0], kwargs.get('ticket', VNone())])
        return [Outcome('normal', st, r)]

    def h_time(ex, recv, args, kwargs, st, fr, node):
        r = fresh_opaque('now')
        st.ghost['now'] = r
        return [Outcome('normal', st, r)]

    def h_Session(ex, recv, args, kwargs, st, fr, node):
        r = fresh_opaque('new_Session')
        st.ghost['new_session'] = r
        return [Outcome('normal', st, r)]

    def h_create(ex, recv, args, kwargs, st, fr, node):
        rec['create'] += 1
        tk = V_GETITEM(gv(st.ghost, 'td_result'), v_int(z3.IntVal(1)))
        # C13: "the resumed connection has the original's cipher suite, EMS and EtM properties, server name and
        # authenticated client identity": the session is rebuilt from the decrypted ticket's fields only
        ob(ex, st, 'C13:session-from-ticket:master-secret-suite-and-client-chain-are-the-tickets',
                  z3.And(T(args[0]) == attr_t('master_secret', tk), T(args[2]) == attr_t('cipher_suite', tk),
                         T(args[4]) == attr_t('client_cert_chain', tk)), kind='m2')
        ob(ex, st, 'C13:session-from-ticket:EtM-and-EMS-are-the-tickets',
                  z3.And(T(kwargs['encryptThenMAC']) == attr_t('encrypt_then_mac', tk),
                         T(kwargs['extendedMasterSecret']) == attr_t('extended_master_secret', tk)), kind='m2')
        dec = UF('pure_decode_2', Val, Val, Val)
        sn = attr_t('server_name', tk)
        ob(ex, st, 'C13:session-from-ticket:server-name-is-the-tickets',
                  T(kwargs['serverName']) == z3.If(v_truthy(sn), dec(attr_t('decode', sn), T(VStr('utf-8'))),
                                                  T(VStr(''))), kind='m2')
        ob(ex, st, 'C13:session-from-ticket:no-server-chain-no-SRP-name-no-session-id',
                  z3.And(T(args[5]) == v_none, eq_op(args[3], VStr('')).t), kind='m2')
        return [Outcome('normal', st, VNone())]

    spec = M2Spec(hooks={'_tryDecrypt': h_tryDecrypt, 'time': h_time, 'Session': h_Session, 'create': h_create},
                  pure={'decode'})

    def check(api):
        entry = api.entry
        rets = [o for o in api.outs if o.kind == 'return']
        some = [o for o in rets if not isinstance(o.val, VNone)]
        api.oblige(entry, 'cover:session-return-and-None-returns', len(some) >= 1 and len(rets) - len(some) >= 3)
        api.oblige(entry, 'cover:Session.create-reached', rec['create'] >= 1)
        for o in some:
            st = o.st
            td = gv(st.ghost, 'td_result')
            tk = V_GETITEM(td, v_int(z3.IntVal(1)))
            ta = st.ghost['td_args']
            s = T(entry.env['settings'])
            api.oblige(st, 'C13:ticket-session:returned-object-is-the-session-just-created',
                       T(o.val) == gv(st.ghost, 'new_session'))
            api.oblige(st, 'C13:ticket-session:only-if-_tryDecrypt(settings, ticket=ext.ticket)-accepted-the-ticket',
                       z3.And(v_truthy(tk), T(ta.items[0]) == s,
                              T(ta.items[1]) == attr_t('ticket', T(entry.env['ticket_ext']))))
            now = st.ghost.get('now')
            api.oblige(st, 'C13:ticket-session:only-if-not-expired (creation_time + ticketLifetime >= now)',
                       now is not None and z3.Not(CMP['lt'](ADD(attr_t('creation_time', tk), attr_t('ticketLifetime', s)),
                                                            T(now))))
    return spec, check


_spec10, _check10 = _t10()
m2s('_ticket_to_session/guards', ('C13',), TC + '_ticket_to_session', _spec10, check=_check10,
    doc='a session is rebuilt from a TLS<=1.2 ticket only if _tryDecrypt accepted it and it has not expired; '
        'its suite, secrets, EtM, EMS, server name and client chain are the ticket payload fields')


def _t11():
    rec = {}

    def h_derive(ex, recv, args, kwargs, st, fr, node):
        r = fresh_opaque('key_iv')
        st.ghost['kiv'] = r
        st.ghost['kiv_args'] = VTuple(list(args))
        return [Outcome('normal', st, r)]

    def h_maker(ex, recv, args, kwargs, st, fr, node):
        r = fresh_opaque('aead')
        st.ghost['aead'] = r
        st.ghost['aead_key'] = args[0]
        return [Outcome('normal', st, r)]

    def h_open(ex, recv, args, kwargs, st, fr, node):
        r = fresh_opaque('opened')
        st.ghost['opened'] = r
        st.ghost['open_args'] = VTuple([recv] + list(args))
        return [Outcome('normal', st, r)]

    def h_Parser(ex, recv, args, kwargs, st, fr, node):
        r = fresh_opaque('parser')
        st.ghost['parser'] = r
        st.ghost['parser_src'] = args[0]
        return [Outcome('normal', st, r)]

    def h_parse(ex, recv, args, kwargs, st, fr, node):
        r = fresh_opaque('payload')
        st.ghost['payload'] = r
        st.ghost['parse_arg'] = args[0]
        return [Outcome('normal', st, r), Outcome('raise', st.fork(), VExc(ValueError, [], 'SessionTicketPayload.parse'))]

    hooks = {'_derive_key_iv': h_derive, 'open': h_open, 'Parser': h_Parser, 'parse': h_parse}
    for m in CIPHER_MAKERS:
        hooks[m] = h_maker
    spec = M2Spec(hooks=hooks, pure={'len', 'calc_res_binder_psk'}, stable_fields={'version'})
    spec.refine_loops = True
    spec.loop_elem_facts = True
    SLICE = UF('v_slice', Val, Val, Val, Val)

    def check(api):
        entry = api.entry
        s = T(entry.env['settings'])
        rets = [o for o in api.outs if o.kind == 'return']
        acc = [o for o in rets if isinstance(o.val, VTuple) and not isinstance(o.val.items[1], VNone)]
        api.oblige(entry, 'cover:accepting-returns (TLS<=1.2 and TLS 1.3) and declining returns',
                   len(acc) >= 2 and len(rets) - len(acc) >= 2)
        for o in acc:
            st = o.st
            tk = T(o.val.items[1])
            g = st.ghost
            need = ('kiv', 'kiv_args', 'aead', 'aead_key', 'opened', 'open_args', 'parser', 'parser_src', 'payload',
                    'parse_arg')
            if any(k not in g for k in need):
                api.oblige(st, 'C13:_tryDecrypt:accept-path-ran-derive/open/parse', False)
                continue
            kiv = gv(g, 'kiv')
            ka = g['kiv_args']
            oa = g['open_args']
            user_key = T(ka.items[1])
            # C13: "issued under one of the server's current ticket keys": AEAD open accepted it under a key derived
            # from an element of settings.ticketKeys and the nonce that came with the ticket
            api.oblige(st, 'C13:_tryDecrypt:returned-ticket-is-the-parsed-plaintext-of-the-AEAD-open',
                       z3.And(tk == gv(g, 'payload'), gv(g, 'parse_arg') == gv(g, 'parser'),
                              gv(g, 'parser_src') == gv(g, 'opened'), v_truthy(gv(g, 'opened'))))
            api.oblige(st, 'C13:_tryDecrypt:opened-with-the-cipher-keyed-by-_derive_key_iv(nonce, user_key, settings)',
                       z3.And(T(oa.items[0]) == gv(g, 'aead'), gv(g, 'aead_key') == V_GETITEM(kiv, v_int(z3.IntVal(0))),
                              T(oa.items[1]) == V_GETITEM(kiv, v_int(z3.IntVal(1))), T(ka.items[2]) == s))
            api.oblige(st, 'C13:_tryDecrypt:user_key-is-one-of-settings.ticketKeys',
                       V_IN(user_key, attr_t('ticketKeys', s)))
            # nonce and ciphertext are the two parts of the value the peer sent
            src_ = z3.If(CMP['lt'](z3.Const('conn_version', Val), tup(3, 4)), T(entry.env['ticket']),
                         attr_t('identity', T(entry.env['identity'])))
            n32 = v_int(z3.IntVal(32))
            oblige_ordered(api.ex, st, 'C13:_tryDecrypt:nonce-and-ciphertext-are-the-first-32-bytes-and-the-rest-of-the-peers-value',
                           z3.And(T(ka.items[0]) == SLICE(src_, v_none, n32), T(oa.items[2]) == SLICE(src_, n32, v_none)))
        for o in rets:
            if o not in acc:
                ok = isinstance(o.val, VTuple) and all(isinstance(x, VNone) for x in o.val.items)
                api.oblige(o.st, 'C13:_tryDecrypt:decline-returns-(None, None)-and-raises-nothing', bool(ok))
        for o in api.raise_exits():
            nm = getattr(o.val.cls, '__name__', '')
            # `assert ticket` / `assert identity` are caller preconditions; `assert ticketCipher == chacha` is
            # HandshakeSettings.validate's domain (C19)
            api.oblige(o.st, 'C13:_tryDecrypt:no-exception-but-the-three-precondition-asserts:%s' % o.val.origin,
                       nm == 'AssertionError')
    return spec, check


def api_version(st):
    me = st.env['self']
    return st.heap[(me.oid, 'version')]


def t11_setup(ex, st, fr):
    ex.spec.field_like_properties = FIELD_LIKE
    me = st.env['self']
    st.heap[(me.oid, 'version')] = VOpaque(z3.Const('conn_version', Val))


_spec11, _check11 = _t11()
m2s('_tryDecrypt/guards', ('C13',), TC + '_tryDecrypt', _spec11, check=_check11, setup=t11_setup,
    opts={'pure_slice': True},
    doc='a ticket payload is returned only after an AEAD open under a key derived from one of settings.ticketKeys '
        'and the nonce sent with the ticket returned a non-empty plaintext that parsed; every decline is (None, None)')
REG.note('C13', 'trusted', 'm2_server/_tryDecrypt: key derivation, AEAD construction/open and payload parsing do '
                           'not assign the connection version; cipher.open returns None (falsy) unless the AEAD tag verifies '
                           '(contracts/ciphers.py AEAD receive contracts, C09); SessionTicketPayload.parse raises '
                           'only ValueError on malformed plaintext (C15)')


def _t12():
    rec = {'payload': 0, 'seal': 0, 'nst': 0}

    def h_pending_etm(ex, recv, args, kwargs, st, fr, node):
        r = fresh_opaque('pending_etm')
        st.ghost['pending_etm'] = r
        return [Outcome('normal', st, r)]

    def h_derive(ex, recv, args, kwargs, st, fr, node):
        r = fresh_opaque('key_iv')
        st.ghost['kiv'] = r
        st.ghost['kiv_args'] = VTuple(list(args))
        return [Outcome('normal', st, r)]

    def h_maker(ex, recv, args, kwargs, st, fr, node):
        r = fresh_opaque('aead')
        st.ghost['aead'] = r
        st.ghost['aead_key'] = args[0]
        return [Outcome('normal', st, r)]

    def h_write(ex, recv, args, kwargs, st, fr, node):
        r = fresh_opaque('payload_bytes')
        st.ghost['written'] = r
        st.ghost['written_of'] = recv
        return [Outcome('normal', st, r)]

    def h_seal(ex, recv, args, kwargs, st, fr, node):
        rec['seal'] += 1
        g = st.ghost
        s = T(st.env['settings'])
        kiv = gv(g, 'kiv')
        ka = g.get('kiv_args')
        if not isinstance(ka, VTuple) or 'aead' not in g or 'written' not in g:
            ob(ex, st, 'C13:ticket-sealed-under-a-key-derived-from-settings.ticketKeys[0]-and-the-nonce', False)
            return [Outcome('normal', st, fresh_opaque('sealed'))]
        # C13: tickets are issued under the server's CURRENT (first) ticket key with a fresh nonce
        ob(ex, st, 'C13:ticket-sealed-under-a-key-derived-from-settings.ticketKeys[0]-and-the-nonce',
                  z3.And(T(recv) == gv(g, 'aead'), gv(g, 'aead_key') == V_GETITEM(kiv, v_int(z3.IntVal(0))),
                         T(args[0]) == V_GETITEM(kiv, v_int(z3.IntVal(1))),
                         T(ka.items[1]) == V_GETITEM(attr_t('ticketKeys', s), v_int(z3.IntVal(0))),
                         T(ka.items[0]) == T(st.env['nonce']), T(ka.items[2]) == s), kind='m2')
        ob(ex, st, 'C13:sealed-plaintext-is-the-serialised-payload-just-created',
                  z3.And(T(args[1]) == gv(g, 'written'), gv(g, 'written_of') == T(st.env['ticket'])), kind='m2')
        r = fresh_opaque('sealed')
        st.ghost['sealed'] = r
        return [Outcome('normal', st, r)]

    def h_create(ex, recv, args, kwargs, st, fr, node):
        me = st.env['self']
        if 'encrypt_then_mac' in kwargs:
            rec['payload'] += 1
            sess = T(st.heap[(me.oid, 'session')])
            ver = T(st.heap[(me.oid, 'version')])
            pe = st.ghost.get('pending_etm')
            # in TLS <= 1.2 the ticket goes out before ChangeCipherSpec: the negotiated EtM is in the PENDING state
            ob(ex, st, 'C03:ticket-payload:encrypt_then_mac-is-the-PENDING-states-value',
                      pe is not None and T(kwargs['encrypt_then_mac']) == T(pe), kind='m2')
            ob(ex, st, 'C13:ticket-payload:suite-and-client-chain-are-the-sessions',
                      z3.And(T(args[2]) == attr_t('cipherSuite', sess), T(args[1]) == ver,
                             T(kwargs['client_cert_chain']) == attr_t('clientCertChain', sess)), kind='m2')
            oblige_ordered(ex, st, 'C13:ticket-payload:secret-is-master-secret-(<=1.2)-or-resumption-master-secret-(1.3)',
                           T(args[0]) == z3.If(CMP['lt'](ver, tup(3, 4)), attr_t('masterSecret', sess),
                                               attr_t('resumptionMasterSecret', sess)))
            ems = st.heap.get((me.oid, 'extendedMasterSecret'))
            ob(ex, st, 'C13:ticket-payload:extended_master_secret-is-the-connections-or-the-sessions-flag',
                      z3.Or(ems is not None and T(kwargs['extended_master_secret']) == T(ems),
                            T(kwargs['extended_master_secret']) == attr_t('extendedMasterSecret', sess)), kind='m2')
            sn = attr_t('serverName', sess)
            enc = UF('pure_encode_2', Val, Val, Val)
            v = kwargs['server_name']
            ob(ex, st, 'C13:ticket-payload:server_name-is-the-sessions (or empty)',
                      z3.Implies(v_truthy(sn), T(v) == enc(attr_t('encode', sn), T(VStr('utf-8')))), kind='m2')
            return [Outcome('normal', st, fresh_opaque('payload_obj'))]
        if src(node.func.value) == 'new_ticket':
            rec['nst'] += 1
            sealed = st.ghost.get('sealed')
            blob = args[1] if len(args) == 2 else args[3]
            ob(ex, st, 'C13:NewSessionTicket-carries-nonce+sealed-payload-and-settings.ticketLifetime',
                      z3.And(sealed is not None and T(blob) == ADD(T(st.env['nonce']), T(sealed)),
                             T(args[0]) == attr_t('ticketLifetime', T(st.env['settings']))), kind='m2')
        return None

    hooks = {'_get_pending_state_etm': h_pending_etm, '_derive_key_iv': h_derive, 'write': h_write, 'seal': h_seal,
             'create': h_create}
    for m in CIPHER_MAKERS:
        hooks[m] = h_maker
    spec = M2Spec(hooks=hooks, pure={'encode', 'len', 'int', 'bool'},
                  stable_fields={'session', 'version', 'extendedMasterSecret'})

    def setup(ex, st, fr):
        ex.spec.field_like_properties = FIELD_LIKE
        me = st.env['self']
        for f in ('session', 'version', 'extendedMasterSecret'):
            st.heap[(me.oid, f)] = VOpaque(z3.Const('conn_' + f, Val))

    def check(api):
        entry = api.entry
        api.oblige(entry, 'cover:payload-seal-and-both-NewSessionTicket-sites-reached',
                   rec['payload'] >= 1 and rec['seal'] >= 1 and rec['nst'] >= 2)
        # no ticket without keys
        for o in api.normal_exits():
            pass
    return spec, check, setup


_spec12, _check12, _setup12 = _t12()
m2s('_serverSendTickets/payload', ('C03', 'C13'), TC + '_serverSendTickets', _spec12, check=_check12, setup=_setup12,
    doc='the ticket payload records the PENDING state EtM, the session suite / secret / client chain / server name '
        'and is sealed under a key derived from settings.ticketKeys[0] and a fresh nonce')
REG.note('C13', 'trusted', 'm2_server/_serverSendTickets: the callees inside the ticket loop (payload/AEAD '
                           'construction, _queue_message) do not assign self.session / version / '
                           'extendedMasterSecret (read)')


# ===================================================================================================
# _serverTLS13Handshake (C05, C13, C08)
# ===================================================================================================

S13 = TC + '_serverTLS13Handshake'
_CLOCK = [0]


def tint(v):
    """integer term of a ghost time stamp (a merge with the default ghost value embeds it into Val)"""
    if v is None:
        return z3.Int(fresh_name_('missing_time'))
    return v.t if isinstance(v, VInt) else val_int(T(v))


def tick():
    _CLOCK[0] += 1
    return VInt(z3.IntVal(_CLOCK[0]))


def _t13():
    from tlslite.errors import TLSIllegalParameterException
    rec = {'binder': 0, 'session': 0, 'cv': 0, 'psk_ext': 0}

    def h_getPRF(ex, recv, args, kwargs, st, fr, node):
        r = fresh_opaque('prf_params')
        st.ghost['prf'] = r
        return [Outcome('normal', st, r)]

    def h_tryDecrypt(ex, recv, args, kwargs, st, fr, node):
        r = fresh_opaque('tryDecrypt')
        st.ghost['td_result'] = r
        st.ghost['td_ident'] = args[1]
        return [Outcome('normal', st, r)]

    def h_verify_binder(ex, recv, args, kwargs, st, fr, node):
        rec['binder'] += 1
        me = st.env['self']
        i, ident, tk = st.env['i'], st.env['ident'], st.env['ticket']
        psks = st.env['psks']
        # C05 "a correct PSK binder": RFC 8446 4.2.11.2 -- the binder at position i is checked with the key that
        # belongs to the identity at position i, over the transcript up to (not including) the binders
        ob(ex, st, 'C05:binder:checked-on-this-ClientHello-with-the-pre-ClientHello-transcript',
                  z3.And(T(args[0]) == T(st.env['clientHello']),
                         T(args[1]) == T(st.heap.get((me.oid, '_pre_client_hello_handshake_hash'), VNone()))), kind='m2')
        ob(ex, st, 'C05:binder:position-is-the-index-of-the-identity-the-key-was-looked-up-for',
                  z3.And(T(args[2]) == T(i), T(ident) == V_GETITEM(attr_t('identities', T(psks)), T(i))), kind='m2')
        match = st.env['match']
        m0 = V_GETITEM(T(match), v_int(z3.IntVal(0))) if isinstance(match, VOpaque) else T(match.items[0])
        ob(ex, st, 'C05:binder:key-is-the-secret-of-the-matched-identity',
                  T(args[3]) == V_GETITEM(m0, v_int(z3.IntVal(1))), kind='m2')
        td = st.ghost.get('td_result')
        from_ticket = z3.BoolVal(False) if td is None else z3.And(
            m0 == V_GETITEM(T(td), v_int(z3.IntVal(0))), gv(st.ghost, 'td_ident') == T(ident),
            T(tk) == V_GETITEM(T(td), v_int(z3.IntVal(1))))
        goal = z3.Or(from_ticket, truthy(args[5]))
        ob(ex, st, 'C05:binder:ticket-PSK-comes-from-_tryDecrypt(settings, this identity) or an external PSK',
                  z3.Implies(z3.And(list_facts(list(st.pc) + [goal]) + [z3.BoolVal(True)]), goal), kind='m2')
        prf_name = V_GETITEM(gv(st.ghost, 'prf'), v_int(z3.IntVal(0)))
        ob(ex, st, 'C13:binder:PSK-hash-equals-the-PRF-hash-of-the-selected-suite (RFC 8446 4.2.11)',
                  z3.And(T(args[4]) == prf_name), kind='m2')
        ob(ex, st, 'C13:binder:ticket-was-issued-for-this-protocol-version',
                  z3.Implies(v_truthy(T(tk)), T(st.heap[(me.oid, 'version')]) == attr_t('protocol_version', T(tk))),
                  kind='m2')
        ok = st.fork()
        ok.ghost['binder_ok'] = VBool(z3.BoolVal(True))
        ok.ghost['binder_pos'] = args[2]
        ok.ghost['binder_psk'] = args[3]
        ok.ghost['binder_ticket'] = tk
        return [Outcome('normal', ok, VNone()),
                Outcome('raise', st, VExc(TLSIllegalParameterException, [], 'verify_binder: binder does not verify'))]

    def h_getMsg(ex, recv, args, kwargs, st, fr, node):
        r = fresh_opaque('msg')
        ex.havoc_call('_getMsg', st)
        ht = args[1] if len(args) > 1 else None
        key = 'msg_other'
        if isinstance(ht, VInt):
            k = z3.simplify(ht.t)
            if z3.is_int_value(k) and k.as_long() == HandshakeType.certificate_verify:
                key = 'msg_cv'
            elif z3.is_int_value(k) and k.as_long() == HandshakeType.finished:
                key = 'msg_finished'
        elif len(args) > 2:
            key = 'msg_cert'
        st.ghost[key] = r
        st.ghost['t_' + key] = tick()
        return [Outcome('normal', st, r)]

    def h_copy(ex, recv, args, kwargs, st, fr, node):
        r = fresh_opaque('hh_copy')
        st.ghost['last_copy'] = r
        st.ghost['t_last_copy'] = tick()
        st.ghost['last_copy_of_transcript'] = VBool(z3.BoolVal(src(node.func.value) == 'self._handshake_hash'))
        return [Outcome('normal', st, r)]

    def h_calcVerifyBytes(ex, recv, args, kwargs, st, fr, node):
        r = fresh_opaque('verify_bytes')
        st.ghost['cvb'] = r
        st.ghost['cvb_args'] = VTuple(list(args))
        return [Outcome('normal', st, r)]

    def h_sigHashes(ex, recv, args, kwargs, st, fr, node):
        r = fresh_opaque('sig_algs')
        if 'certList' in kwargs:
            st.ghost['cv_algs'] = r
            st.ghost['cv_algs_args'] = VTuple([args[0], kwargs['certList'], kwargs.get('version', VNone())])
        return [Outcome('normal', st, r)]

    def h_ver_func(ex, recv, args, kwargs, st, fr, node):
        r = fresh_opaque('verify_result')
        cv = st.ghost.get('msg_cv')
        if cv is None or not z3.is_true(z3.simplify(T(args[0]) == attr_t('signature', T(cv)))):
            return [Outcome('normal', st, r)]          # the server checking its own signature
        rec['cv'] += 1
        g = st.ghost
        cert = g.get('msg_cert')
        chain = attr_t('cert_chain', T(cert)) if cert is not None else v_none
        pk = UF('pure_getEndEntityPublicKey_1', Val, Val)(attr_t('getEndEntityPublicKey', chain))
        f = T(st.env['ver_func'])
        scheme = attr_t('signatureAlgorithm', T(cv))
        # C05: "a valid signature by the end-entity key over this transcript"
        ob(ex, st, 'C05:client-CV:verification-routine-belongs-to-the-end-entity-key-of-the-received-chain',
                  z3.Or(f == attr_t('verify', pk), f == attr_t('hashAndVerify', pk)), kind='m2')
        ca = g.get('cvb_args')
        okc = ca is not None and isinstance(ca, VTuple) and len(ca.items) == 8
        ob(ex, st, 'C05:client-CV:signed-content-computed', z3.BoolVal(bool(okc)), kind='m2')
        if okc:
            ob(ex, st, 'C05:client-CV:signed-content-is-calcVerifyBytes((3,4), snapshot, scheme, ..., b"client")',
                      z3.And(T(args[1]) == gv(g, 'cvb'), T(ca.items[0]) == tup(3, 4), T(ca.items[2]) == scheme,
                             eq_op(ca.items[7], lift_bytes(b'client')).t,
                             T(ca.items[6]) == V_GETITEM(gv(g, 'prf'), v_int(z3.IntVal(0)))), kind='m2')
            snap = st.env.get('cli_cert_verify_hh')
            # the transcript snapshot: taken after the client Certificate and before the CertificateVerify was read
            ob(ex, st, 'C05:client-CV:transcript-snapshot-taken-after-Certificate-and-before-CertificateVerify',
                      z3.And(T(ca.items[1]) == T(snap), T(snap) == gv(g, 'last_copy'),
                             truthy(g.get('last_copy_of_transcript', VBool(z3.BoolVal(False)))),
                             tint(g.get('t_msg_cert')) < tint(g.get('t_last_copy')), tint(g.get('t_last_copy')) < tint(g.get('t_msg_cv'))),
                          kind='m2')
        al = g.get('cv_algs')
        aa = g.get('cv_algs_args')
        # "signs with a scheme that was not offered ... is rejected" (RFC 8446 4.4.3)
        ob(ex, st, 'C05:client-CV:scheme-in-_sigHashesToList(settings, certList=chain, version=(3,4))',
                  al is not None and z3.And(V_IN(scheme, T(al)), T(aa.items[0]) == T(st.env['settings']),
                                            T(aa.items[1]) == chain, T(aa.items[2]) == tup(3, 4)), kind='m2')
        st.ghost['cv_result'] = r
        st.ghost['cv_chain'] = VOpaque(chain)
        return [Outcome('normal', st, r)]

    def on_compare(ex, op, a, b, st, fr, node):
        if isinstance(op, ast.NotEq) and isinstance(node, ast.Compare) and src(node.left) == 'cl_finished.verify_data':
            st.ghost['fin_eq'] = VBool(T(a) == T(b))
            st.ghost['fin_lhs'] = a

    def h_create(ex, recv, args, kwargs, st, fr, node):
        if 'resumptionMasterSecret' in kwargs:
            rec['session'] += 1
            g = st.ghost
            chain = T(args[4])
            none = z3.Not(v_truthy(chain))
            cert = g.get('msg_cert')
            recv_chain = attr_t('cert_chain', T(cert)) if cert is not None else None
            cvr = g.get('cv_result')
            proved = z3.BoolVal(False)
            empty = z3.BoolVal(False)
            if recv_chain is not None:
                ncerts = UF('pure_getNumCerts_1', Val, Val)(attr_t('getNumCerts', recv_chain))
                empty = z3.And(chain == recv_chain, z3.Not(v_truthy(ncerts)))
                if cvr is not None:
                    proved = z3.And(chain == recv_chain, gv(g, 'cv_chain') == recv_chain, v_truthy(T(cvr)))
            bt = g.get('binder_ticket')
            inherited = z3.BoolVal(False)
            if bt is not None:
                inherited = z3.And(truthy(ex.ghost_get(st, 'binder_ok')), v_truthy(T(bt)),
                                   chain == attr_t('client_cert_chain', T(bt)))
            # C05 / C13: the client identity of the session is proved in this handshake (CertificateVerify) or is
            # the authenticated identity stored in the ticket whose binder verified
            ob(ex, st, 'C05:session:client-chain-is-none | empty | CertificateVerify-verified | inherited-from-the-ticket-whose-binder-verified',
                      z3.Or(none, empty, proved, inherited), kind='m2')
            fe = g.get('fin_eq')
            fin = g.get('msg_finished')
            ob(ex, st, 'C05:session:created-only-after-the-client-Finished-compared-equal',
                      fe is not None and fin is not None and z3.And(truthy(fe), gv(g, 'fin_lhs') == attr_t('verify_data', T(fin))),
                      kind='m2')
            return None
        if src(node).startswith('SrvPreSharedKeyExtension().create('):
            rec['psk_ext'] += 1
            g = st.ghost
            # C05: "PSK identity attributed only with a correct binder": the index announced in ServerHello is the
            # one whose binder verified, and the key schedule runs on that identity's secret
            ob(ex, st, 'C05:ServerHello:a-PSK-is-selected-only-after-verify_binder-returned-normally',
                      truthy(ex.ghost_get(st, 'binder_ok')), kind='m2')
            ob(ex, st, 'C05:ServerHello:selected-PSK-index-is-the-one-whose-binder-verified',
                      z3.BoolVal('binder_pos' in g) if 'binder_pos' not in g else T(args[0]) == gv(g, 'binder_pos'),
                      kind='m2')
            ob(ex, st, 'C05:ServerHello:key-schedule-runs-on-the-secret-the-binder-was-verified-with',
                      z3.BoolVal(False) if 'binder_psk' not in g else
                      z3.Or(gv(g, 'binder_psk') == v_none, T(st.env['psk']) == gv(g, 'binder_psk')), kind='m2')
        return None

    spec = M2Spec(hooks={'_sendError': h_sendError, '_getPRFParams': h_getPRF, '_tryDecrypt': h_tryDecrypt,
                         'verify_binder': h_verify_binder, '_getMsg': h_getMsg, 'calcVerifyBytes': h_calcVerifyBytes,
                         '_sigHashesToList': h_sigHashes, 'ver_func': h_ver_func, 'create': h_create, 'copy': h_copy},
                  pure={'getExtension', 'getEndEntityPublicKey', 'getNumCerts', 'toRepr', 'getHash', 'getPadding',
                        'digest', 'secureHMAC', 'derive_secret', 'HKDF_expand_label', 'decode', 'len', 'isinstance',
                        'getattr', 'bytearray', 'chain'},
                  stable_fields={'_pre_client_hello_handshake_hash', 'version'})
    spec.refine_loops = True
    spec.loop_elem_facts = True
    spec.on_compare = on_compare
    spec.on_name = make_on_name({'selected_group', 'cl_key_share', 'shared_sec', 'key_share'})

    def setup(ex, st, fr):
        ex.spec.field_like_properties = FIELD_LIKE
        prebind('selected_group', 'cl_key_share', 'shared_sec', 'key_share')(ex, st, fr)
        me = st.env['self']
        st.heap[(me.oid, '_pre_client_hello_handshake_hash')] = VOpaque(z3.Const('pre_ch_hash', Val))
        st.heap[(me.oid, 'version')] = VOpaque(z3.Const('conn_version', Val))

    def check(api):
        entry = api.entry
        for k in rec:
            api.oblige(entry, 'cover:site-reached:%s' % k, rec[k] >= 1)
        api.oblige(entry, 'cover:"finished"-exit-reached', len(api.normal_exits()) >= 1)
    return spec, check, setup


def lift_bytes(b):
    from pyvc.executor import lift_py
    return lift_py(b)


def _reg_t13():
    for (nm, prop, keep, doc) in (
            ('peer-identity', ('C05', 'C13'), lambda n: not n.startswith('C08:'),
             'TLS 1.3 server: a PSK identity is selected (and the client chain of its ticket inherited) only after '
             'verify_binder returned for that identity with the secret of that identity and the suite PRF; a client '
             'chain is recorded only after CertificateVerify (offered scheme, end-entity key, snapshot transcript) '
             'and Finished'),
            ('locals-bound', ('C08',), lambda n: n.startswith('C08:') or n.startswith('cover:"finished"'),
             'TLS 1.3 server: selected_group / cl_key_share / key_share / shared_sec are bound wherever they are '
             'read (no UnboundLocalError on a peer-chosen combination of extensions)')):
        spec, check, setup = _t13()
        m2s('_serverTLS13Handshake/' + nm, prop, S13, spec, check=check, setup=setup, doc=doc, keep=keep)


_reg_t13()


# ===================================================================================================
# _serverCertKeyExchange (C05 client authentication in TLS <= 1.2; C11 wire uniformity)
# ===================================================================================================

SCK = TC + '_serverCertKeyExchange'


def _t14():
    from tlslite.errors import TLSIllegalParameterException, TLSDecodeError
    rec = {'cv': 0, 'pms': 0}
    PMS = []

    def h_process(ex, recv, args, kwargs, st, fr, node):
        rec['pms'] += 1
        r = fresh_opaque('premaster')
        PMS.append(r.t)
        st.ghost['pms'] = r
        st.ghost['t_cke_processed'] = tick()
        outs = [Outcome('normal', st, r)]
        for cls in (TLSIllegalParameterException, TLSDecodeError):
            bad = st.fork()
            bad.ghost['cke_rejected'] = VBool(z3.BoolVal(True))
            outs.append(Outcome('raise', bad, VExc(cls, [], 'processClientKeyExchange raises %s' % cls.__name__)))
        return outs

    def h_getMsg(ex, recv, args, kwargs, st, fr, node):
        r = fresh_opaque('msg')
        ex.havoc_call('_getMsg', st)
        ht = args[1] if len(args) > 1 else None
        key = 'msg_other'
        if isinstance(ht, VInt):
            k = z3.simplify(ht.t)
            if z3.is_int_value(k):
                key = {HandshakeType.certificate_verify: 'msg_cv', HandshakeType.certificate: 'msg_cert',
                       HandshakeType.client_key_exchange: 'msg_cke'}.get(k.as_long(), 'msg_other')
        if key == 'msg_cke' and st.ghost.get('msg_cert') is not None:
            # C06: the client Certificate is mandatory after a CertificateRequest; the only tolerated substitute is the
            # SSLv3 no_certificate warning (RFC 6101 5.6.6) -- any other alert in its place must abort
            from tlslite.messages import Alert as _Alert
            from pyvc.values import str_id
            m = T(st.ghost['msg_cert'])
            isinst = z3.Function('v_isinstance', Val, smt.I, smt.B)
            is_alert = isinst(m, z3.IntVal(str_id(repr([_Alert]))))       # the term builtins_model.m_isinstance builds
            me = st.env['self']
            ver = T(st.heap[(me.oid, 'version')]) if (me.oid, 'version') in st.heap else None
            pre = z3.And(is_alert, truthy(st.ghost.get('cert_alert_admitted', VBool(z3.BoolVal(True)))))
            ob(ex, st, 'C06:an-alert-in-place-of-the-client-Certificate-is-tolerated-only-in-SSLv3',
               z3.Implies(pre, z3.BoolVal(ver is not None) if ver is None else ver == tup(3, 0)), kind='m2')
            ob(ex, st, 'C06:an-alert-in-place-of-the-client-Certificate-is-tolerated-only-if-it-is-no_certificate',
               z3.Implies(pre, attr_t('description', m) == v_int(z3.IntVal(AlertDescription.no_certificate))), kind='m2')
        if key == 'msg_cert':
            # (_getMsg hands back an Alert only when ContentType.alert is among the expected content types: gate contract)
            a0 = args[0] if args else None
            admitted = isinstance(a0, VTuple) and any(is_const_int(x, ContentType.alert) for x in a0.items)
            st.ghost['cert_alert_admitted'] = VBool(z3.BoolVal(bool(admitted)))
        st.ghost[key] = r
        st.ghost['t_' + key] = tick()
        return [Outcome('normal', st, r)]

    def h_copy(ex, recv, args, kwargs, st, fr, node):
        r = fresh_opaque('hh_copy')
        st.ghost['last_copy'] = r
        st.ghost['t_last_copy'] = tick()
        st.ghost['last_copy_of_transcript'] = VBool(z3.BoolVal(src(node.func.value) == 'self._handshake_hash'))
        return [Outcome('normal', st, r)]

    CVB_SSL3 = UF('calcVerifyBytes_ssl3', Val, Val, Val, Val, Val)
    CVB_TLS = UF('calcVerifyBytes_tls', Val, Val, Val, Val, Val)

    def h_calcVerifyBytes(ex, recv, args, kwargs, st, fr, node):
        """KeyExchange.calcVerifyBytes(version, hashes, sigAlg, premaster, clientRandom, serverRandom, key_type=):
        a pure function; the premaster secret and the randoms are used only for version == (3, 0)
        (task m2:calcVerifyBytes/premaster-use)"""
        ver, hh, alg, pms, cr, sr = [T(a) for a in args[:6]]
        kt = T(kwargs.get('key_type', VStr('rsa')))
        r = VOpaque(z3.If(ver == tup(3, 0), CVB_SSL3(hh, pms, cr, sr), CVB_TLS(ver, hh, alg, kt)))
        st.ghost['cvb'] = r
        st.ghost['cvb_args'] = VTuple(list(args[:6]))
        return [Outcome('normal', st, r)]

    def h_sigHashes(ex, recv, args, kwargs, st, fr, node):
        r = fresh_opaque('sig_algs')
        if 'certList' in kwargs:
            st.ghost['cv_algs'] = r
            for k, v in enumerate([args[0], kwargs['certList'], kwargs.get('version', VNone())]):
                st.ghost['cv_algs_a%d' % k] = v
        else:
            st.ghost['advertised_algs'] = r
        return [Outcome('normal', st, r)]

    def h_check_chain(ex, recv, args, kwargs, st, fr, node):
        """_check_certchain_with_settings(chain, settings) -> the end-entity public key of `chain` (or alert)"""
        r = VOpaque(UF('checked_public_key', Val, Val, Val)(T(args[0]), T(args[1])))
        st.ghost['pk_chain'] = args[0]
        return [Outcome('normal', st, r)]

    VERIFY = UF('pure_ver_func', Val, Val, Val, Val, Val, Val, Val)

    def h_ver_func(ex, recv, args, kwargs, st, fr, node):
        rec['cv'] += 1
        g = st.ghost
        me = st.env['self']
        cv = g.get('msg_cv')
        cert = g.get('msg_cert')
        chain = T(st.env['clientCertChain'])
        f = T(st.env['ver_func'])
        pk = UF('checked_public_key', Val, Val, Val)(chain, T(st.env['settings']))
        ob(ex, st, 'C05:client-CV:signature-is-the-CertificateVerify-messages',
                  cv is not None and T(args[0]) == attr_t('signature', T(cv)), kind='m2')
        ob(ex, st, 'C05:client-CV:chain-is-the-one-in-the-received-Certificate-message',
                  cert is not None and chain == attr_t('cert_chain', T(cert)), kind='m2')
        ob(ex, st, 'C05:client-CV:verification-routine-belongs-to-the-checked-end-entity-key-of-that-chain',
                  z3.Or(f == attr_t('verify', pk), f == attr_t('hashAndVerify', pk)), kind='m2')
        ca = g.get('cvb_args')
        ok = ca is not None and 'cvb' in g
        ob(ex, st, 'C05:client-CV:signed-content-computed', z3.BoolVal(bool(ok)), kind='m2')
        if ok:
            ver = T(st.heap[(me.oid, 'version')])
            cvb = gv(g, 'cvb')
            sliced = UF('v_slice', Val, Val, Val, Val)
            is_cvb = z3.Or(T(args[1]) == cvb,
                           z3.And([T(args[1]) == e for e in apps([T(args[1])], lambda e: e.decl().name() == 'v_slice'
                                                                  and e.arg(0).eq(cvb))] or [z3.BoolVal(False)]))
            ob(ex, st, 'C05:client-CV:signed-content-is-calcVerifyBytes(version, snapshot, scheme, premaster, randoms)',
                      z3.And(is_cvb, T(ca.items[0]) == ver, T(ca.items[2]) == T(st.env['signatureAlgorithm']),
                             T(ca.items[3]) == gv(g, 'pms'),
                             T(ca.items[4]) == attr_t('random', T(st.env['clientHello'])),
                             T(ca.items[5]) == attr_t('random', T(st.env['serverHello']))), kind='m2')
            # the snapshot: transcript after ClientKeyExchange, before CertificateVerify
            ob(ex, st, 'C05:client-CV:transcript-snapshot-taken-after-ClientKeyExchange-and-before-CertificateVerify',
                      z3.And(T(ca.items[1]) == gv(g, 'last_copy'), truthy(g.get('last_copy_of_transcript', VBool(z3.BoolVal(False)))),
                             tint(g.get('t_msg_cke')) < tint(g.get('t_last_copy')),
                             tint(g.get('t_last_copy')) < tint(g.get('t_msg_cv'))), kind='m2')
            al = g.get('cv_algs')
            aa = [g.get('cv_algs_a%d' % k) for k in range(3)]
            scheme = attr_t('signatureAlgorithm', T(cv)) if cv is not None else v_none
            # "signs with a scheme that was not offered ... is rejected": TLS 1.2 CertificateRequest list
            ob(ex, st, 'C05:client-CV:TLS1.2-scheme-in-_sigHashesToList(settings, certList=chain, version)',
                      z3.Implies(ver == tup(3, 3),
                                 al is not None and z3.And(V_IN(scheme, T(al)), T(aa[0]) == T(st.env['settings']),
                                                           T(aa[1]) == chain, T(aa[2]) == ver,
                                                           z3.Implies(v_truthy(scheme), T(st.env['signatureAlgorithm']) == scheme))),
                      kind='m2')
        r = VOpaque(VERIFY(f, *[T(a) for a in args]))
        st.ghost['cv_result'] = r
        st.ghost['cv_chain'] = VOpaque(chain)
        return [Outcome('normal', st, r)]

    exits = Exits()
    spec = M2Spec(hooks={'_sendError': h_sendError_line, 'processClientKeyExchange': h_process, '_getMsg': h_getMsg,
                         'copy': h_copy, 'calcVerifyBytes': h_calcVerifyBytes, '_sigHashesToList': h_sigHashes,
                         '_check_certchain_with_settings': h_check_chain, 'ver_func': h_ver_func},
                  pure={'getExtension', 'getNumCerts', 'toRepr', 'toStr', 'getHash', 'getPadding', 'isinstance',
                        'getattr', 'len', 'choose_compression_send_algo'},
                  on_yield=exits.on_yield, stable_fields={'version', '_certificate_verify_handshake_hash'})

    def setup(ex, st, fr):
        ex.spec.field_like_properties = FIELD_LIKE
        me = st.env['self']
        st.heap[(me.oid, 'version')] = VOpaque(z3.Const('conn_version', Val))

    def check(api):
        entry = api.entry
        api.oblige(entry, 'cover:CertificateVerify-check-and-key-exchange-reached', rec['cv'] >= 1 and rec['pms'] >= 1)
        api.oblige(entry, 'cover:normal-exit-reached', len(exits.full) >= 1)
        for (st, val) in exits.full:
            g = st.ghost
            chain = T(val.items[1])
            cvr = g.get('cv_result')
            proved = z3.BoolVal(False) if cvr is None else z3.And(gv(g, 'cv_chain') == chain, v_truthy(T(cvr)))
            # C05: "a peer certificate chain is attributed to the peer only if the peer proved knowledge ..."
            api.oblige(st, 'C05:exit:client-chain-is-None-or-its-CertificateVerify-verified', z3.Or(chain == v_none, proved))
            api.oblige(st, 'C11:exit:premaster-is-the-value-processClientKeyExchange-returned',
                       'pms' in g and T(val.items[0]) == gv(g, 'pms'))
        # C11 wire uniformity: after processClientKeyExchange returned, no fatal alert depends on the premaster
        # value (TLS >= 1.0; in SSLv3 the CertificateVerify hash covers the master secret -- stated carve-out)
        n = 0
        for o in api.raise_exits(NoReturn):
            st = o.st
            if 'pms' not in st.ghost or 'cke_rejected' in st.ghost:
                continue
            n += 1
            p = st.ghost['pms'].t
            p2 = z3.Const('premaster_other', Val)
            pc = z3.And(list(st.pc) + [z3.BoolVal(True)])
            ver = z3.Const('conn_version', Val)
            api.oblige(st, 'C11:alert-after-key-exchange-does-not-depend-on-the-premaster-value (TLS>=1.0)',
                       z3.Implies(z3.BoolVal(True) if __import__('os').environ.get('M2S_NO_SSL3_CARVEOUT') else ver != tup(3, 0),
                                  z3.substitute(pc, (p, p2))))
        api.oblige(entry, 'cover:alert-exits-after-key-exchange-examined', n >= 2)
        # the premaster local flows only into calcVerifyBytes and the result (syntactic data flow)
        uses = [x for x in ast.walk(api.fr.fs.node) if isinstance(x, ast.Name) and x.id == 'premasterSecret'
                and isinstance(x.ctx, ast.Load)]
        parents = {}
        for x in ast.walk(api.fr.fs.node):
            for c in ast.iter_child_nodes(x):
                parents[c] = x
        okuse = 0
        for u in uses:
            p = parents.get(u)
            if isinstance(p, ast.Call) and isinstance(p.func, ast.Attribute) and p.func.attr == 'calcVerifyBytes':
                okuse += 1
            elif isinstance(p, ast.Tuple) and isinstance(parents.get(p), ast.Yield):
                okuse += 1
        api.oblige(entry, 'C11:premaster-flows-only-into-calcVerifyBytes-and-the-result', okuse == len(uses) and okuse >= 2)
    return spec, check, setup


_spec14, _check14, _setup14 = _t14()
m2s('_serverCertKeyExchange/client-auth-and-uniformity', ('C05', 'C11', 'C06'), SCK, _spec14, check=_check14, setup=_setup14,
    opts={'pure_slice': True},
    doc='TLS<=1.2 server: a client chain is returned only if CertificateVerify verified (offered scheme in 1.2, '
        'checked end-entity key of that chain, transcript snapshot after ClientKeyExchange); after the key exchange '
        'no alert depends on the premaster value')
REG.note('C05', 'trusted', 'm2_server/_serverCertKeyExchange: _check_certchain_with_settings(chain, settings) returns '
                           'chain.getEndEntityPublicKey() or aborts with an alert (tlsconnection.py, read); the list '
                           '_sigHashesToList(settings, certList=chain, version) is a sub-list of the list advertised '
                           'in CertificateRequest (_sigHashesToList(validated settings, version); read)')
REG.note('C11', 'assumptions', 'm2_server/_serverCertKeyExchange: SSLv3 carve-out -- with client authentication the '
                               'SSLv3 CertificateVerify hash covers the master secret, so a substituted premaster '
                               'fails at CertificateVerify (decrypt_error) instead of Finished; uniform over the kind '
                               'of malformation because the substitute is (contracts/rsa.py)')


# ---------------------------------------------------------------------------------------------------
# T15  KeyExchange.calcVerifyBytes uses the premaster secret and the randoms only for SSLv3 (C11 support)

def _t15():
    seen = []

    def on_name(ex, name, val, st, fr, node):
        if name in ('premasterSecret', 'clientRandom', 'serverRandom') and isinstance(node.ctx, ast.Load):
            seen.append(name)
            ob(ex, st, 'C11:calcVerifyBytes:%s-read-only-for-version==(3,0)' % name,
                      T(st.env['version']) == tup(3, 0), kind='m2')
    spec = M2Spec(pure={'digest', 'digestSSL', 'toRepr', 'getHash', 'getPadding', 'addPKCS1Prefix', 'secureHash',
                        'calc_key'})
    spec.on_name = on_name

    def check(api):
        api.oblige(api.entry, 'cover:premaster-and-randoms-are-read', len(set(seen)) == 3)
        api.oblige(api.entry, 'cover:returns', len([o for o in api.outs if o.kind == 'return']) >= 1)
    return spec, check


_spec15, _check15 = _t15()
m2s('calcVerifyBytes/premaster-use', ('C11',), 'tlslite/keyexchange.py:KeyExchange.calcVerifyBytes', _spec15,
    check=_check15,
    doc='calcVerifyBytes reads premasterSecret / clientRandom / serverRandom only on the SSLv3 branch (justifies the '
        'model used in _serverCertKeyExchange/client-auth-and-uniformity)')


# ---------------------------------------------------------------------------------------------------
# T16/T17  SRP and anonymous key exchange: exception-to-alert mapping, result wiring (C05, C08)

def _kex_task(fname, makers_raise, label):
    from tlslite import errors as E
    rec = {'mk': 0, 'pr': 0}
    EXPECT = {'TLSUnknownPSKIdentity': AlertDescription.unknown_psk_identity,
              'TLSInsufficientSecurity': AlertDescription.insufficient_security,
              'TLSIllegalParameterException': AlertDescription.illegal_parameter,
              'TLSDecodeError': AlertDescription.decode_error,
              'TLSHandshakeFailure': AlertDescription.handshake_failure}

    def raising(name, classes, key):
        def h(ex, recv, args, kwargs, st, fr, node):
            rec[key] += 1
            r = fresh_opaque(name)
            st.ghost[name] = r
            outs = [Outcome('normal', st, r)]
            for cn in classes:
                bad = st.fork()
                bad.ghost['raised'] = VInt(z3.IntVal(int(EXPECT[cn])))
                outs.append(Outcome('raise', bad, VExc(getattr(E, cn), [], '%s raises %s' % (name, cn))))
            return outs
        return h

    exits = Exits()
    spec = M2Spec(hooks={'_sendError': h_sendError,
                         'makeServerKeyExchange': raising('ske', makers_raise, 'mk'),
                         'processClientKeyExchange': raising('premaster', ('TLSIllegalParameterException',
                                                                           'TLSDecodeError'), 'pr'),
                         '_pickServerKeyExchangeSig': raising('picked', ('TLSHandshakeFailure',), 'mk')},
                  pure={'getExtension', 'str'}, on_yield=exits.on_yield)

    def on_yield(ex, val, st, fr, ynode):
        if isinstance(ynode.value, ast.Name) and ynode.value.id == 'premasterSecret':
            exits.full.append((st.fork(), VTuple([val])))
        else:
            exits.on_yield(ex, val, st, fr, ynode)
    spec.on_yield = on_yield

    def check(api):
        entry = api.entry
        api.oblige(entry, 'cover:%s:hooks-and-exit-reached' % label, rec['mk'] >= 1 and rec['pr'] >= 1 and len(exits.full) >= 1)
        for (st, val) in exits.full:
            api.oblige(st, 'C05:%s:premaster-handed-on-is-the-one-processClientKeyExchange-computed' % label,
                       'premaster' in st.ghost and T(val.items[0]) == gv(st.ghost, 'premaster'))
        n = 0
        for o in api.raise_exits():
            if o.val.cls is NoReturn:
                r = o.st.ghost.get('raised')
                if r is not None:
                    n += 1
                    # C08 / C05 (SRP: unknown user => unknown_psk_identity; A % N == 0 => illegal_parameter)
                    api.oblige(o.st, 'C08:%s:library-exception-becomes-the-matching-fatal-alert' % label,
                               T(o.val.args[0]) == T(r))
            else:
                api.unreachable(o.st, 'C08:%s:no-exception-class-escapes:%s' % (label, getattr(o.val.cls, '__name__', '?')))
        api.oblige(entry, 'cover:%s:mapped-alert-exits-examined' % label, n >= 2)
    return spec, check


_spec16, _check16 = _kex_task('_serverSRPKeyExchange', ('TLSUnknownPSKIdentity', 'TLSInsufficientSecurity'), 'SRP')
m2s('_serverSRPKeyExchange/alerts-and-result', ('C05', 'C08'), TC + '_serverSRPKeyExchange', _spec16, check=_check16,
    doc='SRP: unknown user / weak group / bad A become unknown_psk_identity / insufficient_security / '
        'illegal_parameter alerts, nothing else escapes; the premaster handed on is processClientKeyExchange\'s')
_spec17, _check17 = _kex_task('_serverAnonKeyExchange', (), 'anon')
m2s('_serverAnonKeyExchange/alerts-and-result', ('C08',), TC + '_serverAnonKeyExchange', _spec17, check=_check17,
    doc='anonymous DH: bad client share becomes illegal_parameter / decode_error, nothing else escapes')


# ---------------------------------------------------------------------------------------------------
# T18  _serverFinished: order and arguments (C04, C05, C13)

def _t18():
    rec = {}

    def h(name):
        def hook(ex, recv, args, kwargs, st, fr, node):
            r = fresh_opaque(name)
            rec[name] = rec.get(name, 0) + 1
            st.ghost['r_' + name] = r
            st.ghost['t_' + name] = tick()
            for k, a in enumerate(args):
                st.ghost['%s_a%d' % (name, k)] = a
            for k, a in kwargs.items():
                st.ghost['%s_k_%s' % (name, k)] = a
            return [Outcome('normal', st, r)]
        return hook

    def store_ms(ex, obj, val, st, fr, node):
        st.ghost['session_ms'] = val

    names = ('_calculate_master_secret', '_calcPendingStates', '_getFinished', '_sendFinished')
    spec = M2Spec(hooks=dict((n, h(n)) for n in names), on_store={'masterSecret': store_ms})

    def check(api):
        entry = api.entry
        e = entry.env
        ex_ = api.normal_exits()
        api.oblige(entry, 'cover:normal-exit-and-four-calls', len(ex_) >= 1 and all(rec.get(n, 0) >= 1 for n in names))
        for o in ex_:
            g = o.st.ghost
            ms = gv(g, 'r__calculate_master_secret')
            api.oblige(o.st, 'C03:master-secret-from-(premaster, suite, client random, server random)',
                       z3.And([T(g['_calculate_master_secret_a%d' % k]) == T(e[n]) for k, n in
                               enumerate(('premasterSecret', 'cipherSuite', 'clientRandom', 'serverRandom'))]))
            api.oblige(o.st, 'C13:session-master-secret-is-the-computed-one', gv(g, 'session_ms') == ms)
            api.oblige(o.st, 'C03:pending-states-from-(suite, master secret, randoms, implementations)',
                       z3.And(gv(g, '_calcPendingStates_a0') == T(e['cipherSuite']), gv(g, '_calcPendingStates_a1') == ms,
                              gv(g, '_calcPendingStates_a2') == T(e['clientRandom']),
                              gv(g, '_calcPendingStates_a3') == T(e['serverRandom'])))
            # C04/C05/C13: the client's Finished is verified (under this master secret) BEFORE the server sends the
            # ticket / its own Finished -- a ticket carrying the client identity is issued only to a proven peer
            api.oblige(o.st, 'C04:client-Finished-checked-under-this-master-secret-before-ticket-and-server-Finished',
                       z3.And(gv(g, '_getFinished_a0') == ms, gv(g, '_sendFinished_a0') == ms,
                              tint(g.get('t__calcPendingStates')) < tint(g.get('t__getFinished')),
                              tint(g.get('t__getFinished')) < tint(g.get('t__sendFinished'))))
            # C06: the NPN extension is put into the ServerHello whenever the caller passed a protocol list (also an empty
            # one: `nextProtos is not None`); the NextProtocol message is then mandatory between the client's CCS and Finished
            enp = g.get('_getFinished_k_expect_next_protocol')
            api.oblige(o.st, 'C06:NextProtocol-is-expected-exactly-when-a-protocol-list-was-given(is-not-None)',
                       enp is not None and truthy(enp) == (T(e['nextProtos']) != v_none))
            api.oblige(o.st, 'C13:ticket-decision-and-client-chain-handed-to-_sendFinished-unchanged',
                       z3.And(gv(g, '_sendFinished_k_send_session_ticket') == T(e['send_session_ticket']),
                              gv(g, '_sendFinished_k_client_cert_chain') == T(e['client_cert_chain']),
                              gv(g, '_sendFinished_k_settings') == T(e['settings'])))
    return spec, check


_spec18, _check18 = _t18()
m2s('_serverFinished/order', ('C04', 'C03', 'C13', 'C06'), TC + '_serverFinished', _spec18, check=_check18,
    doc='full handshake <= TLS 1.2: master secret from the negotiated inputs, recorded in the session; the client '
        'Finished is checked before the server sends ticket, ChangeCipherSpec and Finished')


# ===================================================================================================
# live reproductions of the refuted obligations (specs/m2_server.py; failure classes for known_findings.json)
# ===================================================================================================
REG.xchecks.append({'prop': 'C08', 'module': 'specs.m2_server', 'name': 'server_clienthello', 'function': SGC})
REG.xchecks.append({'prop': 'C08', 'module': 'specs.m2_server', 'name': 'server_tls13_unbound', 'function': S13})
REG.xchecks.append({'prop': 'C03', 'module': 'specs.m2_server', 'name': 'server_version_floor', 'function': SGC})
REG.xchecks.append({'prop': 'C04', 'module': 'specs.m2_server', 'name': 'server_resumed_sentinel', 'function': SGC})

REG.note('C08', 'not_built', 'm2_server: dereference obligations are posed for _serverGetClientHello and '
                             '_serverTLS13Handshake (unbound locals) only; [k] subscripts with k other than 0/-1 and '
                             'dereferences inside opaque callees are not examined')
REG.note('C13', 'not_built', 'm2_server: TLS 1.3 ticket age / obfuscated_ticket_age window is not checked by the code '
                             'and not required here; PSK binder verification itself (HandshakeHelpers.verify_binder) '
                             'is an opaque callee')
REG.note('C05', 'not_built', 'm2_server: post-handshake authentication (_handle_srv_pha) and the SRP password proof '
                             '(Finished under the SRP premaster) are outside this module')
