"""Contracts on tlslite/recordlayer.py (C01, C02, C12 caller side)."""
import z3

import tlslite.recordlayer as RL
from tlslite.errors import TLSBadRecordMAC, TLSDecryptionFailed

from pyvc.contract import contract, scenario, LoopSpec, REG
from pyvc.state import T
from pyvc import spec as S
from pyvc.values import VInt, VBool, VSeq, VNone, to_val
S.to_val = to_val
from contracts.c12_cbc_check import spec_ok_vals

R = 'tlslite/recordlayer.py:'

VERSION = T.tuple(T.int(0, 255), T.int(0, 255))


def conn_state(mac=True, cipher='block', block_size=None):
    f = {'seqnum': T.int(0, (1 << 64) - 2), 'encryptThenMAC': T.bool(), 'fixedNonce': T.bytes()}
    f['macContext'] = T.mac() if mac else T.none()
    f['encContext'] = T.cipher(cipher, block_size=block_size) if cipher else T.none()
    return T.obj(RL.ConnectionState, **f)


def record_layer(read=None, write=None):
    f = {'_version': VERSION, '_tls13record': T.bool(), 'fixedIVBlock': T.bytes(),
         'send_record_limit': T.int(), 'client': T.bool()}
    if read is not None:
        f['_readState'] = read
    if write is not None:
        f['_writeState'] = write
    return T.obj(RL.RecordLayer, **f)


def tls10_12(v):
    return S.Or(v == (3, 0), v == (3, 1), v == (3, 2), v == (3, 3))


# --- ConnectionState.getSeqNumBytes -----------------------------------------
contract(R + 'ConnectionState.getSeqNumBytes',
         params={'self': T.obj(RL.ConnectionState, seqnum=T.int())},
         requires=lambda ns: (ns.f(ns.self, 'seqnum') >= 0) & (ns.f(ns.self, 'seqnum') < (1 << 64)),
         result=T.bytes(), modifies=[('self', 'seqnum')],
         ensures=lambda ns: S.And(S.seq_eq(ns.result, S.be(ns.old.f(ns.self, 'seqnum'), 8)),
                                  ns.f(ns.self, 'seqnum') == ns.old.f(ns.self, 'seqnum') + 1,
                                  S.len_(ns.result) == 8, S.is_bytes(ns.result)),
         prop=('C01', 'C02'),
         doc='returns the 8-byte big-endian encoding of the old sequence number and increments it by exactly one')


# --- RecordLayer.addPadding -------------------------------------------------
def _bs(ns):
    return ns.f(ns.f(ns.f(ns.self, '_writeState'), 'encContext'), 'block_size')


contract(R + 'RecordLayer.addPadding',
         params={'self': record_layer(write=conn_state()), 'data': T.bytes()},
         requires=lambda ns: (_bs(ns) >= 1) & (_bs(ns) <= 256),
         result=T.bytes(),
         ensures=lambda ns: (lambda d, r, bs, L: S.And(
             S.len_(r) % bs == 0,
             S.len_(r) > L, S.len_(r) <= L + bs,
             S.seq_eq(r[0:L], d),
             S.forall(lambda k: r[k] == S.len_(r) - L - 1, L, S.len_(r)),     # all pad bytes == padLength
             r[S.len_(r) - 1] == S.len_(r) - L - 1, r[S.len_(r) - 1] < bs))(
                 ns.data, ns.result, _bs(ns.old), S.len_(ns.data)),
         prop=('C01', 'C12'),
         doc='pads to a multiple of the block size with p+1 bytes of value p, 0 <= p < block size; stripping p+1 bytes gives the input back')


# --- RecordLayer.calculateMAC -----------------------------------------------
def mac_input(seq, ctype, version, data):
    """MAC input of RFC 5246 6.2.3.1 / RFC 6101 5.2.3.1"""
    n = S.len_(data)
    tls = S.cat(seq, S.byte(ctype), S.byte(version[0]), S.byte(version[1]), S.byte(n / 256), S.byte(n % 256), data)
    ssl = S.cat(seq, S.byte(ctype), S.byte(n / 256), S.byte(n % 256), data)
    return S.ite(version == (3, 0), ssl, tls)


contract(R + 'RecordLayer.calculateMAC',
         params={'self': record_layer(), 'mac': T.mac(), 'seqnumBytes': T.bytes(), 'contentType': T.int(),
                 'data': T.bytes()},
         requires=lambda ns: S.And(tls10_12(ns.f(ns.self, '_version')), ns.contentType >= 0, ns.contentType < 256,
                                   S.len_(ns.data) < 65536),
         result=T.bytes(), modifies=[('mac', 'fed')],
         ensures=lambda ns: S.And(
             S.seq_eq(ns.result, S.mac_digest(ns.f(ns.mac, 'key'),
                                              S.cat(ns.old.f(ns.mac, 'fed'),
                                                    mac_input(ns.seqnumBytes, ns.contentType,
                                                              ns.f(ns.self, '_version'), ns.data)))),
             S.len_(ns.result) == ns.f(ns.mac, 'digest_size')),
         prop=('C01', 'C02', 'C09'),
         doc='MAC over seq || type || [version] || u16(len) || data with the given keyed object')


# --- RecordLayer._decryptThenMAC (MAC-then-encrypt receive path, block ciphers)
def _rs(ns):
    return ns.f(ns.self, '_readState')


def _dtm_dec(ns):
    rs = _rs(ns)
    enc = ns.f(rs, 'encContext')
    return VSeq(S.Dec(S.to_val(ns.f(enc, 'key')), ns.f(enc, 'state').t, ns.data.t), 'byte')


def _dtm_cases(ns, fn):
    """fn(plain body) for the body after removal of the explicit IV (TLS >= 1.1)"""
    bs = ns.f(ns.f(_rs(ns), 'encContext'), 'block_size')
    d = _dtm_dec(ns)
    v = ns.f(ns.self, '_version')
    return S.ite(v >= (3, 2), fn(d[bs:]), fn(d))


def _dtm_ok(ns):
    rs = _rs(ns)
    mac = ns.f(rs, 'macContext')
    bs = ns.f(ns.f(rs, 'encContext'), 'block_size')
    return _dtm_cases(ns, lambda body: spec_ok_vals(body, ns.f(mac, 'key'), ns.f(mac, 'digest_size'),
                                                    S.be(ns.f(rs, 'seqnum'), 8), ns.recordType,
                                                    ns.f(ns.self, '_version'), bs))


def _dtm_requires(ns):
    rs = _rs(ns)
    mac = ns.f(rs, 'macContext')
    enc = ns.f(rs, 'encContext')
    return S.And(tls10_12(ns.f(ns.self, '_version')), ns.recordType >= 0, ns.recordType < 256,
                 S.len_(ns.data) < 65536,
                 ns.f(mac, 'digest_size') >= 1, ns.f(mac, 'digest_size') <= 64,
                 ns.f(mac, 'block_size') >= 1, ns.f(mac, 'block_size') <= 256,
                 ns.f(enc, 'block_size') >= 1, ns.f(enc, 'block_size') <= 256,
                 S.len_(ns.f(mac, 'fed')) == 0)


contract(R + 'RecordLayer._decryptThenMAC',
         params={'self': record_layer(read=conn_state(mac=True, cipher='block')), 'recordType': T.int(),
                 'data': T.bytes()},
         requires=_dtm_requires,
         result=T.bytes(),
         raises={TLSDecryptionFailed: ('iff', lambda ns: S.len_(ns.data) % ns.f(ns.f(_rs(ns), 'encContext'), 'block_size') != 0),
                 TLSBadRecordMAC: lambda ns: S.Not(_dtm_ok(ns))},
         ensures=lambda ns: (lambda ds: S.And(
             _dtm_ok(ns.old),
             _dtm_cases(ns.old, lambda d: S.seq_eq(ns.result, d[0:S.len_(d) - 1 - d[S.len_(d) - 1] - ds])),
             ns.f(_rs(ns), 'seqnum') == ns.old.f(_rs(ns.old), 'seqnum') + 1))(
                 ns.old.f(ns.old.f(_rs(ns.old), 'macContext'), 'digest_size')),
         prop=('C12', 'C02', 'C01'),
         doc='returns only bodies that satisfy the C12 specification under the receiver\'s own sequence number, key and '
             'cipher block size, stripped of exactly MAC+padding; otherwise TLSBadRecordMAC / TLSDecryptionFailed')
