"""C08: list-valued fields of RECEIVED extensions are None when the peer sent the extension with an empty body
(ListExtension / VarListExtension ... parse: `if parser.getRemainingLength() == 0: <field> = None`).  Wherever the
handshake code iterates over, searches (`in`), subscripts or measures such a field of an extension taken from a peer
message, a test of the field must dominate the use; otherwise the peer can make the call end in TypeError.
The (extension type, field) table is read off the real extension classes of the tree (contracts.m2_server.NONE_FIELDS).
Six defects of this family were found by these obligations / the accompanying concrete run and fixed (F32-F38)."""
import ast

import z3

from pyvc.m2 import M2Spec, NoReturn, fresh_opaque
from pyvc.m2x import m2xtask
from pyvc.executor import Outcome
from pyvc.values import VOpaque, to_val, v_truthy, v_none
from pyvc import smt
from pyvc.contract import REG
from contracts.m2_common import TC, TRL, h_sendError
from contracts.m2_server import NONE_FIELDS, is_ext_value, _ext_types_of, _needs_a_list, attr_t, site, src, apps

KXQ = 'tlslite/keyexchange.py:'


def _msg_terms(t):
    """message terms the extension value was looked up in"""
    out = []
    for e in apps([t], lambda e: e.decl().name() == 'pure_getExtension_2'):
        f = e.arg(0)
        if z3.is_app(f) and f.decl().name() == 'v_attr_getExtension':
            out.append(f.arg(0))
    return out


def _mk(own):
    seen = []

    def on_getattr(ex, v, name, st, fr, node):
        if not (isinstance(node, ast.Attribute) and isinstance(node.ctx, ast.Load)):
            return
        t = v.t
        if z3.is_app(t) and t.decl().name().startswith('v_attr_') and t.num_args() == 1 and is_ext_value(t.arg(0)):
            # attribute access ON the value of a field that is None for an empty extension body (x.server_share.group)
            fname = t.decl().name()[len('v_attr_'):]
            e_ = t.arg(0)
            msgs = _msg_terms(e_)
            if any((ty, fname) in NONE_FIELDS for ty in _ext_types_of(e_)) and \
                    not (msgs and all(any(o in str(m) for o in own) for m in msgs)):
                seen.append(src(node))
                ex.oblige(st, 'C08:received-extension-field-not-None-at-attribute-access:%s' % site(
                    fr, node, lambda n: isinstance(n, ast.Attribute) and src(n) == src(node), src(node)),
                    z3.Implies(e_ != v_none, z3.Or(t != v_none, v_truthy(t))), kind='m2')
            return
        if not is_ext_value(v.t):
            return
        if not any((t, name) in NONE_FIELDS for t in _ext_types_of(v.t)):
            return
        msgs = _msg_terms(v.t)
        if msgs and all(any(o in str(m) for o in own) for m in msgs):
            return                           # an extension of a message this endpoint built itself
        use = _needs_a_list(fr, node)
        if not use:
            return
        fld = attr_t(name, v.t)
        seen.append(src(node))
        ex.oblige(st, 'C08:received-extension-list-field-not-None-where-%s:%s' % (use.split()[0], site(
            fr, node, lambda n: isinstance(n, ast.Attribute) and src(n) == src(node), src(node))),
            z3.Implies(v.t != v_none, z3.Or(fld != v_none, v_truthy(fld))), kind='m2')

    def check(api):
        api.oblige(api.entry, 'executed', True)
    return on_getattr, check, seen


def _sgc_facts(get_ch, tls13):
    """setup: the ClientHello this function receives is the one _serverGetClientHello yielded; its exit facts
    (task _serverGetClientHello/peer-controlled-dereferences, obligations C08:full-exit#*:ClientHello-extension-*) hold.
    `tls13`: the function runs only when TLS 1.3 was negotiated, which happens only for a hello that offers it in
    supported_versions (task _serverGetClientHello/version-negotiation, TLS13-only-via-supported_versions)."""
    from contracts.m2_server import EXIT_FACTS, GETEXT, v_int, V_IN, tup

    def setup(ex, st, fr):
        ch = get_ch(ex, st, fr)
        if ch is None:
            return
        ch = to_val(ch)

        def ext_of_(t_):
            return GETEXT(attr_t('getExtension', ch), v_int(z3.IntVal(int(t_))))
        ver = ext_of_(43)
        offers13 = z3.And(ver != v_none, V_IN(tup(3, 4), attr_t('versions', ver)))
        if tls13:
            st.assume(offers13)
        for t_, fld, cond in EXIT_FACTS:
            e_ = ext_of_(t_)
            f_ = attr_t(fld, e_)
            goal = z3.Or(e_ == v_none, f_ != v_none, v_truthy(f_))
            st.assume(z3.Implies(offers13, goal) if cond else goal)
    return setup


def _param(name):
    return lambda ex, st, fr: st.env.get(name)


def _self_attr(name):
    def g(ex, st, fr):
        outs = ex.getattr_(st.env['self'], name, st, fr)
        return outs[0].val if outs and outs[0].kind == 'normal' else None
    return g


SETUPS = {
    '_handshakeServerAsyncHelper': None,           # obtains the hello from _serverGetClientHello itself: see hook below
    '_serverTLS13Handshake': _sgc_facts(_param('clientHello'), True),
    '_pickServerKeyExchangeSig': _sgc_facts(_param('clientHello'), False),
    '_serverCertKeyExchange': _sgc_facts(_param('clientHello'), False),
    '_serverSRPKeyExchange': _sgc_facts(_param('clientHello'), False),
    'AECDHKeyExchange.processClientKeyExchange': _sgc_facts(_self_attr('clientHello'), False),
    'AECDHKeyExchange.makeServerKeyExchange': _sgc_facts(_self_attr('clientHello'), False),
    'ADHKeyExchange.makeServerKeyExchange': _sgc_facts(_self_attr('clientHello'), False),
}


def h_sgc_result(ex, recv, args, kwargs, st, fr, node):
    """_serverGetClientHello(...) inside _handshakeServerAsyncHelper: item 0 of the yielded tuple is a ClientHello
    with the exit facts"""
    from contracts.m2_server import V_GETITEM, v_int
    r = fresh_opaque('sgc_result')
    ch = VOpaque(V_GETITEM(r.t, v_int(z3.IntVal(0))))
    _sgc_facts(lambda ex_, st_, fr_: ch, False)(ex, st, fr)
    ex.havoc_call('_serverGetClientHello', st)
    return [Outcome('normal', st, r)]


PURE = {'getExtension', 'len', 'isinstance', 'getattr', 'toRepr', 'getHash', 'getPadding', 'decode', '_getPRFParams',
        'HKDF_expand_label', 'derive_secret', 'secureHMAC', 'copy', 'digest', 'toStr', 'format', 'str'}

TASKS = [
    # (label, qualified name, substrings naming messages built by this endpoint)
    ('_handshakeServerAsyncHelper', TC + '_handshakeServerAsyncHelper', ('serverHello', 'ServerHello')),
    ('_serverTLS13Handshake', TC + '_serverTLS13Handshake', ('serverHello', 'ServerHello', 'encryptedExtensions', 'EncryptedExtensions', 'certificate_request', 'CertificateRequest')),
    ('_server_select_certificate', TC + '_server_select_certificate', ('serverHello',)),
    ('_pickServerKeyExchangeSig', TC + '_pickServerKeyExchangeSig', ('serverHello',)),
    ('_serverCertKeyExchange', TC + '_serverCertKeyExchange', ('serverHello',)),
    ('_serverSRPKeyExchange', TC + '_serverSRPKeyExchange', ('serverHello',)),
    ('_handshakeClientAsyncHelper', TC + '_handshakeClientAsyncHelper', ('clientHello', 'ClientHello')),
    ('_clientGetServerHello', TC + '_clientGetServerHello', ('clientHello', 'ClientHello')),
    ('_clientTLS13Handshake', TC + '_clientTLS13Handshake', ('clientHello', 'ClientHello')),
    ('_clientKeyExchange', TC + '_clientKeyExchange', ('clientHello', 'ClientHello')),
    ('AECDHKeyExchange.processServerKeyExchange', KXQ + 'AECDHKeyExchange.processServerKeyExchange', ('clientHello',)),
    ('AECDHKeyExchange.processClientKeyExchange', KXQ + 'AECDHKeyExchange.processClientKeyExchange', ('serverHello',)),
    ('AECDHKeyExchange.makeServerKeyExchange', KXQ + 'AECDHKeyExchange.makeServerKeyExchange', ('serverHello',)),
    ('ADHKeyExchange.makeServerKeyExchange', KXQ + 'ADHKeyExchange.makeServerKeyExchange', ('serverHello',)),
    ('_handle_pha', TRL + '_handle_pha', ()),
]

#: exit facts of _clientGetServerHello about the ServerHello it yields (proved by its task below, assumed by the helper)
CLIENT_EXIT_FACTS = [(11, 'formats')]


def h_cgsh_result(ex, recv, args, kwargs, st, fr, node):
    from contracts.m2_server import GETEXT, v_int
    sh = fresh_opaque('serverHello')
    for t_, fld in CLIENT_EXIT_FACTS:
        e_ = GETEXT(attr_t('getExtension', sh.t), v_int(z3.IntVal(t_)))
        f_ = attr_t(fld, e_)
        st.assume(z3.Or(e_ == v_none, f_ != v_none, v_truthy(f_)))
    st.assume(v_truthy(sh.t))
    ex.havoc_call('_clientGetServerHello', st)
    return [Outcome('normal', st, sh)]


def _mk_client_exit_check(inner_check, yields):
    def check(api):
        from contracts.m2_server import GETEXT, v_int, _ext_objects_truthy
        inner_check(api)
        api.oblige(api.entry, 'cover:ServerHello-yielded', len(yields) >= 1)
        for j, (st, val) in enumerate(yields, 1):
            for t_, fld in CLIENT_EXIT_FACTS:
                e_ = GETEXT(attr_t('getExtension', to_val(val)), v_int(z3.IntVal(t_)))
                f_ = attr_t(fld, e_)
                api.oblige(st, 'C08:exit#%d:ServerHello-extension-%d.%s-is-not-None' % (j, t_, fld),
                           z3.Implies(_ext_objects_truthy(st, e_), z3.Or(e_ == v_none, f_ != v_none, v_truthy(f_))))
    return check


for _label, _q, _own in TASKS:
    try:
        from pyvc import source
        source.load(_q)
    except Exception:
        continue
    _og, _ck, _seen = _mk(_own)
    _hooks = {'_sendError': h_sendError}
    if _label == '_handshakeServerAsyncHelper':
        _hooks['_serverGetClientHello'] = h_sgc_result
    if _label == '_handshakeClientAsyncHelper':
        _hooks['_clientGetServerHello'] = h_cgsh_result
    _spec = M2Spec(hooks=_hooks, pure=PURE)
    _spec.on_getattr = _og
    if _label == '_clientGetServerHello':
        _yields = []

        def _on_yield(ex, val, st, fr, ynode, _y=_yields):
            if isinstance(ynode.value, ast.Name) and ynode.value.id == 'serverHello':
                _y.append((st.fork(), val))
        _spec.on_yield = _on_yield
        _ck = _mk_client_exit_check(_ck, _yields)
    m2xtask('%s/received-extension-list-fields' % _label, ('C08',), _q, _spec, check=_ck, setup=SETUPS.get(_label),
            opts={'ground_feasible': True, 'comprehension_facts': True, 'keep_comprehension_obligations': True},
            doc='every iteration / `in` search / subscript / len() of a list field of an extension taken from a peer message is '
                'dominated by a test of that field (the field is None for an empty extension body)')

REG.note('C08', 'trusted', 'm2_ext_none: which extension fields can be None is read off the real classes (empty-body parse); '
                           'getExtension is a pure lookup; an extension of a message built by this endpoint is never empty-bodied')
REG.xchecks.append({'prop': 'C08', 'module': 'specs.empty_ext', 'name': 'server_malformed_extension_bodies', 'function': TC + '_serverGetClientHello'})
REG.xchecks.append({'prop': 'C08', 'module': 'specs.empty_ext', 'name': 'client_malformed_server_hello_extension_bodies', 'function': TC + '_clientGetServerHello'})
