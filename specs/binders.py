"""Bounded stand-in for C04 on ClientHello.psk_truncate (RFC 8446 4.2.11.2: the binders list, with its 2-byte length, is
the LAST thing in the ClientHello; the transcript for the binders is the hello truncated right before it)."""
from tlslite.messages import ClientHello
from tlslite.extensions import PreSharedKeyExtension, PskIdentity, SNIExtension, TLSExtension
from tlslite.constants import CipherSuite


def _enc_binders(binders):
    body = b''.join(bytes([len(b)]) + bytes(b) for b in binders)
    return len(body).to_bytes(2, 'big') + body


def xcheck_psk_truncate(rng, n):
    fails, ev = [], 0
    for _ in range(min(n, 300)):
        k = rng.randrange(1, 5)
        idents = [PskIdentity().create(bytearray(rng.randrange(256) for _ in range(rng.choice([1, 5, 40, 300]))), rng.randrange(2 ** 32))
                  for _ in range(k)]
        binders = [bytearray(rng.randrange(256) for _ in range(rng.choice([32, 48, 1, 255]))) for _ in range(k)]
        psk = PreSharedKeyExtension().create(idents, binders)
        exts = [SNIExtension().create(bytearray(b'example.com')), TLSExtension(extType=0xff01).create(0xff01, bytearray(1)), psk]
        ch = ClientHello().create((3, 3), bytearray(32), bytearray(rng.randrange(256) for _ in range(rng.choice([0, 32]))),
                                  [CipherSuite.TLS_AES_128_GCM_SHA256], extensions=exts)
        full = bytes(ch.write())
        tr = bytes(ch.psk_truncate())
        ev += 1
        tail = _enc_binders(binders)
        if full != tr + tail:
            fails.append({'class': 'psk-truncate-does-not-cut-exactly-the-binders',
                          'what': 'write() != psk_truncate() || binders list (%d binders, lengths %s): truncated %d of %d bytes, binders encoding is %d bytes'
                                  % (k, [len(b) for b in binders], len(full) - len(tr), len(full), len(tail)),
                          'input': {'binders': [len(b) for b in binders], 'identities': [len(i.identity) for i in idents]}})
    return {'evaluations': ev, 'distinct_nontrivial': ev, 'bound': '300 random ClientHellos with 1-4 PSK identities', 'failures': fails[:5]}


XCHECKS = {'psk_truncate': xcheck_psk_truncate}
