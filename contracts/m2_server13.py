"""M2 tasks on TLSConnection._serverTLS13Handshake (server side of TLS 1.3):
  C05  the client chain recorded in the session is None, the chain of a ticket this server issued (resumption), or the chain of
       the received Certificate whose end-entity key verified the received CertificateVerify over the transcript snapshot
       taken before that message, with a scheme the server accepts;
  C05/C13  a PSK identity is announced (SrvPreSharedKeyExtension) only after verify_binder returned normally for that very
       position and secret;
  C06  the client flight after the server Finished is [Certificate [CertificateVerify]] Finished: Certificate awaited only if
       requested and no PSK, CertificateVerify only after a non-empty Certificate, Finished last; the client Finished is
       compared in full with the HMAC over the transcript before it."""
import ast

import z3

from pyvc.m2 import M2Spec, m2task, NoReturn, fresh_opaque
from pyvc.executor import Outcome
from pyvc.values import VBool, VPy, VOpaque, VInt, VNone, VTuple, VExc, truthy, to_val, eq_op, v_truthy, v_none
from pyvc import smt
from pyvc.contract import REG
from tlslite.constants import HandshakeType, ContentType
from tlslite.errors import TLSIllegalParameterException
from contracts.m2_common import TC, h_sendError

Val = smt.Val
GETITEM = z3.Function('v_getitem', Val, Val, Val)
TRUE, FALSE = z3.BoolVal(True), z3.BoolVal(False)
HT = HandshakeType


def T(v):
    return v if z3.is_expr(v) else to_val(v)


def attr(name, v):
    return z3.Function('v_attr_' + name, Val, Val)(T(v))


def gb(st, k):
    v = st.ghost.get(k)
    return FALSE if v is None else truthy(v)


def gset(st, k, b=True):
    st.ghost[k] = VBool(z3.BoolVal(b) if isinstance(b, bool) else b)


def OB(ex, st, name, goal):
    ex.oblige(st, name, z3.BoolVal(goal) if isinstance(goal, bool) else goal, kind='m2')


def _const_types(ex, node, st, fr):
    if len(node.args) < 2:
        return None
    outs = ex.eval(node.args[1], st.fork(), fr)
    if not outs or outs[0].kind != 'normal':
        return None
    v = outs[0].val
    vals = v.items if isinstance(v, VTuple) else [v]
    res, todo, seen = set(), [T(x) for x in vals], set()
    while todo:
        t = todo.pop()
        if t.get_id() in seen:
            continue
        seen.add(t.get_id())
        if z3.is_int_value(t):
            res.add(t.as_long())
        todo.extend(t.children())
    return res or None


COUNT = {'getmsg': 0, 'psk_create': 0, 'session_create': 0}


def h_getMsg(ex, recv, args, kwargs, st, fr, node):
    COUNT['getmsg'] += 1
    ts = _const_types(ex, node, st, fr)
    m = fresh_opaque('client_msg')
    L = node.lineno
    OB(ex, st, 'order@L%d:only-handshake-records-awaited' % L,
       len(args) >= 1 and T(args[0]) == T(VInt(ContentType.handshake)))
    OB(ex, st, 'order@L%d:client-flight-read-only-after-own-Finished-was-flushed' % L, gb(st, 'own_finished_flushed'))
    if ts is None:
        OB(ex, st, 'order@L%d:expected-types-are-constants' % L, False)
        return [Outcome('normal', st, m)]
    if ts <= {HT.certificate, HT.compressed_certificate}:
        req = st.env.get('reqCert')
        sp = st.env.get('selected_psk')
        OB(ex, st, 'order@L%d:Certificate-awaited-only-if-requested-and-not-a-PSK-handshake(RFC8446-4.3.2)' % L,
           req is not None and sp is not None and z3.And(truthy(req), T(sp) == v_none))
        OB(ex, st, 'order@L%d:Certificate-is-the-first-message-of-the-client-flight' % L,
           z3.Not(z3.Or(gb(st, 'got_cert'), gb(st, 'got_cv'), gb(st, 'got_fin'))))
        gset(st, 'got_cert')
        st.ghost['cert_msg'] = m
    elif ts == {HT.certificate_verify}:
        cm = st.ghost.get('cert_msg')
        chain = st.env.get('client_cert_chain')
        OB(ex, st, 'order@L%d:CertificateVerify-awaited-only-after-a-non-empty-client-Certificate' % L,
           cm is not None and chain is not None and
           z3.And(gb(st, 'got_cert'), z3.Not(gb(st, 'got_cv')), z3.Not(gb(st, 'got_fin')),
                  T(chain) == attr('cert_chain', cm), v_truthy(T(chain))))
        snap = st.env.get('cli_cert_verify_hh')
        OB(ex, st, 'order@L%d:transcript-snapshot-for-CertificateVerify-taken-before-reading-it' % L,
           snap is not None and gb(st, 'snapshot_current'))
        gset(st, 'got_cv')
        st.ghost['cv_msg'] = m
    elif ts == {HT.finished}:
        OB(ex, st, 'order@L%d:Finished-awaited-last(after-Certificate-and-CertificateVerify-when-a-chain-was-sent)' % L,
           z3.And(z3.Not(gb(st, 'got_fin')),
                  z3.Implies(z3.And(gb(st, 'got_cert'), gb(st, 'chain_nonempty')), gb(st, 'got_cv'))))
        OB(ex, st, 'order@L%d:expected-Finished-MAC-computed-over-the-transcript-before-the-client-Finished' % L,
           gb(st, 'cl_verify_data_current'))
        gset(st, 'got_fin')
        st.ghost['fin_msg'] = m
    else:
        OB(ex, st, 'order@L%d:unexpected-message-types-awaited:%s' % (L, sorted(ts)), False)
    # reading a message advances the transcript: snapshots taken before are no longer current
    gset(st, 'snapshot_current', False)
    gset(st, 'cl_verify_data_current', False)
    return [Outcome('normal', st, m)]


def h_copy(ex, recv, args, kwargs, st, fr, node):
    """self._handshake_hash.copy()"""
    r = fresh_opaque('hh_copy')
    src = ast.unparse(node.func.value) if isinstance(node.func, ast.Attribute) else ''
    if src == 'self._handshake_hash':
        tgt = None
        gset(st, 'snapshot_current', True)
        st.ghost['snapshot'] = r
    return [Outcome('normal', st, r)]


def h_digest(ex, recv, args, kwargs, st, fr, node):
    r = fresh_opaque('hh_digest')
    src = ast.unparse(node.func.value) if isinstance(node.func, ast.Attribute) else ''
    if src == 'self._handshake_hash':
        st.ghost['last_digest'] = r
        gset(st, 'digest_current', True)
    return [Outcome('normal', st, r)]


def h_secureHMAC(ex, recv, args, kwargs, st, fr, node):
    r = fresh_opaque('hmac')
    ld = st.ghost.get('last_digest')
    if ld is not None and len(args) >= 2 and args[1] is ld:
        st.ghost['hmac_over_digest'] = r
        st.ghost['hmac_key'] = args[0]
        gset(st, 'cl_verify_data_current', gb(st, 'digest_current'))
    return [Outcome('normal', st, r)]


def h_queue_flush(ex, recv, args, kwargs, st, fr, node):
    gset(st, 'own_finished_flushed', gb(st, 'own_finished_queued'))
    gset(st, 'snapshot_current', False)
    gset(st, 'digest_current', False)
    return [Outcome('normal', st, fresh_opaque('flushed'))]


def h_queue_message(ex, recv, args, kwargs, st, fr, node):
    src = ast.unparse(node.args[0]) if node.args else ''
    if src == 'finished':
        gset(st, 'own_finished_queued')
    gset(st, 'snapshot_current', False)
    gset(st, 'digest_current', False)
    return [Outcome('normal', st, fresh_opaque('queued'))]


def h_time(ex, recv, args, kwargs, st, fr, node):
    src = ast.unparse(node.func)
    r = fresh_opaque('now')
    if src == 'time.time':
        st.ghost['now'] = r
    return [Outcome('normal', st, r)]


def _cmp(n):
    return z3.Function('v_cmp_' + n, Val, Val, smt.B)


def h_verify_binder(ex, recv, args, kwargs, st, fr, node):
    # C13: a ticket-derived PSK is used only if the ticket has not expired:  not (creation_time + ticketLifetime < now)
    tk, now = st.env.get('ticket'), st.ghost.get('now')
    if tk is not None:
        if now is None:
            OB(ex, st, 'psk:ticket-age-checked-against-settings.ticketLifetime-before-the-ticket-is-used', z3.Not(v_truthy(T(tk))))
        else:
            total = z3.Function('v_binop_Add', Val, Val, Val)(attr('creation_time', tk), attr('ticketLifetime', st.env['settings']))
            n = T(now)
            expired = _cmp('lt')(total, n)
            order = z3.And(_cmp('gt')(n, total) == expired, _cmp('le')(n, total) == z3.Not(expired),
                           _cmp('ge')(total, n) == z3.Not(expired))
            OB(ex, st, 'psk:ticket-age-checked-against-settings.ticketLifetime-before-the-ticket-is-used',
               z3.Implies(order, z3.Or(z3.Not(v_truthy(T(tk))), z3.Not(expired))))
    # C13/C05: the binder key derivation depends on where the PSK came from (RFC 8446 7.1 "ext binder" | "res binder"):
    # external exactly for a PSK of settings.pskConfigs, resumption exactly for a ticket decrypted for THIS identity
    td = st.ghost.get('tryDecrypt_result')
    if len(args) > 5 and tk is not None:
        ext_ = T(args[5])
        from pyvc.values import VBool as _VB
        is_true, is_false = ext_ == T(_VB(TRUE)), ext_ == T(_VB(FALSE))
        from_ticket = FALSE if td is None else T(tk) == GETITEM(T(td), T(VInt(1)))
        OB(ex, st, 'psk:binder-flavour(external|resumption)-matches-the-origin-of-this-identitys-PSK',
           z3.Or(z3.And(is_true, T(tk) == v_none), z3.And(is_false, from_ticket)))
    ok, bad = st, st.fork()
    ok.ghost['binder_pos'] = args[2] if len(args) > 2 else None
    ok.ghost['binder_secret'] = args[3] if len(args) > 3 else None
    ok.ghost['binder_ch'] = args[0] if args else None
    gset(ok, 'binder_ok')
    return [Outcome('normal', ok, VNone()),
            Outcome('raise', bad, VExc(TLSIllegalParameterException, [], 'verify_binder line %d' % node.lineno))]


def h_tryDecrypt(ex, recv, args, kwargs, st, fr, node):
    r = fresh_opaque('tryDecrypt')
    st.ghost['tryDecrypt_result'] = r
    return [Outcome('normal', st, r)]


def h_ver_func(ex, recv, args, kwargs, st, fr, node):
    if 'got_fin' not in st.ghost and not gb(st, 'got_cv') is FALSE and st.env.get('public_key') is None:
        return None
    if st.env.get('public_key') is None:
        return None                      # the server's own CertificateVerify (sign-then-verify: C10 task)
    r = fresh_opaque('cv_verify_result')
    st.ghost['ver_result'] = r
    st.ghost['ver_sig'] = args[0] if len(args) >= 2 else None
    st.ghost['ver_ctx'] = args[1] if len(args) >= 2 else None
    st.ghost['ver_func'] = st.env.get('ver_func')
    st.ghost['ver_key'] = st.env.get('public_key')
    sch, lst = st.env.get('signature_scheme'), st.ghost.get('valid_sig_algs')
    st.ghost['ver_scheme_ok'] = VBool(FALSE if sch is None or lst is None else
                                      z3.And(z3.Function('v_in', Val, Val, smt.B)(T(sch), T(lst)), gb(st, 'valid_sig_algs_from_settings_and_chain')))
    return [Outcome('normal', st, r)]


def h_calcVerifyBytes(ex, recv, args, kwargs, st, fr, node):
    r = fresh_opaque('verify_bytes')
    if len(args) >= 8 and isinstance(args[7], object):
        role = args[7]
        from pyvc.executor import lift_py
        if z3.is_true(z3.simplify(eq_op(role, lift_py(b'client')).t)):
            st.ghost['cvb_result'] = r
            st.ghost['cvb_hh'] = args[1]
            st.ghost['cvb_scheme'] = args[2]
            st.ghost['cvb_snapshot_ok'] = VBool(z3.BoolVal(args[1] is st.ghost.get('snapshot')))
    return [Outcome('normal', st, r)]


def h_sigHashesToList(ex, recv, args, kwargs, st, fr, node):
    r = fresh_opaque('valid_sig_algs')
    if 'certList' in kwargs:
        st.ghost['valid_sig_algs'] = r
        chain = st.env.get('client_cert_chain')
        gset(st, 'valid_sig_algs_from_settings_and_chain',
             z3.And(T(args[0]) == T(st.env['settings']), T(kwargs['certList']) == T(chain) if chain is not None else FALSE,
                    T(kwargs.get('version', VNone())) == T(VTuple([VInt(3), VInt(4)]))))
    return [Outcome('normal', st, r)]


def h_getkey(ex, recv, args, kwargs, st, fr, node):
    r = fresh_opaque('end_entity_key')
    st.ghost['key_of_chain'] = recv
    st.ghost['key'] = r
    return [Outcome('normal', st, r)]


def h_create(ex, recv, args, kwargs, st, fr, node):
    src = ast.unparse(node.func.value) if isinstance(node.func, ast.Attribute) else ''
    if 'SrvPreSharedKeyExtension' in src:
        COUNT['psk_create'] += 1
        pos = st.ghost.get('binder_pos')
        OB(ex, st, 'psk:identity-announced-only-after-its-binder-verified(position,secret,this-ClientHello)',
           pos is not None and len(args) == 1 and
           z3.And(gb(st, 'binder_ok'), T(args[0]) == T(pos), T(st.ghost['binder_secret']) == T(st.env['psk']),
                  T(st.ghost['binder_ch']) == T(st.env['clientHello'])))
        return None
    if 'resumptionMasterSecret' in kwargs:
        COUNT['session_create'] += 1
        chain = args[4]
        g = st.ghost
        cm, cvm = g.get('cert_msg'), g.get('cv_msg')
        res_chain = st.env.get('resumed_client_cert_chain')
        from_ticket = FALSE if res_chain is None else z3.And(T(chain) == T(res_chain), gb(st, 'binder_ok'))
        ncerts = z3.Function('pure_getNumCerts_1', Val, Val)(attr('getNumCerts', chain))
        # None, an empty chain (no identity attributed), or the chain of a ticket whose binder verified
        other = z3.Or(T(chain) == v_none, z3.Not(v_truthy(T(chain))), z3.Not(v_truthy(ncerts)), from_ticket)
        need = ('ver_result', 'ver_sig', 'ver_ctx', 'ver_func', 'ver_key', 'cvb_result', 'key', 'key_of_chain')
        if all(g.get(k) is not None for k in need) and cm is not None and cvm is not None:
            va = [g['ver_sig'], g['ver_ctx']]
            k = T(g['ver_key'])
            parts = [
                ('CertificateVerify-verified', v_truthy(T(g['ver_result']))),
                ('chain-is-that-of-the-received-Certificate', T(chain) == attr('cert_chain', cm)),
                ('verifying-key-is-the-end-entity-key-of-that-chain', z3.And(T(g['key_of_chain']) == T(chain), k == T(g['key']))),
                ('verify-method-of-that-key', z3.Or(T(g['ver_func']) == attr('verify', k), T(g['ver_func']) == attr('hashAndVerify', k))),
                ('signature-of-the-received-CertificateVerify', T(va[0]) == attr('signature', cvm)),
                ('over-calcVerifyBytes(client)-of-the-snapshot-taken-before-CertificateVerify',
                 z3.And(T(va[1]) == T(g['cvb_result']), truthy(g['cvb_snapshot_ok']))),
                ('for-the-scheme-in-the-message-which-is-among-the-accepted-ones',
                 z3.And(T(g['cvb_scheme']) == attr('signatureAlgorithm', cvm), truthy(g['ver_scheme_ok']))),
            ]
            for nm, goal in parts:
                OB(ex, st, 'session:client-chain-recorded-only-if-None/empty/from-binder-verified-ticket-or:' + nm, z3.Or(other, goal))
        else:
            OB(ex, st, 'session:client-chain-is-None/empty-or-the-binder-verified-tickets-chain(no-CertificateVerify-on-this-path)', other)
        fm, hm = g.get('fin_msg'), g.get('hmac_over_digest')
        OB(ex, st, 'session:created-only-after-the-client-Finished-equalled-the-HMAC-over-the-transcript-before-it',
           fm is not None and hm is not None and z3.And(attr('verify_data', fm) == T(hm), gb(st, 'got_fin'),
                                                        T(g['hmac_key']) == T(st.env['cl_finished_key'])))
        return None
    return None


def h_sendTickets(ex, recv, args, kwargs, st, fr, node):
    gset(st, 'tickets_sent')
    gset(st, 'snapshot_current', False)
    gset(st, 'digest_current', False)
    ex.havoc_call('_serverSendTickets', st)
    return [Outcome('normal', st, fresh_opaque('tickets'))]


def store_first_hashes(ex, obj, val, st, fr, node):
    # C16: post-handshake authentication signs  Transcript-Hash(handshake .. client Finished || CertificateRequest || ...);
    # both ends keep a snapshot of the transcript taken right after the client Finished -- before NewSessionTickets
    snap = st.ghost.get('snapshot')
    OB(ex, st, 'pha-base:_first_handshake_hashes-is-a-snapshot-taken-after-the-client-Finished-and-before-any-NewSessionTicket',
       snap is not None and z3.And(gb(st, 'got_fin'), z3.Not(gb(st, 'tickets_sent')), gb(st, 'snapshot_current'), T(val) == T(snap)))
    gset(st, 'fhh_stored')


SPEC = M2Spec(hooks={'_sendError': h_sendError, '_getMsg': h_getMsg, 'copy': h_copy, 'digest': h_digest,
                     'secureHMAC': h_secureHMAC, '_queue_flush': h_queue_flush, '_queue_message': h_queue_message,
                     'verify_binder': h_verify_binder, 'time': h_time, '_tryDecrypt': h_tryDecrypt, 'ver_func': h_ver_func, 'calcVerifyBytes': h_calcVerifyBytes,
                     'getEndEntityPublicKey': h_getkey, '_sigHashesToList': h_sigHashesToList, 'create': h_create,
                     '_serverSendTickets': h_sendTickets},
              on_store={'_first_handshake_hashes': store_first_hashes},
              pure={'getExtension', 'toRepr', 'getHash', 'getPadding', 'isinstance', 'len', 'HKDF_expand_label',
                    'derive_secret', 'decode', '_getPRFParams', 'getattr', 'getNumCerts'})


def _check(api):
    api.oblige(api.entry, 'has-normal-exit', len(api.normal_exits()) >= 1)
    for o in api.normal_exits():
        api.oblige(o.st, 'pha-base:_first_handshake_hashes-stored-before-completion', gb(o.st, 'fhh_stored'))
    api.oblige(api.entry, 'cover:three-_getMsg-sites,PSK-announcement-and-Session.create-reached',
               COUNT['getmsg'] >= 3 and COUNT['psk_create'] >= 1 and COUNT['session_create'] >= 1)


m2task('_serverTLS13Handshake/client-auth-psk-and-flight-order', ('C05', 'C06', 'C13', 'C16'), TC + '_serverTLS13Handshake', SPEC,
       check=_check, opts={'ground_feasible': True, 'loop_preserved_names': True},
       doc='TLS 1.3 server: client chain recorded only when proved by CertificateVerify (key of that chain, signature of the '
           'received message, transcript snapshot before it, accepted scheme) or taken from a binder-verified ticket; PSK '
           'announced only after verify_binder succeeded for it; client flight order [Certificate [CertificateVerify]] Finished')
REG.xchecks.append({'prop': 'C13', 'module': 'specs.resumption13', 'name': 'tls13_expired_ticket', 'function': TC + '_serverTLS13Handshake'})
