"""Small additive models: true division / float constants as exact reals, math.ceil / math.floor,
ord, callable.

Floats are modelled as exact real numbers (z3 Real).  This is exact for the uses it is meant for
(`len(x) / 2.0`, `math.ceil(n / 2.0)`): an int below 2**53 converts to a double exactly and division
by a power of two is exact in binary floating point.  Every true division therefore records the
assumption "operands below 2**53 in magnitude" in the executor's assumption list.
"""
import builtins
import math
from fractions import Fraction

import z3

from .values import V, VInt, VBool, VStr, VSeq, VNone, VObj, VPy, VTuple, VList, Unsupported
from .builtins_model import model, _out, _raise


class VReal(V):
    def __init__(self, t):
        self.t = t

    def __repr__(self):
        return 'VReal(%s)' % self.t


def const(v):
    fr = Fraction(v)
    return VReal(z3.RealVal('%d/%d' % (fr.numerator, fr.denominator)))


def _real(ex, v):
    if isinstance(v, VReal):
        return v.t
    if isinstance(v, (VInt, VBool)):
        v = ex._as_int(v)
        if v.is_bv():
            raise Unsupported('float arithmetic in bit-vector mode')
        return z3.ToReal(v.t)
    raise Unsupported('float operand %r' % (v,))


def truediv(ex, a, b, st, node):
    x, y = _real(ex, a), _real(ex, b)
    ex.assumptions.add('float arithmetic modelled as exact real arithmetic (exact for |operands| < 2**53 and '
                       'power-of-two divisors)')
    out = []
    ok, bad = ex.split(st, y != 0)
    if bad is not None:
        out.append(ex.raise_(bad, ZeroDivisionError, 'line %d' % getattr(node, 'lineno', 0)))
    if ok is not None:
        from .executor import Outcome
        out.append(Outcome('normal', ok, VReal(x / y)))
    return out


@model(math.floor)
def m_floor(ex, args, kw, st, fr, node):
    v = args[0]
    if isinstance(v, VInt):
        return _out(st, v)
    return _out(st, VInt(z3.ToInt(_real(ex, v))))


@model(math.ceil)
def m_ceil(ex, args, kw, st, fr, node):
    v = args[0]
    if isinstance(v, VInt):
        return _out(st, v)
    return _out(st, VInt(-z3.ToInt(-_real(ex, v))))


@model(builtins.ord)
def m_ord(ex, args, kw, st, fr, node):
    v = args[0]
    if isinstance(v, VStr) and len(v.s) == 1:
        return _out(st, VInt(ord(v.s)))
    raise Unsupported('ord(%r)' % (v,))


@model(builtins.callable)
def m_callable(ex, args, kw, st, fr, node):
    v = args[0]
    if isinstance(v, VPy):
        return _out(st, VBool(z3.BoolVal(callable(v.obj))))
    if isinstance(v, (VStr, VSeq, VInt, VBool, VNone, VTuple, VList)):
        return _out(st, VBool(z3.BoolVal(False)))
    if isinstance(v, VObj):
        import inspect
        if inspect.isclass(v.cls):
            return _out(st, VBool(z3.BoolVal(hasattr(v.cls, '__call__'))))
        m = ex.reg.models.get(v.cls)
        if m is not None:
            return _out(st, VBool(z3.BoolVal(bool(getattr(m, 'callable', False)))))
    raise Unsupported('callable(%r)' % (v,))


# hasattr on plain values (str / bytes / int ...): decided on the Python type; everything else as before



def _install_hasattr():
    from . import builtins_model as bm
    prev = bm.lookup(builtins.hasattr)

    @model(builtins.hasattr)
    def m_hasattr(ex, args, kw, st, fr, node):
        o, n = args
        if isinstance(n, VStr):
            if isinstance(o, VStr):
                return _out(st, VBool(z3.BoolVal(hasattr(o.s, n.s))))
            if isinstance(o, VSeq) and o.pytype in ('bytes', 'bytearray', 'list'):
                return _out(st, VBool(z3.BoolVal(hasattr({'bytes': b'', 'bytearray': bytearray(), 'list': []}[o.pytype], n.s))))
            if isinstance(o, VNone):
                return _out(st, VBool(z3.BoolVal(hasattr(None, n.s))))
            if isinstance(o, VObj) and not isinstance(o.cls, type) and (o.oid, n.s) not in st.heap:
                m = ex.reg.models.get(o.cls)
                if m is not None and m.getattr(ex, o, n.s, st) is not None:
                    return _out(st, VBool(z3.BoolVal(True)))
        return prev(ex, args, kw, st, fr, node)


_install_hasattr()
