"""Executable reference for the TLS presentation-language primitives (RFC 8446 section 3: fixed-width
big-endian integers, fixed vectors, variable-length vectors with a byte-length prefix), written from the
RFC / property C15 -- not from tlslite's code -- and differential runs against the real
tlslite.utils.codec.Writer / Parser (C15 framing, C08 clean failure).

Pure Python, runs under /venv/bin/python; imports tlslite only inside the XCHECKS.
"""


class RefEncodeError(Exception):
    """value does not fit its field"""


class RefDecodeError(Exception):
    """input does not have the declared framing"""


# ---------------------------------------------------------------------------
# reference encoder: pure functions returning the bytes to append

def enc_uint(x, n):
    if n < 0 or x < 0 or x >= 256 ** n:
        raise RefEncodeError('%r does not fit %r bytes' % (x, n))
    out = []
    for _ in range(n):
        out.append(x % 256)
        x //= 256
    return bytes(reversed(out))


def enc_fix_seq(seq, n):
    return b''.join(enc_uint(e, n) for e in seq)


def enc_var_seq(seq, n, ll):
    body_len = len(seq) * n
    return enc_uint(body_len, ll) + enc_fix_seq(seq, n)


def enc_var_tuple_seq(seq, n, ll):
    if not seq:
        return enc_uint(0, ll)
    arity = len(seq[0])
    if any(len(t) != arity for t in seq):
        raise RefEncodeError('tuples of different lengths')
    head = enc_uint(len(seq) * arity * n, ll)
    return head + b''.join(enc_fix_seq(t, n) for t in seq)


def enc_var_bytes(data, ll):
    return enc_uint(len(data), ll) + bytes(data)


# ---------------------------------------------------------------------------
# reference decoder: functions (buf, index, ...) -> (value, new index)

def dec_bytes(buf, i, n):
    if n < 0 or i + n > len(buf):
        raise RefDecodeError('need %d bytes at %d, have %d' % (n, i, len(buf)))
    return bytes(buf[i:i + n]), i + n


def dec_uint(buf, i, n):
    b, j = dec_bytes(buf, i, n)
    v = 0
    for c in b:
        v = v * 256 + c
    return v, j


def dec_var_bytes(buf, i, ll):
    n, j = dec_uint(buf, i, ll)
    return dec_bytes(buf, j, n)


def dec_fix_list(buf, i, n, count):
    out = []
    for _ in range(count):
        v, i = dec_uint(buf, i, n)
        out.append(v)
    return out, i


def dec_var_list(buf, i, n, ll):
    total, j = dec_uint(buf, i, ll)
    if total % n:
        raise RefDecodeError('length %d not a multiple of %d' % (total, n))
    if j + total > len(buf):
        raise RefDecodeError('vector body truncated')
    return dec_fix_list(buf, j, n, total // n)


def dec_var_tuple_list(buf, i, n, arity, ll):
    total, j = dec_uint(buf, i, ll)
    if total % (n * arity):
        raise RefDecodeError('length %d not a multiple of %d' % (total, n * arity))
    if j + total > len(buf):
        raise RefDecodeError('vector body truncated')
    out = []
    for _ in range(total // (n * arity)):
        t, j = dec_fix_list(buf, j, n, arity)
        out.append(tuple(t))
    return out, j


# ---------------------------------------------------------------------------
# differential runs

BOUNDARY = sorted(set([-(1 << 32), -257, -256, -2, -1, 0, 1, 2, 127, 128, 254] +
                      [(1 << k) + d for k in (8, 16, 24, 32, 40, 64) for d in (-2, -1, 0, 1)]))


def _fail(fails, cls, what, **inp):
    if len(fails) < 8:
        fails.append({'class': cls, 'what': what, 'input': inp})


def _real_write(method, args, prefix):
    """run Writer.<method>(*args) on a writer pre-loaded with prefix; returns ('ok', bytes) or ('exc', type name)"""
    from tlslite.utils.codec import Writer
    w = Writer()
    w.bytes += prefix
    try:
        getattr(w, method)(*args)
    except Exception as e:       # noqa
        return ('exc', type(e).__name__), bytes(w.bytes)
    return ('ok', None), bytes(w.bytes)


def _ref_write(fn, args):
    try:
        return ('ok', fn(*args))
    except RefEncodeError:
        return ('exc', 'ValueError')


def xcheck_writer(rng, n):
    """every Writer method against the reference, boundary values first"""
    fails, seen, evals = [], set(), 0
    prefix = b'\xaa\x55'

    def one(method, args, ref_fn, ref_args, tag):
        nonlocal evals
        evals += 1
        (kind, exn), buf = _real_write(method, args, prefix)
        want = _ref_write(ref_fn, ref_args)
        seen.add((method, tag, want[0]))
        if not buf.startswith(prefix):
            _fail(fails, 'writer-clobbers-prefix', '%s changed earlier content' % method, method=method, args=repr(args))
        if want[0] == 'ok':
            if kind != 'ok':
                _fail(fails, 'writer-rejects-representable', '%s raised %s for a representable value' % (method, exn),
                      method=method, args=repr(args))
            elif buf != prefix + want[1]:
                cls = 'writer-truncates-or-wraps' if len(buf) - len(prefix) == len(want[1]) else 'writer-wrong-length'
                _fail(fails, cls, '%s wrote %s, reference %s' % (method, buf[len(prefix):].hex(), want[1].hex()),
                      method=method, args=repr(args))
        else:
            if kind == 'ok':
                _fail(fails, 'writer-truncates-or-wraps', '%s silently wrote %s for a value that does not fit'
                      % (method, buf[len(prefix):].hex()), method=method, args=repr(args))
            elif exn != 'ValueError':
                _fail(fails, 'writer-wrong-exception', '%s raised %s, expected ValueError' % (method, exn),
                      method=method, args=repr(args))

    fixed = [('addOne', 1), ('addTwo', 2), ('addThree', 3), ('addFour', 4)]
    for v in BOUNDARY:
        for m, k in fixed:
            one(m, (v,), enc_uint, (v, k), 'boundary')
        for k in (0, 1, 2, 3, 4, 5, 8, 16):
            one('add', (v, k), enc_uint, (v, k), 'boundary')
    budget = max(0, n)
    for _ in range(budget):
        k = rng.choice([1, 2, 3, 4, 8])
        v = rng.choice([rng.randrange(256 ** k), rng.randrange(256 ** k, 2 * 256 ** k), -rng.randrange(1, 1000),
                        256 ** k - 1, 256 ** k])
        one('add', (v, k), enc_uint, (v, k), 'random')
        # sequences
        ln = rng.choice([0, 1, 2, 3, 7, 20])
        el = rng.choice([1, 2, 3, 4])
        ll = rng.choice([1, 2, 3])
        seq = [rng.randrange(256 ** el) for _ in range(ln)]
        if ln and rng.random() < 0.3:
            seq[rng.randrange(ln)] = rng.choice([256 ** el, 256 ** el + 5, -1])
        one('addFixSeq', (seq, el), enc_fix_seq, (seq, el), 'seq')
        one('addVarSeq', (seq, el, ll), enc_var_seq, (seq, el, ll), 'seq')
        # length field overflow: body longer than the length field can express
        if rng.random() < 0.2:
            big = [1] * rng.choice([255, 256, 300])
            one('addVarSeq', (big, 1, 1), enc_var_seq, (big, 1, 1), 'len-overflow')
            one('add_var_bytes', (bytearray(big), 1), enc_var_bytes, (bytearray(big), 1), 'len-overflow')
            one('addVarSeq', ([1] * 128, 2, 1), enc_var_seq, ([1] * 128, 2, 1), 'len-overflow')
        tl = rng.choice([0, 1, 2, 5])
        tup = [(rng.randrange(256 ** el), rng.randrange(256 ** el)) for _ in range(tl)]
        if tl and rng.random() < 0.3:
            i = rng.randrange(tl)
            tup[i] = (tup[i][0], rng.choice([256 ** el, -1]))
        one('addVarTupleSeq', (tup, el, ll), enc_var_tuple_seq, (tup, el, ll), 'tuples')
        data = bytearray(rng.randrange(256) for _ in range(rng.choice([0, 1, 5, 255, 256, 257])))
        one('add_var_bytes', (data, ll), enc_var_bytes, (data, ll), 'bytes')
    # 2^16 / 2^24 length-field boundaries for add_var_bytes
    for ln, ll in ((65535, 2), (65536, 2), (65536, 3)):
        one('add_var_bytes', (bytearray(ln), ll), enc_var_bytes, (bytearray(ln), ll), 'len-boundary')
    return {'evaluations': evals, 'distinct_nontrivial': len(seen),
            'bound': 'widths 0..16 bytes, boundary values around 2^8,2^16,2^24,2^32,2^40,2^64 and negatives; sequences up to 300 elements; seed-dependent sample',
            'rule': 'distinct (method, input class, expected ok/ValueError)', 'failures': fails}


def _real_parse(buf, ops):
    """run a list of (method, args) on Parser(buf); returns list of results, final ('ok'|'exc', ...) and index"""
    from tlslite.utils.codec import Parser
    p = Parser(bytearray(buf))
    out = []
    for m, args in ops:
        try:
            r = getattr(p, m)(*args)
        except Exception as e:      # noqa
            return out, ('exc', type(e).__name__, isinstance(e, SyntaxError)), p.index
        if isinstance(r, (bytearray, bytes)):
            r = bytes(r)
        elif isinstance(r, list):
            r = [tuple(x) if isinstance(x, (tuple, list)) else x for x in r]
        out.append(r)
        if not 0 <= p.index <= len(buf):
            return out, ('bad-index', p.index, False), p.index
    return out, ('ok', None, True), p.index


_REF_OPS = {
    'get': lambda b, i, n: dec_uint(b, i, n),
    'getFixBytes': lambda b, i, n: dec_bytes(b, i, n),
    'skip_bytes': lambda b, i, n: (None, dec_bytes(b, i, n)[1]),
    'getVarBytes': lambda b, i, ll: dec_var_bytes(b, i, ll),
    'getFixList': lambda b, i, n, c: dec_fix_list(b, i, n, c),
    'getVarList': lambda b, i, n, ll: dec_var_list(b, i, n, ll),
    'getVarTupleList': lambda b, i, n, a, ll: dec_var_tuple_list(b, i, n, a, ll),
}


def _ref_parse(buf, ops):
    i = 0
    out = []
    for m, args in ops:
        try:
            v, i = _REF_OPS[m](buf, i, *args)
        except RefDecodeError:
            return out, ('exc', 'DecodeError', True), i
        out.append(v)
    return out, ('ok', None, True), i


def _compare_parse(fails, buf, ops, tag):
    got, gend, gi = _real_parse(buf, ops)
    want, wend, wi = _ref_parse(buf, ops)
    inp = {'buf_hex': bytes(buf).hex(), 'ops': repr(ops), 'tag': tag}
    if gend[0] == 'bad-index':
        _fail(fails, 'parser-index-out-of-bounds', 'index %r outside [0, %d]' % (gend[1], len(buf)), **inp)
        return wend[0]
    if gend[0] == 'exc' and gend[1] != 'DecodeError':
        _fail(fails, 'parser-undocumented-exception', 'raised %s (SyntaxError subclass: %s)' % (gend[1], gend[2]), **inp)
        return wend[0]
    if gend[0] != wend[0]:
        cls = 'parser-accepts-bad-framing' if gend[0] == 'ok' else 'parser-rejects-good-framing'
        _fail(fails, cls, 'real %s, reference %s' % (gend[0], wend[0]), **inp)
        return wend[0]
    if got != want[:len(got)] or (gend[0] == 'ok' and (got != want or gi != wi)):
        _fail(fails, 'parser-wrong-value-or-consumption', 'real %r @%d, reference %r @%d' % (got, gi, want, wi), **inp)
    return wend[0]


def xcheck_parser(rng, n):
    """random buffers x random operation sequences (mostly failing: short buffers)"""
    fails, seen, evals = [], set(), 0
    for _ in range(n):
        ln = rng.choice([0, 1, 2, 3, 4, 5, 8, 16, 40])
        buf = bytes(rng.choice([0, 0, 1, 2, 255, rng.randrange(256)]) for _ in range(ln))
        ops = []
        for _ in range(rng.randrange(1, 5)):
            m = rng.choice(list(_REF_OPS))
            if m in ('get', 'getFixBytes', 'skip_bytes'):
                args = (rng.choice([0, 1, 2, 3, 4, 8]),)
            elif m == 'getVarBytes':
                args = (rng.choice([1, 2, 3]),)
            elif m == 'getFixList':
                args = (rng.choice([1, 2, 3]), rng.choice([0, 1, 2, 5]))
            elif m == 'getVarList':
                args = (rng.choice([1, 2, 3]), rng.choice([1, 2]))
            else:
                args = (rng.choice([1, 2]), 2, rng.choice([1, 2]))
            ops.append((m, args))
        evals += 1
        r = _compare_parse(fails, buf, ops, 'random')
        seen.add((tuple(m for m, _ in ops), r))
    return {'evaluations': evals, 'distinct_nontrivial': len(seen),
            'bound': 'buffers up to 40 bytes, up to 4 operations, element widths 0..8, length fields 1..3; seed-dependent sample',
            'rule': 'distinct (operation sequence, expected ok/DecodeError)', 'failures': fails}


def xcheck_roundtrip(rng, n):
    """encode with the real Writer, decode with the real Parser: value back and everything consumed; then every
    truncation must raise DecodeError and every perturbation of the length field must behave like the reference"""
    from tlslite.utils.codec import Writer
    fails, seen, evals = [], set(), 0
    for _ in range(n):
        kind = rng.choice(['uint', 'varbytes', 'fixseq', 'varseq', 'vartuples'])
        el = rng.choice([1, 2, 3, 4])
        ll = rng.choice([1, 2, 3])
        w = Writer()
        if kind == 'uint':
            v = rng.choice([0, 256 ** el - 1, rng.randrange(256 ** el)])
            w.add(v, el)
            ops, want = [('get', (el,))], [v]
        elif kind == 'varbytes':
            d = bytes(rng.randrange(256) for _ in range(rng.choice([0, 1, 2, 17, 255] + ([256, 300] if ll > 1 else []))))
            w.add_var_bytes(bytearray(d), ll)
            ops, want = [('getVarBytes', (ll,))], [d]
        elif kind == 'fixseq':
            seq = [rng.randrange(256 ** el) for _ in range(rng.choice([0, 1, 2, 9]))]
            w.addFixSeq(seq, el)
            ops, want = [('getFixList', (el, len(seq)))], [seq]
        elif kind == 'varseq':
            seq = [rng.randrange(256 ** el) for _ in range(rng.choice([0, 1, 2, 9, 30]))]
            w.addVarSeq(seq, el, ll)
            ops, want = [('getVarList', (el, ll))], [seq]
        else:
            seq = [(rng.randrange(256 ** el), rng.randrange(256 ** el)) for _ in range(rng.choice([0, 1, 2, 9]))]
            w.addVarTupleSeq(seq, el, ll)
            ops, want = [('getVarTupleList', (el, 2, ll))], [seq]
        buf = bytes(w.bytes)
        evals += 1
        seen.add((kind, el, ll, 'rt'))
        got, end, idx = _real_parse(buf, ops)
        if end[0] != 'ok' or got != want or idx != len(buf):
            _fail(fails, 'roundtrip-mismatch', '%s: wrote %r, read %r (%s), consumed %d of %d' % (kind, want, got, end, idx, len(buf)),
                  buf_hex=buf.hex(), ops=repr(ops))
        # reference encoder agrees byte for byte
        ref = {'uint': lambda: enc_uint(want[0], el), 'varbytes': lambda: enc_var_bytes(want[0], ll),
               'fixseq': lambda: enc_fix_seq(want[0], el), 'varseq': lambda: enc_var_seq(want[0], el, ll),
               'vartuples': lambda: enc_var_tuple_seq(want[0], el, ll)}[kind]()
        if ref != buf:
            _fail(fails, 'writer-differs-from-reference', '%s: real %s reference %s' % (kind, buf.hex(), ref.hex()), value=repr(want))
        # truncations: every strict prefix must be a DecodeError (a fixed list of 0 elements has no bytes)
        for cut in range(len(buf)):
            evals += 1
            g, e, i = _real_parse(buf[:cut], ops)
            seen.add((kind, 'trunc', e[0]))
            if e[0] != 'exc' or e[1] != 'DecodeError':
                _fail(fails, 'truncated-input-accepted', '%s: prefix of %d/%d bytes gave %r %r' % (kind, cut, len(buf), e, g),
                      buf_hex=buf[:cut].hex(), ops=repr(ops))
        # length-field perturbations and trailing bytes, against the reference decoder
        if kind in ('varbytes', 'varseq', 'vartuples'):
            field = int.from_bytes(buf[:ll], 'big')
            for delta in (-1, 1, el, -el, 2 * el, 255, 256):
                nf = field + delta
                if 0 <= nf < 256 ** ll:
                    evals += 1
                    pb = nf.to_bytes(ll, 'big') + buf[ll:]
                    r = _compare_parse(fails, pb, ops, 'length-field %+d' % delta)
                    seen.add((kind, 'perturb', r))
        # trailing byte inside a length-checked structure
        evals += 1
        from tlslite.utils.codec import Parser, DecodeError
        p = Parser(bytearray(buf + b'\x00'))
        p.setLengthCheck(len(buf) + 1)
        try:
            for m, a in ops:
                getattr(p, m)(*a)
            p.stopLengthCheck()
            _fail(fails, 'trailing-bytes-accepted', '%s followed by one extra byte passed stopLengthCheck' % kind, buf_hex=buf.hex())
        except DecodeError:
            seen.add((kind, 'trailing', 'exc'))
        except Exception as e:      # noqa
            _fail(fails, 'parser-undocumented-exception', 'trailing byte: %s' % type(e).__name__, buf_hex=buf.hex())
    return {'evaluations': evals, 'distinct_nontrivial': len(seen),
            'bound': 'element widths 1..4, length fields 1..3, up to 30 elements / 300 body bytes; all truncations; length field +-1, +-el, +2el, +255, +256',
            'rule': 'distinct (structure kind, widths, check class, outcome)', 'failures': fails}


XCHECKS = {'writer_primitives': xcheck_writer, 'parser_primitives': xcheck_parser, 'codec_roundtrip': xcheck_roundtrip}
