"""Execution state of the symbolic executor."""
import z3

from .values import (V, VInt, VBool, VSeq, VObj, VOpaque, VTuple, VNone, fresh_name, Unsupported)
from . import smt


class State(object):
    _next_oid = [1000]

    def __init__(self):
        self.env = {}          # local variable -> V
        self.heap = {}         # (oid, field) -> V
        self.pc = []           # list of z3 Bool (conjunction)
        self.ghost = {}        # ghost variable -> V
        self.trace = []        # human-readable path description
        self.events = []       # call events (name, args, result) in order
        self.yields = []       # values yielded by a generator under analysis
        self.fresh_objs = set()  # oids allocated on this path
        self.written = set()     # M2: heap keys assigned (or havocked) on this path, as opposed to lazily read
        self.oterms = {}         # M2: term id -> z3 term of an opaque object whose attribute was stored

    def fork(self):
        s = State()
        s.env = dict(self.env)
        s.heap = dict(self.heap)
        s.pc = list(self.pc)
        s.ghost = dict(self.ghost)
        s.trace = list(self.trace)
        s.events = list(self.events)
        s.yields = list(self.yields)
        s.fresh_objs = set(self.fresh_objs)
        s.written = set(self.written)
        s.oterms = dict(self.oterms)
        return s

    def assume(self, f):
        if isinstance(f, VBool):
            f = f.t
        if z3.is_true(f):
            return
        self.pc.append(f)

    @classmethod
    def new_oid(cls):
        cls._next_oid[0] += 1
        return cls._next_oid[0]

    def alloc(self, cls=None):
        oid = State.new_oid()
        self.fresh_objs.add(oid)
        return VObj(oid, cls)


# ---------------------------------------------------------------------------
# type descriptors used by contracts to create symbolic parameters / fields

class T(object):
    """Type descriptor: `make(name, state)` returns a fresh symbolic value and
    adds its type invariant to the state's path condition."""

    def __init__(self, kind, **kw):
        self.kind = kind
        self.kw = kw

    def make(self, name, st, bv=None):
        k = self.kind
        if k == 'int':
            if bv:
                v = VInt(z3.BitVec(fresh_name(name), bv))
            else:
                v = VInt(z3.Int(fresh_name(name)))
            lo, hi = self.kw.get('lo'), self.kw.get('hi')
            if lo is not None:
                st.assume(v.t >= lo)
            if hi is not None:
                st.assume(v.t <= hi)
            return v
        if k == 'bool':
            return VBool(z3.Bool(fresh_name(name)))
        if k == 'bytes':
            v = VSeq(z3.Const(fresh_name(name), smt.Seq), 'byte', self.kw.get('pytype', 'bytearray'))
            st.assume(smt.isb(v.t))
            return v
        if k == 'ints':
            return VSeq(z3.Const(fresh_name(name), smt.Seq), 'int', 'list')
        if k == 'tuples':
            from .values import VTupSeq
            v = VTupSeq([z3.Const(fresh_name('%s.%d' % (name, i)), smt.Seq) for i in range(self.kw['arity'])])
            st.assume(v.same_len())
            return v
        if k == 'none':
            return VNone()
        if k == 'opaque':
            return VOpaque(z3.Const(fresh_name(name), smt.Val))
        if k == 'tuple':
            return VTuple([t.make('%s.%d' % (name, i), st, bv) for i, t in enumerate(self.kw['items'])])
        if k == 'const':
            from .executor import lift_py
            return lift_py(self.kw['value'])
        if k == 'obj':
            o = st.alloc(self.kw.get('cls'))
            st.fresh_objs.discard(o.oid)          # a parameter object is not fresh
            for f, ft in (self.kw.get('fields') or {}).items():
                st.heap[(o.oid, f)] = ft.make('%s.%s' % (name, f), st, bv)
            return o
        raise Unsupported('type ' + k)

    # constructors
    @staticmethod
    def int(lo=None, hi=None):
        return T('int', lo=lo, hi=hi)

    @staticmethod
    def bool():
        return T('bool')

    @staticmethod
    def bytes(pytype='bytearray'):
        return T('bytes', pytype=pytype)

    @staticmethod
    def ints():
        return T('ints')

    @staticmethod
    def tuples(arity):
        """list (symbolic length) of `arity`-tuples of ints"""
        return T('tuples', arity=arity)

    @staticmethod
    def none():
        return T('none')

    @staticmethod
    def opaque():
        return T('opaque')

    @staticmethod
    def tuple(*items):
        return T('tuple', items=list(items))

    @staticmethod
    def const(value):
        return T('const', value=value)

    @staticmethod
    def obj(cls=None, **fields):
        return T('obj', cls=cls, fields=fields)
