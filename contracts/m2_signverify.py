"""C10 O-stv: a signature is emitted only if it verified under the signer's own key (fault protection).
M2 tasks on the ServerKeyExchange signing functions of tlslite/keyexchange.py."""
import z3

from pyvc.m2 import M2Spec, m2task, fresh_opaque
from pyvc.executor import Outcome
from pyvc.values import VBool, VOpaque, VNone, truthy, to_val, v_truthy
from pyvc import smt
from pyvc.contract import REG

KX = 'tlslite/keyexchange.py:KeyExchange.'


def _recv_term(ex, node, st, fr):
    outs = ex.eval(node.func.value, st.fork(), fr)
    return outs[0].val if outs and outs[0].kind == 'normal' else None


def h_sign(ex, recv, args, kwargs, st, fr, node):
    r = fresh_opaque('signature')
    st.events.append(('sign', args, r))
    st.ghost['sig'] = r
    st.ghost['sig_data'] = args[0]
    st.ghost['sig_key'] = recv
    return [Outcome('normal', st, r)]


def h_verify(ex, recv, args, kwargs, st, fr, node):
    r = fresh_opaque('verify_result')
    st.events.append(('verify', args, r))
    st.ghost['ver_result'] = r
    st.ghost['ver_sig'] = args[0]
    st.ghost['ver_data'] = args[1]
    st.ghost['ver_key'] = recv
    return [Outcome('normal', st, r)]


SPEC = M2Spec(hooks={'sign': h_sign, 'hashAndSign': h_sign, 'verify': h_verify, 'hashAndVerify': h_verify},
              pure={'hash', 'getHash', 'getPadding', 'getKeyType', 'getattr'})


def _mk_check(ske_name):
    def check(api):
        ns = api.normal_exits()
        api.oblige(api.entry, 'has-normal-exit', len(ns) >= 1)
        for k, o in enumerate(ns, 1):
            st = o.st
            ske = st.env.get(ske_name)
            g = st.ghost
            if 'sig' not in g:
                api.oblige(st, 'exit#%d:a-signature-was-made' % k, False)
                continue
            emitted = st.heap.get(('o', ske.t.get_id(), 'signature')) if isinstance(ske, VOpaque) else None
            api.oblige(st, 'exit#%d:emitted-signature-is-the-one-just-made' % k,
                       False if emitted is None else to_val(emitted) == to_val(g['sig']))
            have_ver = 'ver_result' in g
            api.oblige(st, 'exit#%d:signature-verified-under-the-signers-own-key-before-being-emitted' % k,
                       False if not have_ver else z3.And(v_truthy(to_val(g['ver_result'])),
                                                         to_val(g['ver_sig']) == to_val(g['sig']),
                                                         to_val(g['ver_key']) == to_val(g['sig_key'])))
            api.oblige(st, 'exit#%d:verified-over-the-data-that-was-signed' % k,
                       False if not have_ver else to_val(g['ver_data']) == to_val(g['sig_data']))
    return check


for _fn, _arg in (('_tls12_sign_ecdsa_SKE', 'serverKeyExchange'), ('_tls12_sign_dsa_SKE', 'serverKeyExchange'),
                  ('_tls12_sign_eddsa_ske', 'server_key_exchange'), ('_tls12_signSKE', 'serverKeyExchange')):
    m2task('%s/sign-then-verify' % _fn, ('C10',), KX + _fn, SPEC, check=_mk_check(_arg), opts={'ground_feasible': True},
           doc='the ServerKeyExchange signature is stored in the message only on paths where the same key verified that very '
               'signature over the same data (a faulty private-key operation ends in TLSInternalError, nothing is emitted)')

REG.note('C10', 'trusted', 'M2 (sign-then-verify tasks): privateKey.sign/verify are opaque; that verify returns false for a wrong '
                           'signature is the verify contracts (RSA: proved here; ECDSA/EdDSA/DSA: external package, assumed)')
REG.note('C10', 'not_built', 'sign-then-verify dominance for signServerKeyExchange (<TLS1.2 branch)')


# ---------------------------------------------------------------------------------------------------------------------
# CertificateVerify emission sites: KeyExchange.makeCertificateVerify (client, <= TLS 1.2), _clientTLS13Handshake,
# _serverTLS13Handshake.  The code binds sig_func / ver_func to a method pair of privateKey and calls them.
import ast
from contracts.m2_common import TC, h_sendError

ATTR = lambda n, t: z3.Function('v_attr_' + n, smt.Val, smt.Val)(t)
SITES = {'n': 0}


def h_sig_func(ex, recv, args, kwargs, st, fr, node):
    r = fresh_opaque('signature')
    st.ghost['sig'] = r
    st.ghost['sig_args'] = list(args)
    st.ghost['sig_func'] = st.env.get('sig_func')
    st.ghost.pop('ver_result', None)
    return [Outcome('normal', st, r)]


def h_ver_func(ex, recv, args, kwargs, st, fr, node):
    r = fresh_opaque('verify_result')
    st.ghost['ver_result'] = r
    st.ghost['ver_args'] = list(args)
    st.ghost['ver_func'] = st.env.get('ver_func')
    return [Outcome('normal', st, r)]


def _key_var(fr_env):
    return fr_env.get('privateKey')


def h_create_cv(ex, recv, args, kwargs, st, fr, node):
    """<certificate verify message>.create(signature, scheme): the emission point"""
    f = node.func
    nm = ast.unparse(f.value) if isinstance(f, ast.Attribute) else ''
    if 'verify' not in nm.lower() or len(args) < 1:
        return None
    SITES['n'] += 1
    g = st.ghost
    L = node.lineno

    def ob(name, goal):
        ex.oblige(st, 'L%d:%s' % (L, name), goal if not isinstance(goal, bool) else z3.BoolVal(goal), kind='m2')
    if 'sig' not in g:
        ob('emitted-signature-was-made-here', False)
        return None
    ob('emitted-signature-is-the-one-just-made', to_val(args[0]) == to_val(g['sig']))
    have = 'ver_result' in g and len(g.get('ver_args', [])) >= 2
    ob('signature-verified-before-being-emitted(fault-protection)', have and v_truthy(to_val(g['ver_result'])))
    if have:
        va, sa = g['ver_args'], g['sig_args']
        ob('verified-that-very-signature-over-the-signed-data',
           z3.And(to_val(va[0]) == to_val(g['sig']), to_val(va[1]) == to_val(sa[0])))
        ob('verified-with-the-same-padding-hash-and-salt-parameters',
           len(va) == len(sa) + 1 and z3.And([to_val(a) == to_val(b) for a, b in zip(va[2:], sa[1:])] + [z3.BoolVal(True)]))
        pk = st.env.get('privateKey') or st.env.get('p_key') or st.env.get('private_key')
        sf, vf = g.get('sig_func'), g.get('ver_func')
        if pk is None or sf is None or vf is None:
            ob('verify-method-belongs-to-the-signing-key', False)
        else:
            k = to_val(pk)
            ob('verify-method-belongs-to-the-signing-key(sign/verify-or-hashAndSign/hashAndVerify-of-privateKey)',
               z3.Or(z3.And(to_val(sf) == ATTR('sign', k), to_val(vf) == ATTR('verify', k)),
                     z3.And(to_val(sf) == ATTR('hashAndSign', k), to_val(vf) == ATTR('hashAndVerify', k))))
    return None


def _mk_cv_spec(extra_hooks=None):
    hooks = {'sig_func': h_sig_func, 'ver_func': h_ver_func, 'create': h_create_cv, '_sendError': h_sendError}
    hooks.update(extra_hooks or {})
    return M2Spec(hooks=hooks, pure={'getExtension', 'copy', 'digest', 'isinstance', 'len', 'HKDF_expand_label', 'secureHMAC',
                                     'toRepr', 'getHash', 'getPadding', 'decode', '_getPRFParams', 'getattr', 'calcVerifyBytes',
                                     'getFirstMatching', 'derive_secret'})


def _mk_cv_check(min_sites):
    def check(api):
        api.oblige(api.entry, 'has-normal-exit', len(api.normal_exits()) >= 1)
        api.oblige(api.entry, 'cover:CertificateVerify.create-site-reached', SITES['n'] >= min_sites)
        SITES['n'] = 0
    return check


for _name, _q in (('KeyExchange.makeCertificateVerify', KX + 'makeCertificateVerify'),
                  ('_clientTLS13Handshake', TC + '_clientTLS13Handshake'),
                  ('_serverTLS13Handshake', TC + '_serverTLS13Handshake'),
                  ('_handle_pha', 'tlslite/tlsrecordlayer.py:TLSRecordLayer._handle_pha')):
    m2task('%s/CertificateVerify-sign-then-verify' % _name, ('C10',), _q, _mk_cv_spec(), check=_mk_cv_check(1),
           opts={'ground_feasible': True},
           doc='the CertificateVerify signature handed to create() is the one just made and was verified, with the same data and '
               'parameters, by the verify method paired with the signing method of the same private key; otherwise '
               'internal_error / TLSInternalError and nothing is emitted')



# --- DSA verification range checks (C10/C05): FIPS 186-4 section 4.7 -- a signature with r or s outside (0, q) must be rejected
def _check_dsa_verify(api):
    rets = api.exits('return')
    api.oblige(api.entry, 'has-return-exits', len(rets) >= 2)
    LT = z3.Function('v_cmp_lt', smt.Val, smt.Val, smt.B)
    from pyvc.values import VInt, VBool as _VB
    seen_compare = False
    for k, o in enumerate(rets, 1):
        v = o.val
        if isinstance(v, _VB) and z3.is_false(z3.simplify(v.t)):
            continue                       # `return False`
        seen_compare = True
        st = o.st
        r, s = st.env.get('r'), st.env.get('s')
        q = api.ex.getattr_(st.env['self'], 'q', st, api.fr)[0].val
        zero = to_val(VInt(0))
        goal = z3.BoolVal(False) if (r is None or s is None) else z3.And(
            LT(zero, to_val(r)), LT(to_val(r), to_val(q)), LT(zero, to_val(s)), LT(to_val(s), to_val(q)))
        api.oblige(st, 'return#%d:a-signature-can-verify-only-if-0<r<q-and-0<s<q' % k, goal)
    api.oblige(api.entry, 'has-a-verifying-exit', seen_compare)


m2task('Python_DSAKey.verify/range-checks', ('C10', 'C05'), 'tlslite/utils/python_dsakey.py:Python_DSAKey.verify',
       M2Spec(pure={'numBits', 'bytesToNumber', 'compatHMAC', 'remove_sequence', 'remove_integer', 'invMod', 'powMod', 'mpz'}),
       check=_check_dsa_verify, opts={'ground_feasible': True},
       doc='every path on which DSA verify can return True has checked 0 < r < q and 0 < s < q (with s = 0 the inverse is 0 '
           'and v == r holds for r = g^0 y^0 = 1: a universal forgery)')
