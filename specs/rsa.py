"""Executable reference specifications for C11 / C10 (RSA, FFDH, X25519/X448) and the
differential runs against the real tlslite code.

Everything here is written from the standards, independently of tlslite:
  * implicit-rejection PKCS#1 v1.5 decryption: draft-irtf-cfrg-rsa-guidance (section "Implicit rejection")
  * EMSA-PKCS1-v1_5, RSASSA-PKCS1-v1_5 verification: RFC 8017 sections 9.2, 8.2.2
  * MGF1, EMSA-PSS-ENCODE / -VERIFY, RSASSA-PSS: RFC 8017 B.2.1, 9.1.1, 9.1.2, 8.1.1, 8.1.2
  * FFDH share validation: RFC 7919 5.1 / RFC 8446 4.2.8.1;  X25519 / X448: RFC 7748 section 5, 6
Only hashlib / hmac and Python integers are used.  Runs under /venv/bin/python (no z3).
"""
import hashlib
import hmac

# ----------------------------------------------------------------------------
# small number theory (key generation for the differential runs)

_SMALL_PRIMES = [p for p in range(3, 2000, 2) if all(p % q for q in range(3, int(p ** 0.5) + 1, 2))]


def _is_prime(n, rng):
    if n < 2:
        return False
    if n % 2 == 0:
        return n == 2
    for p in _SMALL_PRIMES:
        if n % p == 0:
            return n == p
    d, s = n - 1, 0
    while d % 2 == 0:
        d //= 2
        s += 1
    for _ in range(12):
        a = rng.randrange(2, n - 1)
        x = pow(a, d, n)
        if x in (1, n - 1):
            continue
        for _ in range(s - 1):
            x = x * x % n
            if x == n - 1:
                break
        else:
            return False
    return True


def _prime(bits, rng):
    while True:
        c = rng.getrandbits(bits) | (1 << (bits - 1)) | 1
        if _is_prime(c, rng):
            return c


def _gcd(a, b):
    while b:
        a, b = b, a % b
    return a


def make_rsa(modbits, rng, e=65537):
    """RSA key whose modulus has exactly `modbits` bits: (n, e, d, p, q)"""
    pb = (modbits + 1) // 2
    qb = modbits - pb
    while True:
        p, q = _prime(pb, rng), _prime(qb, rng)
        if p == q:
            continue
        n = p * q
        if n.bit_length() != modbits:
            continue
        lam = (p - 1) * (q - 1) // _gcd(p - 1, q - 1)
        if _gcd(e, lam) != 1:
            continue
        return n, e, pow(e, -1, lam), p, q


def real_key(key):
    """tlslite key object for (n, e, d, p, q)"""
    from tlslite.utils.python_rsakey import Python_RSAKey
    n, e, d, p, q = key
    return Python_RSAKey(n, e, d, p, q, d % (p - 1), d % (q - 1), pow(q, -1, p))


def i2osp(x, length):
    if x < 0 or x >= 256 ** length:
        raise ValueError('integer too large')
    return x.to_bytes(length, 'big')


def os2ip(b):
    return int.from_bytes(bytes(b), 'big')


# ----------------------------------------------------------------------------
# C11: implicit rejection

def _prf(key, label, nbits):
    """PRF of the draft: HMAC-SHA256(key, I2OSP(i, 2) || label || I2OSP(nbits, 2)) for i = 0, 1, ..; truncated"""
    out = b''
    i = 0
    while len(out) < nbits // 8:
        out += hmac.new(key, i2osp(i, 2) + label + i2osp(nbits, 2), hashlib.sha256).digest()
        i += 1
    return out[:nbits // 8]


def spec_decrypt(n, d, c):
    """None for a publicly invalid ciphertext, otherwise the message (real or synthetic)."""
    k = (n.bit_length() + 7) // 8
    c = bytes(c)
    if len(c) != k or os2ip(c) >= n:
        return None
    em = i2osp(pow(os2ip(c), d, n), k)
    # synthetic message, a function of (d, c) only
    kdk = hmac.new(hashlib.sha256(i2osp(d, k)).digest(), c, hashlib.sha256).digest()
    lengths = _prf(kdk, b'length', 128 * 2 * 8)
    alt = _prf(kdk, b'message', k * 8)
    max_len = k - 2 - 8                       # a usable length must be smaller than this (message <= k - 11 bytes)
    mask = max_len
    for sh in (1, 2, 4, 8):
        mask |= mask >> sh                    # all bits below the top bit of max_len set
    synth_len = 0
    for i in range(128):
        cand = ((lengths[2 * i] << 8) | lengths[2 * i + 1]) & mask
        if cand < max_len:
            synth_len = cand
    # padding check: 00 02 <at least 8 non-zero> 00 <message>
    ok = em[0] == 0 and em[1] == 2 and all(em[2:10])
    sep = em.find(b'\x00', 10) if ok else -1
    if sep < 0:
        return alt[k - synth_len:]
    return em[sep + 1:]


def padding_defect(em):
    """class of the decrypted block (for coverage accounting)"""
    if em[0] != 0:
        return 'first-byte'
    if em[1] != 2:
        return 'block-type'
    if not all(em[2:10]):
        return 'zero-in-ps@%d' % (2 + list(em[2:10]).index(0))
    if em.find(b'\x00', 10) < 0:
        return 'no-separator'
    return 'valid'


def _nonzero(rng, ln):
    return bytes(rng.randrange(1, 256) for _ in range(ln))


def _crafted_blocks(rng, k):
    """(tag, EM) pairs covering every defect class and the boundary message lengths"""
    out = []
    for mlen in sorted(set([0, 1, 2, 47, 48, 49, k - 12, k - 11]) & set(range(0, k - 10))):
        out.append(('valid-len%d' % mlen, b'\x00\x02' + _nonzero(rng, k - 3 - mlen) + b'\x00' + _nonzero(rng, mlen)))
    base = bytearray(b'\x00\x02' + _nonzero(rng, k - 3 - 5) + b'\x00' + _nonzero(rng, 5))
    for pos, val, tag in [(0, 1, 'first-byte-01'), (0, 255, 'first-byte-ff'), (1, 1, 'type-01'), (1, 0, 'type-00'),
                          (1, 3, 'type-03')]:
        b = bytearray(base)
        b[pos] = val
        out.append((tag, bytes(b)))
    for pos in range(2, 10):
        b = bytearray(base)
        b[pos] = 0
        out.append(('zero-in-ps@%d' % pos, bytes(b)))
    out.append(('separator-at-10', b'\x00\x02' + _nonzero(rng, 8) + b'\x00' + _nonzero(rng, k - 11)))
    out.append(('no-separator', b'\x00\x02' + _nonzero(rng, k - 2)))
    out.append(('only-zero-at-9', b'\x00\x02' + _nonzero(rng, 7) + b'\x00' + _nonzero(rng, k - 10)))
    out.append(('all-zero-tail', b'\x00\x02' + _nonzero(rng, 8) + b'\x00' * (k - 10)))
    two = bytearray(b'\x00\x02' + _nonzero(rng, k - 2))
    if k >= 16:
        two[12] = 0
        two[k - 1] = 0
        out.append(('two-separators', bytes(two)))
    return out


_KEY_CACHE = {}


def _key(modbits, rng):
    if modbits not in _KEY_CACHE:
        _KEY_CACHE[modbits] = make_rsa(modbits, rng)
    return _KEY_CACHE[modbits]


def xcheck_decrypt(rng, n_budget):
    fails, seen, evals = [], set(), 0
    sizes = [88, 96, 129, 512, 1024, 1025, 1031, 1032, 2048]
    if n_budget >= 2000:
        sizes += [3072, 4096]

    def run(key, rk, c, tag):
        nonlocal evals
        evals += 1
        n, e, d = key[0], key[1], key[2]
        want = spec_decrypt(n, d, c)
        try:
            got = rk.decrypt(bytearray(c))
            got2 = rk.decrypt(bytearray(c))
        except Exception as ex:             # the contract allows no exception
            got = got2 = 'raised %s: %s' % (type(ex).__name__, ex)
        got_b = None if got is None else (bytes(got) if not isinstance(got, str) else got)
        got2_b = None if got2 is None else (bytes(got2) if not isinstance(got2, str) else got2)
        k = (n.bit_length() + 7) // 8
        seen.add((n.bit_length(), tag.split('#')[0], None if want is None else len(want)))
        if (got_b != want or got2_b != got_b) and len(fails) < 5:
            fails.append({'class': 'rsa-decrypt-disagrees' if got_b != want else 'rsa-decrypt-nondeterministic',
                          'what': 'RSAKey.decrypt returned %r (second call %r), specification says %r (%s)'
                                  % (got_b, got2_b, want, tag),
                          'input': {'n': n, 'e': e, 'd': d, 'p': key[3], 'q': key[4], 'ciphertext_hex': bytes(c).hex(),
                                    'tag': tag}})
    per_key = max(20, n_budget // len(sizes))
    for bits in sizes:
        key = _key(bits, rng)
        n, e, d = key[0], key[1], key[2]
        k = (bits + 7) // 8
        rk = real_key(key)
        for tag, em in _crafted_blocks(rng, k):
            m = os2ip(em)
            if m >= n:
                continue
            run(key, rk, i2osp(pow(m, e, n), k), tag)
        # a fresh key object (key hash not cached yet) must give the same answer as a used one
        em = b'\x00\x02' + _nonzero(rng, k - 2)
        if os2ip(em) < n:
            run(key, real_key(key), i2osp(pow(os2ip(em), e, n), k), 'no-separator#fresh-key-object')
        # publicly invalid
        for tag, c in [('too-short', i2osp(1, k)[1:]), ('too-long', b'\x00' + i2osp(1, k)), ('empty', b''),
                       ('equal-n', i2osp(n, k)), ('n-plus-1', i2osp(n + 1, k) if n + 1 < 256 ** k else i2osp(n, k)),
                       ('all-ff', b'\xff' * k), ('n-minus-1', i2osp(n - 1, k)), ('zero', i2osp(0, k)), ('one', i2osp(1, k))]:
            run(key, rk, c, tag)
        for j in range(per_key):
            run(key, rk, i2osp(rng.randrange(n), k), 'random#%d' % j)
    return {'evaluations': evals, 'distinct_nontrivial': len(seen),
            'bound': 'moduli of %s bits; every padding-defect class, boundary message lengths 0..k-11, values >= n, '
                     'wrong lengths, %d random ciphertexts per key; each ciphertext decrypted twice' % (sizes, per_key),
            'rule': 'distinct (modulus bits, input class, expected result length)', 'failures': fails}


def xcheck_pcke(rng, n_budget):
    """RSAKeyExchange.processClientKeyExchange: 48 bytes always; the decrypted value only if 48 bytes with an
    accepted version, else the (patched, known) random value; no exception."""
    import tlslite.keyexchange as KX
    from tlslite.messages import ClientHello, ServerHello, ClientKeyExchange
    from tlslite.constants import CipherSuite
    fails, seen, evals = [], set(), 0
    marker = bytes(range(100, 148))
    orig = KX.getRandomBytes
    KX.getRandomBytes = lambda nbytes: bytearray(marker[:nbytes])
    try:
        for bits in (512, 1024, 1025, 2048):
            key = _key(bits, rng)
            n, e, d = key[0], key[1], key[2]
            k = (bits + 7) // 8
            for cver, sver in (((3, 3), (3, 3)), ((3, 3), (3, 1)), ((3, 1), (3, 1))):
                ch = ClientHello()
                ch.client_version = cver
                sh = ServerHello()
                sh.server_version = sver
                kx = KX.RSAKeyExchange(CipherSuite.TLS_RSA_WITH_AES_128_CBC_SHA, ch, sh, real_key(key))
                cases = []
                for ver, tag in ((cver, 'client-version'), (sver, 'server-version'), ((3, 0), 'other-version'),
                                 ((2, 0), 'ssl2-version')):
                    for ln in (0, 1, 46, 47, 48, 49, 50):
                        if ln < 2:
                            pm = bytes(ln)
                        else:
                            pm = bytes(ver) + _nonzero(rng, ln - 2)
                        em = b'\x00\x02' + _nonzero(rng, k - 3 - len(pm)) + b'\x00' + pm
                        cases.append(('%s-len%d' % (tag, ln), i2osp(pow(os2ip(em), e, n), k)))
                for tag, em in _crafted_blocks(rng, k):
                    if os2ip(em) < n:
                        cases.append((tag, i2osp(pow(os2ip(em), e, n), k)))
                cases += [('too-short', bytes(k - 1)), ('too-long', bytes(k + 1)), ('ge-n', i2osp(n, k)), ('empty', b'')]
                for tag, c in cases:
                    evals += 1
                    dec = spec_decrypt(n, d, c)
                    accepted = dec is not None and len(dec) == 48 and tuple(dec[:2]) in (cver, sver)
                    want = dec if accepted else marker
                    cke = ClientKeyExchange(CipherSuite.TLS_RSA_WITH_AES_128_CBC_SHA, cver)
                    cke.encryptedPreMasterSecret = bytearray(c)
                    try:
                        got = bytes(kx.processClientKeyExchange(cke))
                    except Exception as ex:
                        got = 'raised %s: %s' % (type(ex).__name__, ex)
                    seen.add((bits, cver, sver, tag, accepted))
                    if got != want and len(fails) < 5:
                        fails.append({'class': 'rsa-kex-premaster-disagrees',
                                      'what': 'processClientKeyExchange returned %r, specification says %r (%s)' % (got, want, tag),
                                      'input': {'n': n, 'e': e, 'd': d, 'ciphertext_hex': bytes(c).hex(),
                                                'client_version': list(cver), 'server_version': list(sver), 'tag': tag}})
    finally:
        KX.getRandomBytes = orig
    return {'evaluations': evals, 'distinct_nontrivial': len(seen),
            'bound': '4 key sizes x 3 version pairs x (premaster lengths 0,1,46..50 x 4 version prefixes + every padding '
                     'defect class + publicly invalid ciphertexts); RNG replaced by a known value',
            'rule': 'distinct (modulus bits, versions, input class, accepted)', 'failures': fails}


# ----------------------------------------------------------------------------
# C10: RSASSA-PKCS1-v1_5  (RFC 8017 9.2, 8.2.2)

DIGEST_INFO = {     # RFC 8017 section 9.2, Notes 1
    'md5': '3020300c06082a864886f70d020505000410',
    'sha1': '3021300906052b0e03021a05000414',
    'sha224': '302d300d06096086480165030402040500041c',
    'sha256': '3031300d060960864801650304020105000420',
    'sha384': '3041300d060960864801650304020205000430',
    'sha512': '3051300d060960864801650304020305000440',
}
SHA1_NO_NULL = '301f300706052b0e03021a0414'


def emsa_pkcs1_v15(t, em_len):
    """00 01 PS 00 T with PS = FF.., |PS| >= 8; None when the intended length is too short"""
    if em_len < len(t) + 11:
        return None
    return b'\x00\x01' + b'\xff' * (em_len - len(t) - 3) + b'\x00' + t


def spec_pkcs1_verify(n, e, sig, hash_name, digest):
    k = (n.bit_length() + 7) // 8
    sig = bytes(sig)
    if len(sig) != k or os2ip(sig) >= n:
        return False
    em = i2osp(pow(os2ip(sig), e, n), k)
    prefixes = [DIGEST_INFO[hash_name]] + ([SHA1_NO_NULL] if hash_name == 'sha1' else [])
    for pre in prefixes:
        want = emsa_pkcs1_v15(bytes.fromhex(pre) + bytes(digest), k)
        if want is not None and em == want:
            return True
    return False


def xcheck_pkcs1(rng, n_budget):
    fails, seen, evals = [], set(), 0
    sizes = [512, 720, 768, 1024, 1025, 2048]

    def run(key, rk, sig, h, digest, tag):
        nonlocal evals
        evals += 1
        n, e = key[0], key[1]
        want = spec_pkcs1_verify(n, e, sig, h, digest)
        try:
            got = rk.verify(bytearray(sig), bytearray(digest), 'pkcs1', h)
        except Exception as ex:
            got = 'raised %s: %s' % (type(ex).__name__, ex)
        seen.add((n.bit_length(), h, tag, want))
        if got != want and len(fails) < 6:
            k = (n.bit_length() + 7) // 8
            short = k < len(digest) + len(DIGEST_INFO[h]) // 2 + 11
            fails.append({'class': 'pkcs1-short-ps-accepted' if (short and got is True) else 'pkcs1-verify-disagrees',
                          'what': 'RSAKey.verify(pkcs1, %s) returned %r, specification (RFC 8017 8.2.2) says %r (%s)'
                                  % (h, got, want, tag),
                          'input': {'n': n, 'e': e, 'sig_hex': bytes(sig).hex(), 'hash': h, 'digest_hex': bytes(digest).hex(),
                                    'tag': tag}})
    for bits in sizes:
        key = _key(bits, rng)
        n, e, d = key[0], key[1], key[2]
        k = (bits + 7) // 8
        rk = real_key(key)
        for h in DIGEST_INFO:
            digest = hashlib.new(h, b'message %d' % rng.randrange(1 << 30)).digest()
            t = bytes.fromhex(DIGEST_INFO[h]) + digest

            def sign_em(em):
                return i2osp(pow(os2ip(em), d, n), k)
            ps_len = k - len(t) - 3
            blocks = []
            if ps_len >= 0:
                blocks.append(('canonical', b'\x00\x01' + b'\xff' * ps_len + b'\x00' + t))
            for g in (1, 2, 8, 20):                       # garbage after the hash, PS shortened accordingly
                if ps_len - g >= 0:
                    blocks.append(('garbage-after-hash-%d' % g, b'\x00\x01' + b'\xff' * (ps_len - g) + b'\x00' + t + _nonzero(rng, g)))
                    blocks.append(('garbage-zeros-after-hash-%d' % g, b'\x00\x01' + b'\xff' * (ps_len - g) + b'\x00' + t + bytes(g)))
            if ps_len >= 9:
                blocks.append(('ps-non-ff', b'\x00\x01' + b'\xff' * 4 + b'\xfe' + b'\xff' * (ps_len - 5) + b'\x00' + t))
                blocks.append(('ps-zero-inside', b'\x00\x01' + b'\xff' * 4 + b'\x00' + b'\xff' * (ps_len - 5) + b'\x00' + t))
                blocks.append(('block-type-2', b'\x00\x02' + b'\xff' * ps_len + b'\x00' + t))
                blocks.append(('block-type-0', b'\x00\x00' + b'\xff' * ps_len + b'\x00' + t))
                blocks.append(('first-byte-1', b'\x01\x01' + b'\xff' * ps_len + b'\x00' + t))
                blocks.append(('separator-ff', b'\x00\x01' + b'\xff' * ps_len + b'\xff' + t))
                # alternative DigestInfo encodings of the same hash
                if h != 'sha1' and h != 'md5':
                    pre = bytes.fromhex(DIGEST_INFO[h])
                    nonull = bytes([0x30, pre[1] - 2, 0x30, pre[3] - 2]) + pre[4:4 + 2 + pre[5]] + pre[-2:]
                    t2 = nonull + digest
                    blocks.append(('digestinfo-without-null', b'\x00\x01' + b'\xff' * (k - len(t2) - 3) + b'\x00' + t2))
                if h == 'sha1':
                    t2 = bytes.fromhex(SHA1_NO_NULL) + digest
                    blocks.append(('sha1-without-null', b'\x00\x01' + b'\xff' * (k - len(t2) - 3) + b'\x00' + t2))
                long_len = bytes([0x30, 0x81]) + bytes.fromhex(DIGEST_INFO[h])[1:] + digest          # BER long-form length
                if k - len(long_len) - 3 >= 8:
                    blocks.append(('digestinfo-ber-long-length', b'\x00\x01' + b'\xff' * (k - len(long_len) - 3) + b'\x00' + long_len))
                other = 'sha256' if h != 'sha256' else 'sha384'
                t3 = bytes.fromhex(DIGEST_INFO[other]) + hashlib.new(other, b'x').digest()
                if k - len(t3) - 3 >= 8:
                    blocks.append(('other-hash-digestinfo', b'\x00\x01' + b'\xff' * (k - len(t3) - 3) + b'\x00' + t3))
                blocks.append(('raw-hash-no-digestinfo', b'\x00\x01' + b'\xff' * (k - len(digest) - 3) + b'\x00' + digest))
            for tag, em in blocks:
                if len(em) != k or os2ip(em) >= n:
                    continue
                sig = sign_em(em)
                run(key, rk, sig, h, digest, tag)
                if tag == 'canonical':
                    s_int = os2ip(sig)
                    run(key, rk, sig[1:] if sig[0] == 0 else sig[:-1], h, digest, 'sig-one-byte-short')
                    run(key, rk, b'\x00' + sig, h, digest, 'sig-extra-leading-zero')
                    if s_int + n < 256 ** k:
                        run(key, rk, i2osp(s_int + n, k), h, digest, 'sig-plus-n')
                    flip = bytearray(sig)
                    flip[rng.randrange(k)] ^= 1 << rng.randrange(8)
                    run(key, rk, bytes(flip), h, digest, 'sig-bit-flip')
                    bad = bytearray(digest)
                    bad[rng.randrange(len(bad))] ^= 1 << rng.randrange(8)
                    run(key, rk, sig, h, bytes(bad), 'digest-bit-flip')
                    # the library's own signature must verify under the independent verifier
                    try:
                        own = bytes(rk.sign(bytearray(digest), 'pkcs1', h))
                    except Exception as ex:
                        own = None
                    if own is not None:
                        evals += 1
                        if not spec_pkcs1_verify(n, e, own, h, digest) and len(fails) < 6:
                            short = k < len(t) + 11
                            fails.append({'class': 'pkcs1-short-ps-accepted' if short else 'pkcs1-sign-not-verifiable',
                                          'what': 'signature made by RSAKey.sign(pkcs1, %s) is rejected by the RFC 8017 verifier' % h,
                                          'input': {'n': n, 'e': e, 'd': d, 'hash': h, 'digest_hex': digest.hex(), 'sig_hex': own.hex()}})
    return {'evaluations': evals, 'distinct_nontrivial': len(seen),
            'bound': 'moduli of %s bits x 6 hashes x (canonical, garbage after hash, short / damaged PS, block types, '
                     'alternative DigestInfo encodings, non-canonical signature integers, bit flips)' % sizes,
            'rule': 'distinct (modulus bits, hash, mutation class, expected verdict)', 'failures': fails}


# ----------------------------------------------------------------------------
# C10: RSASSA-PSS  (RFC 8017 B.2.1, 9.1, 8.1)

def mgf1(seed, mask_len, h):
    hlen = hashlib.new(h).digest_size
    if mask_len > (1 << 32) * hlen:
        raise ValueError('mask too long')
    t = b''
    for counter in range(-(-mask_len // hlen)):
        t += hashlib.new(h, seed + i2osp(counter, 4)).digest()
    return t[:mask_len]


def emsa_pss_encode(mhash, em_bits, h, salt):
    hlen = hashlib.new(h).digest_size
    em_len = -(-em_bits // 8)
    if em_len < hlen + len(salt) + 2:
        raise ValueError('encoding error')
    hh = hashlib.new(h, bytes(8) + mhash + salt).digest()
    db = bytes(em_len - len(salt) - hlen - 2) + b'\x01' + salt
    mask = mgf1(hh, em_len - hlen - 1, h)
    masked = bytearray(a ^ b for a, b in zip(db, mask))
    masked[0] &= 0xff >> (8 * em_len - em_bits)
    return bytes(masked) + hh + b'\xbc'


def emsa_pss_verify(mhash, em, em_bits, h, slen):
    """RFC 8017 9.1.2: True (consistent) / False (inconsistent)"""
    hlen = hashlib.new(h).digest_size
    em_len = -(-em_bits // 8)
    if len(em) != em_len:
        return False
    if em_len < hlen + slen + 2:                                   # step 3
        return False
    if em[-1] != 0xbc:                                             # step 4
        return False
    masked, hh = em[:em_len - hlen - 1], em[em_len - hlen - 1:em_len - 1]      # step 5
    zbits = 8 * em_len - em_bits
    if masked[0] >> (8 - zbits):                                   # step 6
        return False
    mask = mgf1(hh, em_len - hlen - 1, h)                           # step 7
    db = bytearray(a ^ b for a, b in zip(masked, mask))            # step 8
    db[0] &= 0xff >> zbits                                         # step 9
    ps_len = em_len - hlen - slen - 2
    if any(db[:ps_len]) or db[ps_len] != 1:                        # step 10
        return False
    salt = bytes(db[len(db) - slen:]) if slen else b''             # step 11
    return hashlib.new(h, bytes(8) + mhash + salt).digest() == hh  # steps 12-14


def spec_pss_verify(n, e, sig, mhash, h, slen):
    """RFC 8017 8.1.2"""
    k = (n.bit_length() + 7) // 8
    sig = bytes(sig)
    if len(sig) != k or os2ip(sig) >= n:
        return False
    m = pow(os2ip(sig), e, n)
    em_len = -(-(n.bit_length() - 1) // 8)
    if m >= 256 ** em_len:
        return False
    return emsa_pss_verify(mhash, i2osp(m, em_len), n.bit_length() - 1, h, slen)


def spec_pss_sign(n, d, mhash, h, salt):
    """RFC 8017 8.1.1"""
    k = (n.bit_length() + 7) // 8
    em = emsa_pss_encode(mhash, n.bit_length() - 1, h, salt)
    return i2osp(pow(os2ip(em), d, n), k)


def xcheck_pss(rng, n_budget):
    fails, seen, evals = [], set(), 0
    sizes = [1024, 1025, 1026, 1027, 1028, 1029, 1030, 1031, 1032, 1033, 2048, 2049]
    if n_budget >= 2000:
        sizes += [3072, 4096, 4097]

    def fail(cls, what, inp):
        if len(fails) < 8:
            fails.append({'class': cls, 'what': what, 'input': inp})
    for bits in sizes:
        key = _key(bits, rng)
        n, e, d = key[0], key[1], key[2]
        k = (bits + 7) // 8
        rk = real_key(key)
        one_mod_8 = bits % 8 == 1
        for h, slen in (('sha256', 32), ('sha256', 0), ('sha384', 48), ('sha512', 64), ('sha1', 20), ('sha256', 11)):
            hlen = hashlib.new(h).digest_size
            em_len = -(-(bits - 1) // 8)
            if em_len < hlen + slen + 2:
                continue
            mhash = hashlib.new(h, b'pss message %d' % rng.randrange(1 << 30)).digest()
            salt = bytes(rng.randrange(256) for _ in range(slen))
            cls = 'pss-modbits-1-mod-8' if one_mod_8 else None
            inp = {'n': n, 'e': e, 'd': d, 'p': key[3], 'q': key[4], 'modbits': bits, 'hash': h, 'salt_len': slen,
                   'mhash_hex': mhash.hex()}
            # 1. the library signs: must not raise, and the RFC verifier must accept
            evals += 1
            seen.add((bits % 8, h, slen, 'sign'))
            try:
                own = bytes(rk.sign(bytearray(mhash), 'pss', h, slen))
            except Exception as ex:
                own = None
                fail(cls or 'pss-sign-raises', 'RSAKey.sign(pss, %s, saltLen=%d) raised %s("%s") for a %d-bit modulus although '
                     'emLen=%d >= hLen+sLen+2=%d (RFC 8017 8.1.1 never fails here)'
                     % (h, slen, type(ex).__name__, ex, bits, em_len, hlen + slen + 2), inp)
            if own is not None and not spec_pss_verify(n, e, own, mhash, h, slen):
                fail(cls or 'pss-sign-not-verifiable', 'signature made by RSAKey.sign(pss) is rejected by the RFC 8017 verifier',
                     dict(inp, sig_hex=own.hex()))
            # 2. the library verifies an RFC-made signature
            sig = spec_pss_sign(n, d, mhash, h, salt)
            assert spec_pss_verify(n, e, sig, mhash, h, slen)
            evals += 1
            seen.add((bits % 8, h, slen, 'verify-valid'))
            try:
                got = rk.verify(bytearray(sig), bytearray(mhash), 'pss', h, slen)
            except Exception as ex:
                got = 'raised %s: %s' % (type(ex).__name__, ex)
            if got is not True:
                fail(cls or 'pss-valid-signature-rejected', 'RSAKey.verify(pss) returned %r for a signature made per RFC 8017 8.1.1 '
                     '(%d-bit modulus)' % (got, bits), dict(inp, sig_hex=sig.hex(), salt_hex=salt.hex()))
            # 3. mutated encoded messages: one violated step each
            em = bytearray(emsa_pss_encode(mhash, bits - 1, h, salt))
            muts = []
            b = bytearray(em); b[-1] = 0xbd; muts.append(('trailer', b))
            zbits = 8 * em_len - (bits - 1)
            if zbits:
                b = bytearray(em); b[0] |= 0x80; muts.append(('top-bit-set', b))
            b = bytearray(em); b[em_len - hlen - 1 - slen - 1] ^= 0x01; muts.append(('separator-01-damaged', b))
            if em_len - hlen - slen - 2 > 1:
                b = bytearray(em); b[1] ^= 0x40; muts.append(('ps-nonzero', b))
            b = bytearray(em); b[em_len - 2] ^= 0x01; muts.append(('hash-damaged', b))
            if slen:
                b = bytearray(em); b[em_len - hlen - 2] ^= 0x01; muts.append(('salt-damaged', b))
            for tag, b in muts:
                m = os2ip(b)
                if m >= n:
                    continue
                s2 = i2osp(pow(m, d, n), k)
                evals += 1
                want = spec_pss_verify(n, e, s2, mhash, h, slen)
                try:
                    got = rk.verify(bytearray(s2), bytearray(mhash), 'pss', h, slen)
                except Exception as ex:
                    got = 'raised %s: %s' % (type(ex).__name__, ex)
                seen.add((bits % 8, h, slen, tag, want))
                if got != want:
                    fail(cls or 'pss-verify-disagrees', 'RSAKey.verify(pss) returned %r, RFC 8017 8.1.2 says %r (%s)' % (got, want, tag),
                         dict(inp, sig_hex=s2.hex(), tag=tag))
            # wrong salt length / wrong hash / non-canonical signature
            for tag, args in (('wrong-salt-length', (sig, mhash, h, slen + 1)),
                              ('sig-plus-n', (i2osp(os2ip(sig) + n, k) if os2ip(sig) + n < 256 ** k else sig[:-1], mhash, h, slen)),
                              ('sig-short', (sig[:-1], mhash, h, slen)), ('sig-long', (b'\x00' + sig, mhash, h, slen))):
                evals += 1
                want = spec_pss_verify(n, e, args[0], args[1], args[2], args[3])
                try:
                    got = rk.verify(bytearray(args[0]), bytearray(args[1]), 'pss', args[2], args[3])
                except Exception as ex:
                    got = 'raised %s: %s' % (type(ex).__name__, ex)
                seen.add((bits % 8, h, slen, tag, want))
                if got != want:
                    fail(cls or 'pss-verify-disagrees', 'RSAKey.verify(pss) returned %r, RFC 8017 8.1.2 says %r (%s)' % (got, want, tag),
                         dict(inp, sig_hex=bytes(args[0]).hex(), tag=tag))
    # the known defect first, so that it is the failure reported for the function
    fails.sort(key=lambda f: f['class'] != 'pss-modbits-1-mod-8')
    return {'evaluations': evals, 'distinct_nontrivial': len(seen),
            'bound': 'moduli of %s bits (every residue mod 8) x 6 (hash, salt length) pairs x (library signs / RFC verifier, '
                     'RFC signer / library verifies, 6 step-violating encodings, wrong salt length, non-canonical signatures)' % sizes,
            'rule': 'distinct (modulus bits mod 8, hash, salt length, case, expected verdict)', 'failures': fails}


def xcheck_emsa_pss(rng, n_budget):
    """EMSA_PSS_encode / EMSA_PSS_verify / MGF1 of the library against the RFC functions, directly on encoded messages
    (no RSA operation), for every emBits mod 8."""
    from tlslite.utils.python_rsakey import Python_RSAKey
    from tlslite.errors import InvalidSignature
    import tlslite.utils.rsakey as RM
    rk = real_key(_key(1024, rng))
    fails, seen, evals = [], set(), 0
    for h in ('sha1', 'sha256', 'sha384', 'sha512', 'md5', 'sha224'):
        hlen = hashlib.new(h).digest_size
        for ml in (0, 1, hlen - 1, hlen, hlen + 1, 3 * hlen, 3 * hlen + 7, 255, 256, 1000):
            seed = bytes(rng.randrange(256) for _ in range(rng.randrange(0, 70)))
            evals += 1
            got = bytes(rk.MGF1(bytearray(seed), ml, h))
            seen.add(('mgf1', h, ml))
            if got != mgf1(seed, ml, h) and len(fails) < 5:
                fails.append({'class': 'mgf1-disagrees', 'what': 'MGF1 differs from RFC 8017 B.2.1',
                              'input': {'seed_hex': seed.hex(), 'maskLen': ml, 'hash': h}})
        for em_bits in list(range(8 * (2 * hlen + 2), 8 * (2 * hlen + 2) + 9)) + [1023, 1024, 2047]:
            for slen in (0, 1, hlen):
                em_len = -(-em_bits // 8)
                if em_len < hlen + slen + 2:
                    continue
                mhash = hashlib.new(h, b'm%d' % rng.randrange(1 << 20)).digest()
                salt = bytes(rng.randrange(256) for _ in range(slen))
                orig = RM.getRandomBytes
                RM.getRandomBytes = lambda nb: bytearray(salt[:nb])
                try:
                    got = bytes(rk.EMSA_PSS_encode(bytearray(mhash), em_bits, h, slen))
                finally:
                    RM.getRandomBytes = orig
                evals += 1
                seen.add(('encode', h, em_bits % 8, slen))
                if got != emsa_pss_encode(mhash, em_bits, h, salt) and len(fails) < 5:
                    fails.append({'class': 'emsa-pss-encode-disagrees', 'what': 'EMSA_PSS_encode differs from RFC 8017 9.1.1',
                                  'input': {'mhash_hex': mhash.hex(), 'emBits': em_bits, 'hash': h, 'salt_hex': salt.hex()}})
                em = emsa_pss_encode(mhash, em_bits, h, salt)
                cands = [('valid', em)]
                for pos in sorted(set([0, 1, em_len - hlen - slen - 2, em_len - hlen - 2, em_len - hlen - 1, em_len - 2, em_len - 1])):
                    if 0 <= pos < em_len:
                        b = bytearray(em)
                        b[pos] ^= 1 << rng.randrange(8)
                        cands.append(('flip@%d' % pos, bytes(b)))
                for tag, cand in cands:
                    evals += 1
                    want = emsa_pss_verify(mhash, cand, em_bits, h, slen)
                    try:
                        got = rk.EMSA_PSS_verify(bytearray(mhash), bytearray(cand), em_bits, h, slen)
                    except InvalidSignature:
                        got = False
                    except Exception as ex:
                        got = 'raised %s: %s' % (type(ex).__name__, ex)
                    seen.add(('verify', h, em_bits % 8, slen, tag.split('@')[0], want))
                    if got != want and len(fails) < 5:
                        fails.append({'class': 'emsa-pss-verify-disagrees',
                                      'what': 'EMSA_PSS_verify returned %r, RFC 8017 9.1.2 says %r (%s)' % (got, want, tag),
                                      'input': {'mhash_hex': mhash.hex(), 'em_hex': cand.hex(), 'emBits': em_bits, 'hash': h, 'sLen': slen}})
    return {'evaluations': evals, 'distinct_nontrivial': len(seen),
            'bound': '6 hashes; MGF1 lengths around multiples of hLen; emBits over every residue mod 8 at the minimum size and '
                     '1023/1024/2047; salt lengths 0, 1, hLen; single-bit damage at every structurally distinct position',
            'rule': 'distinct (function, hash, emBits mod 8, salt length, case, verdict)', 'failures': fails}


# ----------------------------------------------------------------------------
# C10: FFDH and X25519 / X448

def spec_ffdh(p, version, private, share):
    """RFC 7919 5.1 / RFC 8446 4.2.8.1: ('ok', secret bytes) or ('reject',)"""
    plen = (p.bit_length() + 7) // 8
    if isinstance(share, (bytes, bytearray)):
        if len(share) != plen:
            return ('reject',)
        y = os2ip(share)
    else:
        y = share
    if not 1 < y < p - 1:
        return ('reject',)
    z = pow(y, private, p)
    if z in (1, p - 1):                       # shared secret confined to the subgroup of order 1 or 2
        return ('reject',)
    if version < (3, 4):
        return ('ok', i2osp(z, max(1, (z.bit_length() + 7) // 8)))      # RFC 5246 8.1.2: leading zeros stripped
    return ('ok', i2osp(z, plen))                                       # RFC 8446 7.4.1: padded to the size of p


def xcheck_ffdh(rng, n_budget):
    import tlslite.keyexchange as KX
    from tlslite.errors import TLSIllegalParameterException
    from tlslite.mathtls import RFC7919_GROUPS
    fails, seen, evals = [], set(), 0
    groups = [(256, RFC7919_GROUPS[0]), (257, RFC7919_GROUPS[1])]
    for gid, (g, p) in groups:
        plen = (p.bit_length() + 7) // 8
        for version in ((3, 3), (3, 4)):
            kx = KX.FFDHKeyExchange(gid, version)
            priv = rng.randrange(2, 1 << 256)
            ys = [('0', 0), ('1', 1), ('2', 2), ('p-2', p - 2), ('p-1', p - 1), ('p', p), ('p+1', p + 1), ('-1', -1),
                  ('small', 7)] + [('random%d' % i, rng.randrange(2, p - 1)) for i in range(max(4, n_budget // 40))]
            # a share whose power lands in {1, p-1}: Y = p-1 is excluded by range; order-2 results need Y^x = p-1
            cases = []
            for tag, y in ys:
                cases.append((tag + '/int', y))
                if 0 <= y < 256 ** plen:
                    cases.append((tag + '/bytes', bytearray(i2osp(y, plen))))
                if 0 <= y < 256 ** (plen - 1):
                    cases.append((tag + '/bytes-short', bytearray(i2osp(y, plen - 1))))
                if 0 <= y:
                    cases.append((tag + '/bytes-long', bytearray(i2osp(y, plen + 1))))
            for tag, share in cases:
                evals += 1
                want = spec_ffdh(p, version, priv, share)
                try:
                    got = ('ok', bytes(kx.calc_shared_key(priv, share)))
                except TLSIllegalParameterException:
                    got = ('reject',)
                except Exception as ex:
                    got = ('raised', type(ex).__name__, str(ex))
                seen.add((gid, version, tag.split('/')[0][:6], tag.split('/')[1], want[0]))
                if got != want and len(fails) < 5:
                    fails.append({'class': 'ffdh-shared-key-disagrees',
                                  'what': 'FFDHKeyExchange.calc_shared_key gave %r, specification says %r (%s)' % (got[:2], want[:1], tag),
                                  'input': {'group': gid, 'version': list(version), 'private': priv,
                                            'share': share if isinstance(share, int) else bytes(share).hex(), 'tag': tag}})
    return {'evaluations': evals, 'distinct_nontrivial': len(seen),
            'bound': 'ffdhe2048, ffdhe3072; TLS 1.2 and 1.3; shares 0, 1, 2, p-2, p-1, p, p+1, -1 and random, as integers and as '
                     'byte strings of length len(p)-1, len(p), len(p)+1',
            'rule': 'distinct (group, version, share class, encoding, verdict)', 'failures': fails}


def _x_ladder(k_int, u_int, bits, a24, p):
    """RFC 7748 section 5 Montgomery ladder (independent transcription)"""
    x1, x2, z2, x3, z3, swap = u_int, 1, 0, u_int, 1, 0
    for t in reversed(range(bits)):
        kt = (k_int >> t) & 1
        swap ^= kt
        if swap:
            x2, x3, z2, z3 = x3, x2, z3, z2
        swap = kt
        a = (x2 + z2) % p
        aa = a * a % p
        b = (x2 - z2) % p
        bb = b * b % p
        e = (aa - bb) % p
        c = (x3 + z3) % p
        dd = (x3 - z3) % p
        da = dd * a % p
        cb = c * b % p
        x3 = (da + cb) ** 2 % p
        z3 = x1 * (da - cb) ** 2 % p
        x2 = aa * bb % p
        z2 = e * (aa + a24 * e) % p
    if swap:
        x2, x3, z2, z3 = x3, x2, z3, z2
    return x2 * pow(z2, p - 2, p) % p


def spec_x25519(k, u):
    k = bytearray(k)
    k[0] &= 248
    k[31] &= 127
    k[31] |= 64
    u = bytearray(u)
    u[31] &= 127
    r = _x_ladder(int.from_bytes(k, 'little'), int.from_bytes(u, 'little'), 255, 121665, 2 ** 255 - 19)
    return r.to_bytes(32, 'little')


def spec_x448(k, u):
    k = bytearray(k)
    k[0] &= 252
    k[55] |= 128
    r = _x_ladder(int.from_bytes(k, 'little'), int.from_bytes(bytes(u), 'little'), 448, 39081, 2 ** 448 - 2 ** 224 - 1)
    return r.to_bytes(56, 'little')


def spec_xdh(group, private, share):
    size, fn = (32, spec_x25519) if group == 29 else (56, spec_x448)
    if len(share) != size:
        return ('reject',)
    z = fn(private, share)
    if not any(z):
        return ('reject',)                    # RFC 7748 section 6 / RFC 8446 7.4.2
    return ('ok', z)


_X25519_LOW_ORDER = [      # RFC 7748 / https://cr.yp.to/ecdh.html small-order u-coordinates
    '0000000000000000000000000000000000000000000000000000000000000000',
    '0100000000000000000000000000000000000000000000000000000000000000',
    'e0eb7a7c3b41b8ae1656e3faf19fc46ada098deb9c32b1fd866205165f49b800',
    '5f9c95bca3508c24b1d0b1559c83ef5b04445cc4581c8e86d8224eddd09f1157',
    'ecffffffffffffffffffffffffffffffffffffffffffffffffffffffffffff7f',
    'edffffffffffffffffffffffffffffffffffffffffffffffffffffffffffff7f',
    'eeffffffffffffffffffffffffffffffffffffffffffffffffffffffffffff7f',
]
_RFC7748_VECTORS = [
    (29, 'a546e36bf0527c9d3b16154b82465edd62144c0ac1fc5a18506a2244ba449ac4',
     'e6db6867583030db3594c1a424b15f7c726624ec26b3353b10a903a6d0ab1c4c',
     'c3da55379de9c6908e94ea4df28d084f32eccf03491c71f754b4075577a28552'),
    (29, '4b66e9d4d1b4673c5ad22691957d6af5c11b6421e0ea01d42ca4169e7918ba0d',
     'e5210f12786811d3f4b7959d0538ae2c31dbe7106fc03c3efc4cd549c715a493',
     '95cbde9476e8907d7aade45cb4b873f88b595a68799fa152e6f8f7647aac7957'),
    (30, '3d262fddf9ec8e88495266fea19a34d28882acef045104d0d1aae121700a779c984c24f8cdd78fbff44943eba368f54b29259a4f1c600ad3',
     '06fce640fa3487bfda5f6cf2d5263f8aad88334cbd07437f020f08f9814dc031ddbdc38c19c6da2583fa5429db94ada18aa7a7fb4ef8a086',
     'ce3e4ff95a60dc6697da1db1d85e6afbdf79b50a2412d7546d5f239fe14fbaadeb445fc66a01b0779d98223961111e21766282f73dd96b6f'),
]


def xcheck_xdh(rng, n_budget):
    import tlslite.keyexchange as KX
    from tlslite.errors import TLSIllegalParameterException
    fails, seen, evals = [], set(), 0
    for group, kh, uh, rh in _RFC7748_VECTORS:
        fn = spec_x25519 if group == 29 else spec_x448
        assert fn(bytes.fromhex(kh), bytes.fromhex(uh)).hex() == rh, 'reference ladder fails an RFC 7748 vector'
    for group, size in ((29, 32), (30, 56)):
        kx = KX.ECDHKeyExchange(group, (3, 4))
        cases = []
        if group == 29:
            cases += [('low-order-%d' % i, bytes.fromhex(h)) for i, h in enumerate(_X25519_LOW_ORDER)]
        else:
            p448 = 2 ** 448 - 2 ** 224 - 1
            cases += [('low-order-0', bytes(56)), ('low-order-1', (1).to_bytes(56, 'little')),
                      ('low-order-p-1', (p448 - 1).to_bytes(56, 'little')), ('p', p448.to_bytes(56, 'little')),
                      ('p+1', (p448 + 1).to_bytes(56, 'little'))]
        cases += [('short', bytes(rng.randrange(256) for _ in range(size - 1))),
                  ('long', bytes(rng.randrange(256) for _ in range(size + 1))), ('empty', b''),
                  ('all-ff', b'\xff' * size)]
        cases += [('random%d' % i, bytes(rng.randrange(256) for _ in range(size))) for i in range(max(6, n_budget // 25))]
        cases += [('rfc7748-vector', bytes.fromhex(uh)) for g, kh, uh, rh in _RFC7748_VECTORS if g == group]
        for tag, share in cases:
            priv = bytes(rng.randrange(256) for _ in range(size))
            for g, kh, uh, rh in _RFC7748_VECTORS:
                if tag == 'rfc7748-vector' and g == group and bytes.fromhex(uh) == share:
                    priv = bytes.fromhex(kh)
            evals += 1
            want = spec_xdh(group, priv, share)
            try:
                got = ('ok', bytes(kx.calc_shared_key(bytearray(priv), bytearray(share))))
            except TLSIllegalParameterException:
                got = ('reject',)
            except Exception as ex:
                got = ('raised', type(ex).__name__, str(ex))
            seen.add((group, tag.rstrip('0123456789'), want[0]))
            if got != want and len(fails) < 5:
                fails.append({'class': 'xdh-shared-key-disagrees',
                              'what': 'ECDHKeyExchange.calc_shared_key gave %r, specification says %r (%s)' % (got, want, tag),
                              'input': {'group': group, 'private_hex': priv.hex(), 'share_hex': share.hex(), 'tag': tag}})
    return {'evaluations': evals, 'distinct_nontrivial': len(seen),
            'bound': 'X25519 and X448; RFC 7748 vectors, the small-order points, non-canonical u >= p, wrong lengths, random shares',
            'rule': 'distinct (group, share class, verdict)', 'failures': fails}


XCHECKS = {'rsa_decrypt': xcheck_decrypt, 'rsa_kex_premaster': xcheck_pcke, 'pkcs1_verify': xcheck_pkcs1,
           'rsa_pss': xcheck_pss, 'emsa_pss': xcheck_emsa_pss, 'ffdh_shared_key': xcheck_ffdh,
           'x25519_shared_key': xcheck_xdh}
