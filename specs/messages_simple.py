"""Executable reference encodings of the simple TLS messages (written from RFC 5246 / 8446 / 6520 and the NPN
draft with struct, not from tlslite's code) and the differential run against tlslite.messages: byte-exact
write, parse(write(x)) == x consuming everything, every truncation and every outer/inner length disagreement
is a DecodeError, random garbage raises nothing but DecodeError (C15, C08).
"""
import struct


def hs(msg_type, body):
    if len(body) >= 1 << 24:
        raise ValueError
    return bytes([msg_type]) + struct.pack('>I', len(body))[1:] + bytes(body)


def ref_record_header(t, version, length):
    return struct.pack('>BBBH', t, version[0], version[1], length)


def ref_alert(level, description):
    return struct.pack('>BB', level, description)


def ref_ccs(t=1):
    return struct.pack('>B', t)


def ref_finished(verify_data):
    return hs(20, verify_data)


def ref_certificate_verify(version, sigalg, signature):
    body = b''
    if version >= (3, 3):
        body += struct.pack('>BB', *sigalg)
    body += struct.pack('>H', len(signature)) + bytes(signature)
    return hs(15, body)


def ref_key_update(request):
    return hs(24, struct.pack('>B', request))


def ref_heartbeat(t, payload, padding):
    return struct.pack('>BH', t, len(payload)) + bytes(payload) + bytes(padding)


def ref_next_protocol(proto):
    pad = 32 - ((len(proto) + 2) % 32)
    return hs(67, struct.pack('>B', len(proto)) + bytes(proto) + struct.pack('>B', pad) + bytes(pad))


def ref_new_session_ticket(lifetime, age_add, nonce, ticket):
    body = struct.pack('>II', lifetime, age_add) + struct.pack('>B', len(nonce)) + bytes(nonce) + \
        struct.pack('>H', len(ticket)) + bytes(ticket) + struct.pack('>H', 0)
    return hs(4, body)


def _fail(fails, cls, what, **inp):
    if len(fails) < 8:
        fails.append({'class': cls, 'what': what, 'input': inp})


def _cases(rng):
    """(name, constructor of an empty object, create-args, reference bytes, parse offset, field getter)"""
    import tlslite.messages as M
    rb = lambda n: bytearray(rng.randrange(256) for _ in range(n))
    out = []
    v = rng.choice([(3, 0), (3, 1), (3, 2), (3, 3), (3, 4)])
    t, ln = rng.randrange(256), rng.choice([0, 1, 255, 256, 16384, 65535, rng.randrange(65536)])
    ver = (rng.randrange(256), rng.randrange(256))
    out.append(('RecordHeader3', lambda: M.RecordHeader3(), lambda o: o.create(ver, t, ln), ref_record_header(t, ver, ln), 0,
                lambda o: (o.type, tuple(o.version), o.length)))
    lv, ds = rng.randrange(256), rng.randrange(256)
    out.append(('Alert', lambda: M.Alert(), lambda o: o.create(ds, lv), ref_alert(lv, ds), 0, lambda o: (o.level, o.description)))
    out.append(('ChangeCipherSpec', lambda: M.ChangeCipherSpec(), lambda o: o.create(), ref_ccs(1), 0, lambda o: (o.type,)))
    out.append(('HelloRequest', lambda: M.HelloRequest(), lambda o: o.create(), hs(0, b''), 1, lambda o: ()))
    out.append(('ServerHelloDone', lambda: M.ServerHelloDone(), lambda o: o.create(), hs(14, b''), 1, lambda o: ()))
    hl = rng.choice([32, 48])
    vd = rb(36 if v == (3, 0) else (hl if v > (3, 3) else 12))
    out.append(('Finished', lambda: M.Finished(v, hl), lambda o: o.create(vd), ref_finished(vd), 1, lambda o: (bytes(o.verify_data),)))
    sa = (rng.randrange(256), rng.randrange(256))
    sig = rb(rng.choice([0, 1, 64, 255, 256, 512]))
    out.append(('CertificateVerify', lambda: M.CertificateVerify(v), lambda o: o.create(sig, sa if v >= (3, 3) else None),
                ref_certificate_verify(v, sa, sig), 1,
                lambda o: (tuple(o.signatureAlgorithm) if v >= (3, 3) else None, bytes(o.signature))))
    ku = rng.randrange(256)
    out.append(('KeyUpdate', lambda: M.KeyUpdate(), lambda o: o.create(ku), ref_key_update(ku), 1, lambda o: (o.message_type,)))
    proto = rb(rng.choice([0, 1, 8, 29, 30, 31, 32, 255]))
    out.append(('NextProtocol', lambda: M.NextProtocol(), lambda o: o.create(proto), ref_next_protocol(proto), 1,
                lambda o: (bytes(o.next_proto),)))
    pl, pad = rb(rng.choice([0, 1, 16, 300])), rb(rng.choice([0, 16, 40]))

    def mk_hb(o):
        o.message_type, o.payload, o.padding = t, pl, pad
        return o
    out.append(('Heartbeat', lambda: M.Heartbeat(), mk_hb, ref_heartbeat(t, pl, pad), 0,
                lambda o: (o.message_type, bytes(o.payload), bytes(o.padding))))
    lt, aa = rng.randrange(1 << 32), rng.randrange(1 << 32)
    nonce, ticket = rb(rng.choice([0, 1, 8, 255])), rb(rng.choice([1, 32, 300]))
    out.append(('NewSessionTicket', lambda: M.NewSessionTicket(), lambda o: o.create(lt, aa, nonce, ticket, []),
                ref_new_session_ticket(lt, aa, nonce, ticket), 1,
                lambda o: (o.ticket_lifetime, o.ticket_age_add, bytes(o.ticket_nonce), bytes(o.ticket), list(o.extensions))))
    ad = rb(rng.choice([0, 1, 100]))
    out.append(('ApplicationData', lambda: M.ApplicationData(), lambda o: o.create(ad), bytes(ad), 0, lambda o: (bytes(o.bytes),)))
    return out


def _parse(mk, wire, off):
    from tlslite.utils.codec import Parser
    p = Parser(bytearray(wire))
    p.index = off
    try:
        o = mk().parse(p)
    except Exception as e:      # noqa
        return None, type(e).__name__, isinstance(e, SyntaxError), p
    return o, None, True, p


def xcheck_messages(rng, n):
    from tlslite.utils.codec import Parser
    fails, seen, evals = [], set(), 0
    for _ in range(n):
        for (name, mk, fill, ref, off, fields) in _cases(rng):
            evals += 1
            x = fill(mk())
            try:
                wire = bytes(x.write())
            except Exception as e:      # noqa
                _fail(fails, 'message-write-raises', '%s.write raised %s for representable fields' % (name, type(e).__name__), message=name)
                continue
            seen.add((name, 'write'))
            if wire != ref:
                _fail(fails, 'message-layout-differs', '%s.write %s, RFC layout %s' % (name, wire.hex()[:120], ref.hex()[:120]), message=name)
                continue
            y, exn, _, p = _parse(mk, wire, off)
            if y is None:
                _fail(fails, 'message-roundtrip-rejected', '%s.parse(write(x)) raised %s' % (name, exn), message=name, wire_hex=wire.hex()[:200])
                continue
            if fields(y) != fields(x) or (name != 'ApplicationData' and p.index != len(wire)):
                _fail(fails, 'message-roundtrip-mismatch', '%s: %r -> %r, consumed %d of %d' % (name, fields(x), fields(y), p.index, len(wire)),
                      message=name, wire_hex=wire.hex()[:200])
            if bytes(y.write()) != wire:
                _fail(fails, 'message-rewrite-differs', '%s: write(parse(w)) != w' % name, message=name, wire_hex=wire.hex()[:200])
            if name == 'ApplicationData':
                continue
            # truncations
            cuts = range(off, len(wire)) if len(wire) - off <= 64 else sorted(set([off, off + 1, off + 2, off + 3, len(wire) - 2, len(wire) - 1] +
                                                                           [rng.randrange(off, len(wire)) for _ in range(10)]))
            for cut in cuts:
                evals += 1
                o, exn, is_syn, _p = _parse(mk, wire[:cut], off)
                seen.add((name, 'trunc', exn))
                if o is not None and not (name == 'Heartbeat' and cut >= 3 + int.from_bytes(wire[1:3], 'big')):
                    _fail(fails, 'truncated-message-accepted', '%s: %d of %d bytes accepted' % (name, cut, len(wire)), message=name,
                          wire_hex=wire[:cut].hex()[:200])
                elif o is None and exn != 'DecodeError':
                    _fail(fails, 'message-undocumented-exception', '%s: truncated input raised %s' % (name, exn), message=name,
                          wire_hex=wire[:cut].hex()[:200])
            # outer handshake length disagreeing with the content
            if off == 1:
                body_len = int.from_bytes(wire[1:4], 'big')
                for d in (-1, 1, 2, 256):
                    nl = body_len + d
                    if 0 <= nl < 1 << 24:
                        evals += 1
                        w2 = wire[:1] + nl.to_bytes(3, 'big') + wire[4:] + bytes(max(0, d))    # enough bytes present
                        o, exn, is_syn, _p = _parse(mk, w2, off)
                        seen.add((name, 'outer%+d' % d, exn))
                        if o is not None:
                            _fail(fails, 'length-disagreement-accepted', '%s: outer length %d for a %d-byte body accepted' % (name, nl, body_len),
                                  message=name, wire_hex=w2.hex()[:200])
                        elif exn != 'DecodeError':
                            _fail(fails, 'message-undocumented-exception', '%s: bad outer length raised %s' % (name, exn), message=name,
                                  wire_hex=w2.hex()[:200])
            # garbage of the same length: nothing but DecodeError may come out
            evals += 1
            g = bytes(rng.randrange(256) for _ in range(len(wire)))
            o, exn, is_syn, _p = _parse(mk, g, off)
            seen.add((name, 'garbage', exn))
            if o is None and exn != 'DecodeError':
                _fail(fails, 'message-undocumented-exception', '%s: random input raised %s' % (name, exn), message=name, wire_hex=g.hex()[:200])
    return {'evaluations': evals, 'distinct_nontrivial': len(seen),
            'bound': '13 message classes, versions SSLv3..TLS1.3, field values incl. 0/255/256/65535 boundaries, all truncations of short '
                     'messages, outer length -1/+1/+2/+256, random garbage; seed-dependent sample',
            'rule': 'distinct (message, check class, exception name)', 'failures': fails}


XCHECKS = {'messages_simple': xcheck_messages}
