"""C09 -- key derivation: contracts on tlslite/mathtls.py (P_hash, PRF*, PRF_SSL, calc_key and
the helpers it replaces, MAC_SSL, createHMAC/createMAC_SSL), tlslite/utils/cryptomath.py
(secureHash, secureHMAC, HKDF_expand, HKDF_expand_label, derive_secret),
tlslite/utils/tlshmac.py (fallback HMAC class) and HandshakeHashes.digestSSL.

Hash functions and HMAC are uninterpreted:
    Hash(alg, data)                 the digest of `data` under hash `alg`
    Hmac(HmacKey(alg, key), data)   HMAC-alg keyed with `key` over `data`
    HashLen(alg), BlockLen(alg)     output / block size (>= 1; the standard values for md5..sha512)
The specifications are the RFC formulas written over these functions (RFC 5246 5, RFC 2246 5,
RFC 6101 5.2.3.1/5.6.9/6.1, RFC 5869 2.3, RFC 8446 7.1, RFC 2104 2, RFC 7627 4).
"""
import hashlib as _py_hashlib
import hmac as _py_hmac

import z3

import tlslite.mathtls as MT
import tlslite.handshakehashes as HH
import tlslite.utils.cryptomath as CM
import tlslite.utils.tlshashlib as TLH
import tlslite.utils.tlshmac as TLHMAC
from tlslite.constants import CipherSuite

from pyvc import smt, builtins_model
from pyvc.smt import Seq, Val, slen, sat, isb
from pyvc.contract import contract, scenario, LoopSpec, REG
from pyvc.state import T
from pyvc import spec as S
from pyvc.values import (VInt, VBool, VSeq, VNone, VStr, VObj, VPy, VOpaque, VTuple, VList, Unsupported,
                         to_val, truthy, fresh_name, _lift)
from pyvc.executor import Outcome, SpecFn, lift_py

PROP = 'C09'
M = 'tlslite/mathtls.py:'
C = 'tlslite/utils/cryptomath.py:'
HHQ = 'tlslite/handshakehashes.py:'

if not hasattr(VInt, '__truediv__'):
    VInt.__truediv__ = lambda self, o: VInt(self.t / (o.t if hasattr(o, 't') else o))

# ---------------------------------------------------------------------------
# uninterpreted primitives

Hash = S.uf('Hash', [Val, Seq], Seq, seq_ext=[1])
HmacKey = S.uf('HmacKey', [Val, Seq], Val, seq_ext=[1])
HashLen = S.uf('HashLen', [Val], smt.I)
BlockLen = S.uf('BlockLen', [Val], smt.I)
Hmac = S.Hmac

# recursively defined specification functions
#   phA(k, seed, i)   = A(i) of RFC 5246 section 5:  A(0) = seed, A(i) = HMAC(k, A(i-1))
#   hkT(k, info, i)   = T(i) of RFC 5869 section 2.3: T(0) = empty, T(i) = HMAC(k, T(i-1) | info | i)
phA = S.uf('phA', [Val, Seq, smt.I], Seq, seq_ext=[1])
hkT = S.uf('hkT', [Val, Seq, smt.I], Seq, seq_ext=[1])

ALGS = {'md5': (16, 64), 'sha1': (20, 64), 'sha224': (28, 64), 'sha256': (32, 64), 'sha384': (48, 128),
        'sha512': (64, 128)}


def algv(a):
    """z3 Val naming a hash algorithm (python str, VStr or opaque symbolic name)."""
    if isinstance(a, str):
        a = VStr(a)
    return to_val(a)


def _kdf_axioms():
    a, k = z3.Consts('kd_a kd_k', Val)
    x, s, info = z3.Consts('kd_x kd_s kd_info', Seq)
    i, j = z3.Ints('kd_i kd_j')
    A = []
    A.append(z3.ForAll([a], HashLen(a) >= 1, patterns=[HashLen(a)]))
    A.append(z3.ForAll([a], BlockLen(a) >= 1, patterns=[BlockLen(a)]))
    for name, (ds, bs) in ALGS.items():
        A.append(HashLen(algv(name)) == ds)
        A.append(BlockLen(algv(name)) == bs)
    A.append(z3.ForAll([a, x], z3.And(slen(Hash(a, x)) == HashLen(a), isb(Hash(a, x))), patterns=[Hash(a, x)]))
    A.append(z3.ForAll([a, s, x], z3.And(slen(Hmac(HmacKey(a, s), x)) == HashLen(a), isb(Hmac(HmacKey(a, s), x))),
                       patterns=[Hmac(HmacKey(a, s), x)]))
    # definitions (well-founded recursion on i >= 0)
    A.append(z3.ForAll([k, s, i], z3.Implies(i == 0, phA(k, s, i) == s), patterns=[phA(k, s, i)]))
    A.append(z3.ForAll([k, s, i], z3.Implies(i >= 0, phA(k, s, i + 1) == Hmac(k, phA(k, s, i))),
                       patterns=[Hmac(k, phA(k, s, i))]))
    A.append(z3.ForAll([k, info, i], z3.Implies(i == 0, hkT(k, info, i) == smt.s_empty), patterns=[hkT(k, info, i)]))
    A.append(z3.ForAll([k, info, i, j],
                       z3.Implies(z3.And(i >= 0, j == i + 1),
                                  hkT(k, info, j) == Hmac(k, smt.s_concat(smt.s_concat(hkT(k, info, i), info),
                                                                          smt.s_single(j)))),
                       patterns=[Hmac(k, smt.s_concat(smt.s_concat(hkT(k, info, i), info), smt.s_single(j)))]))
    return A


_KDF_AX = _kdf_axioms()
smt.AXIOMS.extend(_KDF_AX)


def consistency_witnesses():
    k = z3.Const('kdw_k', Val)
    s = z3.Const('kdw_s', Seq)
    big = smt.s_single(z3.IntVal(300))
    md5 = algv('md5')
    ts = [Hash(md5, big), Hmac(HmacKey(md5, big), big), phA(k, s, z3.IntVal(0)), Hmac(k, phA(k, s, z3.IntVal(0))),
          hkT(k, s, z3.IntVal(0)),
          Hmac(k, smt.s_concat(smt.s_concat(hkT(k, s, z3.IntVal(0)), s), smt.s_single(z3.IntVal(1)))),
          Hmac(k, phA(k, s, z3.IntVal(1)))]
    return [slen(t) >= 0 for t in ts] + [HashLen(md5) + BlockLen(algv('sha384')) > 0]


smt.axioms_consistency_selftest(S.consistency_witnesses() + consistency_witnesses())


# spec-side constructors ------------------------------------------------------

def H(alg, data):
    """digest of `data` under hash `alg`"""
    return VSeq(Hash(algv(alg), data.t), 'byte', 'bytes')


def hkey(alg, key):
    return VOpaque(HmacKey(algv(alg), key.t))


def HM(alg, key, data):
    """HMAC-alg(key, data)   (RFC 2104, uninterpreted here)"""
    return VSeq(Hmac(HmacKey(algv(alg), key.t), data.t), 'byte', 'bytes')


def hlen(alg):
    return VInt(HashLen(algv(alg)))


def blen(alg):
    return VInt(BlockLen(algv(alg)))


def bytes_(b):
    """literal byte string"""
    return lift_py(bytes(b))


# ---------------------------------------------------------------------------
# executor models: hash objects (hashlib.*) and HMAC objects (hmac.HMAC / hmac.new)

class HashModel(object):
    """hashlib object: fields alg, fed, digest_size, block_size; copy() forks, update() appends,
    digest() = Hash(alg, fed) (does not change the object)."""

    def getattr(self, ex, v, name, st):
        if name in ('copy', 'update', 'digest'):
            return VPy(SpecFn(getattr(self, 'm_' + name)(v), name))
        if name == 'name':
            return st.heap[(v.oid, 'alg')]
        return None

    def m_copy(self, v):
        def f(ex, args, kw, st, fr, node):
            o = st.alloc('Hash')
            for fld in ('alg', 'fed', 'digest_size', 'block_size'):
                st.heap[(o.oid, fld)] = st.heap[(v.oid, fld)]
            return [Outcome('normal', st, o)]
        return f

    def m_update(self, v):
        def f(ex, args, kw, st, fr, node):
            d = args[0]
            if not isinstance(d, VSeq) or d.elem != 'byte':
                raise Unsupported('hash.update(%r)' % (d,))
            fed = st.heap[(v.oid, 'fed')]
            st.heap[(v.oid, 'fed')] = _append(fed, d)
            return [Outcome('normal', st, VNone())]
        return f

    def m_digest(self, v):
        def f(ex, args, kw, st, fr, node):
            alg = st.heap[(v.oid, 'alg')]
            fed = st.heap[(v.oid, 'fed')]
            ds = st.heap[(v.oid, 'digest_size')]
            r = H(alg, fed)
            st.assume(z3.And(slen(r.t) == ds.t, isb(r.t)))
            return [Outcome('normal', st, r)]
        return f


def _append(fed, d):
    """fed || d; the empty prefix is dropped (empty || d and d are the same byte string)."""
    if fed.t.eq(smt.s_empty):
        return VSeq(d.t, 'byte', 'bytes')
    return VSeq(smt.s_concat(fed.t, d.t), 'byte', 'bytes')


REG.models['Hash'] = HashModel()


def _sizes(alg):
    """(digest_size, block_size) of a hash: literal for the known names, HashLen/BlockLen terms otherwise"""
    if isinstance(alg, VStr) and alg.s in ALGS:
        return VInt(ALGS[alg.s][0]), VInt(ALGS[alg.s][1])
    return hlen(alg), blen(alg)


def make_hash(st, alg, fed=None, fresh=True):
    o = st.alloc('Hash')
    if not fresh:
        st.fresh_objs.discard(o.oid)
    st.heap[(o.oid, 'alg')] = alg
    st.heap[(o.oid, 'fed')] = fed if fed is not None else VSeq(smt.s_empty, 'byte', 'bytes')
    ds, bs = _sizes(alg)
    st.heap[(o.oid, 'digest_size')] = ds
    st.heap[(o.oid, 'block_size')] = bs
    st.assume(z3.And(HashLen(algv(alg)) == ds.t, BlockLen(algv(alg)) == bs.t, ds.t >= 1, bs.t >= 1))
    return o


class KMacModel(S.MacModel):
    """hmac.HMAC object created by the modelled constructor: MacModel with key = HmacKey(alg, key bytes)."""

    def m_update(self, v):
        def f(ex, args, kw, st, fr, node):
            d = args[0]
            if not isinstance(d, VSeq) or d.elem != 'byte':
                raise Unsupported('hmac.update(%r)' % (d,))
            st.heap[(v.oid, 'fed')] = _append(st.heap[(v.oid, 'fed')], d)
            return [Outcome('normal', st, VNone())]
        return f

    def m_copy(self, v):
        def f(ex, args, kw, st, fr, node):
            o = st.alloc('KMac')
            for fld in ('key', 'fed', 'digest_size', 'block_size'):
                st.heap[(o.oid, fld)] = st.heap[(v.oid, fld)]
            return [Outcome('normal', st, o)]
        return f


REG.models['KMac'] = KMacModel()

_CTOR_ALG = {}
for _n in ALGS:
    _CTOR_ALG[id(getattr(_py_hashlib, _n))] = _n
_CTOR_ALG[id(TLH.md5)] = 'md5'


def _alg_of(x, st):
    """Algorithm designated by a digestmod / name argument."""
    if isinstance(x, VStr):
        if x.s not in ALGS:
            raise Unsupported('hash algorithm %r' % x.s)
        return x
    if isinstance(x, VOpaque):
        return x
    if isinstance(x, VPy) and id(x.obj) in _CTOR_ALG:
        return VStr(_CTOR_ALG[id(x.obj)])
    if isinstance(x, VObj) and x.cls == 'Hash':
        return st.heap[(x.oid, 'alg')]
    raise Unsupported('digestmod %r' % (x,))


def _hash_ctor(name):
    def f(ex, args, kw, st, fr, node):
        if kw and set(kw) - {'usedforsecurity'}:
            raise Unsupported('hash constructor keywords %r' % (sorted(kw),))
        data = args[0] if args else None
        if data is not None and not (isinstance(data, VSeq) and data.elem == 'byte'):
            raise Unsupported('hash constructor data %r' % (data,))
        o = make_hash(st, VStr(name), None if data is None else VSeq(data.t, 'byte', 'bytes'))
        return [Outcome('normal', st, o)]
    return f


def _hash_new(ex, args, kw, st, fr, node):
    alg = _alg_of(args[0], st)
    data = args[1] if len(args) > 1 else None
    if data is not None and not (isinstance(data, VSeq) and data.elem == 'byte'):
        raise Unsupported('hashlib.new data %r' % (data,))
    o = make_hash(st, alg, None if data is None else VSeq(data.t, 'byte', 'bytes'))
    return [Outcome('normal', st, o)]


for _n in ALGS:
    builtins_model.model(getattr(_py_hashlib, _n))(_hash_ctor(_n))
builtins_model.model(_py_hashlib.new)(_hash_new)
REG.external['tlslite/utils/tlshashlib.py:md5'] = _hash_ctor('md5')
REG.external['tlslite/utils/tlshashlib.py:new'] = _hash_new


def _hmac_new(ex, args, kw, st, fr, node):
    """hmac.HMAC(key, msg=None, digestmod) / hmac.new(key, msg=None, digestmod)"""
    names = ['key', 'msg', 'digestmod']
    a = dict(zip(names, args))
    a.update(kw)
    key, msg, dm = a.get('key'), a.get('msg', VNone()), a.get('digestmod')
    if not (isinstance(key, VSeq) and key.elem == 'byte') or dm is None:
        raise Unsupported('hmac constructor arguments %r' % (a,))
    alg = _alg_of(dm, st)
    if isinstance(dm, VObj) and not st.heap[(dm.oid, 'fed')].t.eq(smt.s_empty):
        raise Unsupported('hmac with a pre-fed template hash')
    o = st.alloc('KMac')
    st.heap[(o.oid, 'key')] = hkey(alg, key)
    fed = VSeq(smt.s_empty, 'byte', 'bytes')
    if isinstance(msg, VSeq):
        fed = VSeq(msg.t, 'byte', 'bytes')
    elif not isinstance(msg, VNone):
        raise Unsupported('hmac msg %r' % (msg,))
    st.heap[(o.oid, 'fed')] = fed
    ds, bs = _sizes(alg)
    st.heap[(o.oid, 'digest_size')] = ds
    st.heap[(o.oid, 'block_size')] = bs
    st.assume(z3.And(HashLen(algv(alg)) == ds.t, BlockLen(algv(alg)) == bs.t, ds.t >= 1, bs.t >= 1))
    return [Outcome('normal', st, o)]


if TLHMAC.HMAC is _py_hmac.HMAC:
    builtins_model.model(_py_hmac.HMAC)(_hmac_new)
    builtins_model.model(_py_hmac.new)(_hmac_new)

# parameter types: hash object with a given (or symbolic) algorithm; arbitrary live python object
_prev_make = T.make


def _make_kdf(self, name, st, bv=None):
    if self.kind == 'hash':
        alg = self.kw.get('alg')
        algval = VStr(alg) if isinstance(alg, str) else VOpaque(z3.Const(fresh_name(name + '.alg'), Val))
        fed = VSeq(z3.Const(fresh_name(name + '.fed'), Seq), 'byte', 'bytes')
        st.assume(isb(fed.t))
        return make_hash(st, algval, fed, fresh=False)
    if self.kind == 'py':
        return lift_py(self.kw['value'])
    return _prev_make(self, name, st, bv)


T.make = _make_kdf
T.hash = staticmethod(lambda alg=None: T('hash', alg=alg))
T.py = staticmethod(lambda value: T('py', value=value))

REG.note(PROP, 'trusted', 'hash functions are uninterpreted: Hash(alg, data) with len == HashLen(alg) >= 1, all bytes; hashlib '
         'objects modelled as (alg, bytes fed): copy() forks, update() appends, digest() == Hash(alg, fed) and leaves the object unchanged')
REG.note(PROP, 'trusted', 'stdlib hmac.HMAC / hmac.new (what tlslite.utils.tlshmac exports on this interpreter) modelled as a keyed '
         'object with key == HmacKey(alg, key bytes), digest() == Hmac(key, fed), len == HashLen(alg); HMAC itself uninterpreted '
         '(the fallback class in tlshmac.py is verified against RFC 2104 separately)')
REG.note(PROP, 'trusted', 'HashLen/BlockLen of md5, sha1, sha224, sha256, sha384, sha512 are 16/64, 20/64, 28/64, 32/64, 48/128, 64/128')
REG.note(PROP, 'trusted', 'definitional axioms of the recursive specification functions phA (RFC 5246 A(i)) and hkT (RFC 5869 T(i)); '
         'axiom set checked for consistency on every run')


# ---------------------------------------------------------------------------
# secureHash / secureHMAC / MD5 / SHA1

contract(C + 'secureHash',
         params={'data': T.bytes(), 'algorithm': T.opaque()},
         result=T.bytes(),
         ensures=lambda ns: S.And(ns.result == H(ns.algorithm, ns.data),
                                  S.len_(ns.result) == hlen(ns.algorithm), S.is_bytes(ns.result)),
         raises={}, prop=PROP,
         doc='secureHash(data, alg) == Hash_alg(data), for every algorithm name and input')

HMAC_ALGS = ('md5', 'sha1', 'sha256', 'sha384')     # the algorithms the library passes to secureHMAC / HKDF

contract(C + 'secureHMAC',
         variants={a: {'k': T.bytes(), 'b': T.bytes(), 'algorithm': T.const(a)} for a in ALGS},
         result=T.bytes(),
         ensures=lambda ns: S.And(ns.result == HM(ns.algorithm, ns.k, ns.b),
                                  S.len_(ns.result) == hlen(ns.algorithm), S.is_bytes(ns.result)),
         raises={}, prop=PROP,
         doc='secureHMAC(k, b, alg) == HMAC-alg(k, b) for every key and message')


# ---------------------------------------------------------------------------
# P_hash  (RFC 5246 section 5 / RFC 2246 section 5)
#   A(0) = seed, A(i) = HMAC(secret, A(i-1))
#   P_hash(secret, seed) = HMAC(secret, A(1) + seed) + HMAC(secret, A(2) + seed) + ...
# every block has HashLen bytes, so byte p of the stream is byte p % HashLen of block p / HashLen + 1.

def phash_byte(alg, secret, seed, p, ds=None):
    k = HmacKey(algv(alg), secret.t)
    ds = hlen(alg) if ds is None else _lift(ds)
    p = _lift(p)
    blk = Hmac(k, smt.s_concat(phA(k, seed.t, (p / ds).t + 1), seed.t))
    return VInt(sat(blk, (p % ds).t))


def is_phash(out, alg, secret, seed, length, ds=None):
    """out == first `length` bytes of P_alg(secret, seed)"""
    return S.And(S.len_(out) == length, S.is_bytes(out),
                 S.forall(lambda p: out[p] == phash_byte(alg, secret, seed, p, ds), 0, length))


def inv_phash(ns):
    alg, ds = ns.mac_name, ns.f(ns.mac, 'digest_size')
    k = HmacKey(algv(alg), ns.secret.t)
    idx = ns.index
    return S.And(idx >= 0, idx <= ns.length, S.len_(ns.ret) == ns.length,
                 S.Or(idx == ns.length, idx % ds == 0),
                 S.implies(idx < ns.length, VBool(ns.A.t == phA(k, ns.seed.t, (idx / ds).t))),
                 S.forall(lambda p: ns.ret[p] == phash_byte(alg, ns.secret, ns.seed, p, ds), 0, idx))


contract(M + 'P_hash',
         params={'mac_name': T.opaque(), 'secret': T.bytes(), 'seed': T.bytes(), 'length': T.int()},
         requires=lambda ns: ns.length >= 0,
         result=T.bytes(),
         ensures=lambda ns: is_phash(ns.result, ns.mac_name, ns.secret, ns.seed, ns.length),
         raises={},
         loops={1: LoopSpec(inv_phash, variant=lambda ns: ns.length - ns.index, fingerprint='index < length')},
         prop=PROP,
         doc='P_hash(alg, secret, seed, n) == first n bytes of HMAC(secret, A(1)+seed) + HMAC(secret, A(2)+seed) + ... '
             'for every n >= 0, every secret/seed and every hash (any digest size >= 1)')


# ---------------------------------------------------------------------------
# PRF (TLS 1.0/1.1, RFC 2246 section 5):  PRF(secret, label, seed) = P_MD5(S1, label + seed) XOR P_SHA-1(S2, label + seed)
# S1 / S2 = first / last ceil(len(secret) / 2) bytes of the secret (they share a byte when the length is odd).
from pyvc import floats as _floats   # noqa: E402  (registers math.ceil / math.floor / ord models)


def prf10_byte(secret, label, seed, p):
    n = S.len_(secret)
    half = (n + 1) / 2
    s1 = secret[0:half]
    s2 = secret[n - half:n]
    ls = S.cat(label, seed)
    return phash_byte('md5', s1, ls, p, 16) ^ phash_byte('sha1', s2, ls, p, 20)


def is_prf10(out, secret, label, seed, length):
    return S.And(S.len_(out) == length, S.is_bytes(out),
                 S.forall(lambda p: out[p] == prf10_byte(secret, label, seed, p), 0, length))


def inv_prf_xor(ns):
    o = ns.old.p_md5
    return S.And(S.len_(ns.p_md5) == ns.length, S.len_(ns.p_sha1) == ns.length,
                 S.forall(lambda k: ns.p_md5[k] == (o[k] ^ ns.p_sha1[k]), 0, ns.idx),
                 S.forall(lambda k: ns.p_md5[k] == o[k], ns.idx, ns.length))


contract(M + 'PRF',
         params={'secret': T.bytes(), 'label': T.bytes(), 'seed': T.bytes(), 'length': T.int()},
         requires=lambda ns: ns.length >= 0,
         result=T.bytes(),
         ensures=lambda ns: is_prf10(ns.result, ns.secret, ns.label, ns.seed, ns.length),
         raises={},
         loops={1: LoopSpec(inv_prf_xor, fingerprint='range(length)')},
         prop=PROP,
         doc='PRF == P_MD5(first half) xor P_SHA1(second half) over label+seed, halves of ceil(n/2) bytes, every n and length')

contract(M + 'PRF_1_2',
         params={'secret': T.bytes(), 'label': T.bytes(), 'seed': T.bytes(), 'length': T.int()},
         requires=lambda ns: ns.length >= 0, result=T.bytes(),
         ensures=lambda ns: is_phash(ns.result, 'sha256', ns.secret, S.cat(ns.label, ns.seed), ns.length),
         raises={}, prop=PROP, doc='TLS 1.2 PRF == P_SHA256(secret, label + seed)  (RFC 5246 section 5)')

contract(M + 'PRF_1_2_SHA384',
         params={'secret': T.bytes(), 'label': T.bytes(), 'seed': T.bytes(), 'length': T.int()},
         requires=lambda ns: ns.length >= 0, result=T.bytes(),
         ensures=lambda ns: is_phash(ns.result, 'sha384', ns.secret, S.cat(ns.label, ns.seed), ns.length),
         raises={}, prop=PROP, doc='TLS 1.2 PRF of the SHA-384 suites == P_SHA384(secret, label + seed)')


# ---------------------------------------------------------------------------
# PRF_SSL (SSLv3 key derivation, RFC 6101 section 6.1 / 6.2.2):
#   block j (j = 0..25) = MD5(secret + SHA('A'+j repeated j+1 times + secret + seed)),  output = block 0 + block 1 + ...

def prfssl_byte(secret, seed, p):
    p = _lift(p)
    j = p / 16
    salt = S.rep(65 + j, j + 1)                       # 'A', 'BB', 'CCC', ...
    blk = H('md5', S.cat(secret, H('sha1', S.cat(salt, secret, seed))))
    return blk[p % 16]


def is_prfssl(out, secret, seed, length):
    return S.And(S.len_(out) == length, S.is_bytes(out),
                 S.forall(lambda p: out[p] == prfssl_byte(secret, seed, p), 0, length))


def inv_prfssl_outer(ns):
    b = ns.local('bytes')
    return S.And(ns.index == 16 * ns.idx, ns.index <= ns.length, S.len_(b) == ns.length,
                 S.forall(lambda p: b[p] == prfssl_byte(ns.secret, ns.seed, p), 0, ns.index))


def inv_prfssl_inner(ns):
    b = ns.local('bytes')
    return S.And(ns.index == 16 * ns.x + ns.idx, ns.index <= ns.length, S.len_(b) == ns.length,
                 S.forall(lambda p: b[p] == prfssl_byte(ns.secret, ns.seed, p), 0, ns.index))


contract(M + 'PRF_SSL',
         params={'secret': T.bytes(), 'seed': T.bytes(), 'length': T.int()},
         requires=lambda ns: (ns.length >= 0) & (ns.length <= 416),
         result=T.bytes(),
         ensures=lambda ns: is_prfssl(ns.result, ns.secret, ns.seed, ns.length),
         raises={},
         loops={1: LoopSpec(inv_prfssl_outer, fingerprint='range(26)'),
                2: LoopSpec(inv_prfssl_inner, fingerprint='output')},
         prop=PROP,
         doc='PRF_SSL == first n bytes of MD5(secret+SHA1("A"+secret+seed)) + MD5(secret+SHA1("BB"+secret+seed)) + ... '
             'for every n <= 416 = 26*16 (the construction defines 26 blocks)')
REG.note(PROP, 'assumptions', 'PRF_SSL: requires 0 <= length <= 416 (26 blocks of 16 bytes exist in the RFC 6101 construction; for larger '
         'lengths the real function silently returns zero bytes after byte 416 -- no caller asks for more than 2*(20+32+16) = 136)')


# ---------------------------------------------------------------------------
# HKDF-Expand (RFC 5869 section 2.3):  N = ceil(L / HashLen), T(0) = empty, T(i) = HMAC(PRK, T(i-1) | info | i),
# OKM = first L octets of T(1) | T(2) | ... | T(N);  defined for L <= 255 * HashLen.

HKDF_ALGS = ('sha256', 'sha384')         # what _getPRFParams hands to the TLS 1.3 key schedule


def hkdf_byte(alg, prk, info, p, ds=None):
    k = HmacKey(algv(alg), prk.t)
    ds = hlen(alg) if ds is None else _lift(ds)
    p = _lift(p)
    return VInt(sat(hkT(k, info.t, (p / ds).t + 1), (p % ds).t))


def is_hkdf(out, alg, prk, info, L, ds=None):
    return S.And(S.len_(out) == L, S.is_bytes(out),
                 S.forall(lambda p: out[p] == hkdf_byte(alg, prk, info, p, ds), 0, L))


def inv_hkdf(ns):
    alg = ns.algorithm
    ds = ALGS[alg.s][0]
    k = HmacKey(algv(alg), ns.PRK.t)
    x = ns.idx
    return S.And(VBool(ns.Titer.t == hkT(k, ns.info.t, (x - 1).t)),
                 S.len_(ns.Titer) == S.ite(x == 1, 0, ds),
                 S.len_(ns.T) == ds * (x - 1),
                 S.forall(lambda p: ns.T[p] == hkdf_byte(alg, ns.PRK, ns.info, p, ds), 0, S.len_(ns.T)))


def _hkdf_params(a):
    return {'PRK': T.bytes(), 'info': T.bytes(), 'L': T.int(), 'algorithm': T.const(a)}


def _hkdf_ensures(ns):
    return is_hkdf(ns.result, ns.algorithm, ns.PRK, ns.info, ns.L, ALGS[ns.algorithm.s][0])


# (a) the RFC domain.  On the pinned tree one obligation stayed open: for 254*HashLen < L <= 255*HashLen the loop ran
#     to x == 256 and bytearray([256]) raised ValueError (finding F2, class 'hkdf-expand-max-length'); repaired by the
#     `fix:` commit 98e7690 in /repo, after which the whole RFC domain proves.
contract(C + 'HKDF_expand', name='HKDF_expand@rfc5869-domain',
         variants={a: _hkdf_params(a) for a in HKDF_ALGS},
         requires=lambda ns: (ns.L >= 0) & (ns.L <= 255 * ALGS[ns.algorithm.s][0]),
         result=T.bytes(), ensures=_hkdf_ensures, raises={},
         loops={1: LoopSpec(inv_hkdf, fingerprint='range(1, N+1)')},
         prop=PROP,
         doc='HKDF_expand == HKDF-Expand of RFC 5869 for every PRK, info and every 0 <= L <= 255*HashLen, raising nothing')

# (b) the part of the domain on which the pinned code is correct (everything TLS 1.3 asks for: L <= HashLen)
contract(C + 'HKDF_expand', name='HKDF_expand@L<=254*HashLen',
         variants={a: _hkdf_params(a) for a in HKDF_ALGS},
         requires=lambda ns: (ns.L >= 0) & (ns.L <= 254 * ALGS[ns.algorithm.s][0]),
         result=T.bytes(), ensures=_hkdf_ensures, raises={},
         loops={1: LoopSpec(inv_hkdf, fingerprint='range(1, N+1)')},
         prop=PROP,
         doc='HKDF_expand == HKDF-Expand of RFC 5869 for every PRK, info and every 0 <= L <= 254*HashLen')


# ---------------------------------------------------------------------------
# HKDF-Expand-Label / Derive-Secret (RFC 8446 section 7.1)
#   struct { uint16 length; opaque label<7..255> = "tls13 " + Label; opaque context<0..255> = Context; } HkdfLabel;
#   HKDF-Expand-Label(Secret, Label, Context, Length) = HKDF-Expand(Secret, HkdfLabel, Length)
#   Derive-Secret(Secret, Label, Messages) = HKDF-Expand-Label(Secret, Label, Transcript-Hash(Messages), Hash.length)

def hkdf_label(length, label, context):
    return S.cat(S.be(length, 2), S.byte(6 + S.len_(label)), bytes_(b'tls13 '), label,
                 S.byte(S.len_(context)), context)


def _label_too_long(ns):
    return (S.len_(ns.label) + 6 > 255)


contract(C + 'HKDF_expand_label',
         variants={a: {'secret': T.bytes(), 'label': T.bytes(), 'hashValue': T.bytes(), 'length': T.int(),
                       'algorithm': T.const(a)} for a in HKDF_ALGS},
         requires=lambda ns: (ns.length >= 0) & (ns.length <= 255 * ALGS[ns.algorithm.s][0]),
         result=T.bytes(),
         ensures=lambda ns: is_hkdf(ns.result, ns.algorithm, ns.secret, hkdf_label(ns.length, ns.label, ns.hashValue),
                                    ns.length, ALGS[ns.algorithm.s][0]),
         raises={ValueError: ('iff', lambda ns: _label_too_long(ns) | (S.len_(ns.hashValue) > 255))},
         loops={('HKDF_expand', 1): LoopSpec(inv_hkdf, fingerprint='range(1, N+1)')},
         opts={'skolemize': True},
         prop=PROP,
         doc='HKDF_expand_label == HKDF-Expand(secret, HkdfLabel(length, "tls13 "+label, context), length); ValueError exactly '
             'when label or context do not fit their one-byte length prefix')


def hh_obj(**extra):
    f = {'_handshakeMD5': T.hash('md5'), '_handshakeSHA': T.hash('sha1'), '_handshakeSHA224': T.hash('sha224'),
         '_handshakeSHA256': T.hash('sha256'), '_handshakeSHA384': T.hash('sha384'), '_handshakeSHA512': T.hash('sha512'),
         '_handshake_buffer': T.bytes()}
    f.update(extra)
    return T.obj(HH.HandshakeHashes, **f)


_HH_FIELD = {'md5': '_handshakeMD5', 'sha1': '_handshakeSHA', 'sha224': '_handshakeSHA224', 'sha256': '_handshakeSHA256',
             'sha384': '_handshakeSHA384', 'sha512': '_handshakeSHA512'}


def transcript_hash(ns, hh, alg):
    """Hash_alg(everything fed to the transcript object so far)"""
    return H(alg, ns.f(ns.f(hh, _HH_FIELD[alg]), 'fed'))


def _ds_ensures(ns):
    alg = ns.algorithm.s
    ds = ALGS[alg][0]
    if isinstance(ns.handshake_hashes, VNone):
        th = H(alg, S.empty())
    else:
        th = transcript_hash(ns, ns.handshake_hashes, alg)
    return is_hkdf(ns.result, alg, ns.secret, hkdf_label(ds, ns.label, th), ds, ds)


_ds_variants = {}
for _a in HKDF_ALGS:
    _ds_variants[_a + ',transcript'] = {'secret': T.bytes(), 'label': T.bytes(), 'handshake_hashes': hh_obj(),
                                        'algorithm': T.const(_a)}
    _ds_variants[_a + ',no-transcript'] = {'secret': T.bytes(), 'label': T.bytes(), 'handshake_hashes': T.none(),
                                           'algorithm': T.const(_a)}

contract(C + 'derive_secret', variants=_ds_variants,
         result=T.bytes(), ensures=_ds_ensures,
         raises={ValueError: ('iff', _label_too_long)},
         loops={('HKDF_expand', 1): LoopSpec(inv_hkdf, fingerprint='range(1, N+1)')},
         opts={'skolemize': True},
         prop=PROP,
         doc='derive_secret == HKDF-Expand-Label(secret, label, Transcript-Hash (of the empty string when no transcript is given), '
             'Hash.length)')


# ---------------------------------------------------------------------------
# HandshakeHashes (transcript hashes) and the SSLv3 Finished / CertificateVerify digest (RFC 6101 section 5.6.8/5.6.9):
#   md5_hash = MD5(master_secret + pad2 + MD5(handshake_messages + Sender + master_secret + pad1))      pad = 48 bytes
#   sha_hash = SHA(master_secret + pad2 + SHA(handshake_messages + Sender + master_secret + pad1))      pad = 40 bytes
#   pad1 = 0x36 ..., pad2 = 0x5c ...;  the digest is md5_hash + sha_hash

def ssl3_digest(alg, npad, transcript, master, sender):
    inner = H(alg, S.cat(transcript, sender, master, S.cat([0x36] * npad)))
    return H(alg, S.cat(master, S.cat([0x5c] * npad), inner))


def digest_ssl_spec(ns, hh, master, sender):
    return S.cat(ssl3_digest('md5', 48, ns.f(ns.f(hh, '_handshakeMD5'), 'fed'), master, sender),
                 ssl3_digest('sha1', 40, ns.f(ns.f(hh, '_handshakeSHA'), 'fed'), master, sender))


def hh_unchanged(ns, hh):
    return S.And(*[ns.f(ns.f(hh, f), 'fed') == ns.old.f(ns.old.f(hh, f), 'fed') for f in _HH_FIELD.values()])


contract(HHQ + 'HandshakeHashes.digestSSL',
         params={'self': hh_obj(), 'masterSecret': T.bytes(), 'label': T.bytes()},
         result=T.bytes(),
         ensures=lambda ns: S.And(ns.result == digest_ssl_spec(ns.old, ns.self, ns.masterSecret, ns.label),
                                  S.len_(ns.result) == 36, hh_unchanged(ns, ns.self)),
         raises={}, prop=PROP,
         doc='digestSSL == MD5(ms+pad2+MD5(transcript+sender+ms+pad1)) + SHA1(ms+pad2+SHA1(transcript+sender+ms+pad1)) with 48/40 '
             'pad bytes; the running transcript hashes are not disturbed')

contract(HHQ + 'HandshakeHashes.update',
         params={'self': hh_obj(), 'data': T.bytes()},
         ensures=lambda ns: S.And(*[ns.f(ns.f(ns.self, f), 'fed') == S.cat(ns.old.f(ns.old.f(ns.self, f), 'fed'), ns.data)
                                    for f in _HH_FIELD.values()]),
         raises={}, prop=PROP,
         doc='update feeds the same bytes to every running hash (md5, sha1, sha224, sha256, sha384, sha512)')


def _hh_digest_ensures(ns):
    name = ns.digest
    if isinstance(name, VNone):
        want = S.cat(transcript_hash(ns.old, ns.self, 'md5'), transcript_hash(ns.old, ns.self, 'sha1'))
    else:
        want = transcript_hash(ns.old, ns.self, name.s)
    return S.And(ns.result == want, hh_unchanged(ns, ns.self))


_hhd = {a: {'self': hh_obj(), 'digest': T.const(a)} for a in ALGS}
_hhd['default'] = {'self': hh_obj(), 'digest': T.none()}
contract(HHQ + 'HandshakeHashes.digest', variants=_hhd, result=T.bytes(), ensures=_hh_digest_ensures, raises={}, prop=PROP,
         doc='digest(name) == Hash_name(transcript); digest() == MD5(transcript) + SHA1(transcript)')


# ---------------------------------------------------------------------------
# SSLv3 MAC (RFC 6101 section 5.2.3.1):
#   hash(MAC_write_secret + pad_2 + hash(MAC_write_secret + pad_1 + data)),  pad_1 = 0x36 x 48 (MD5) / x 40 (SHA), pad_2 = 0x5c ...

def ssl3_mac(alg, key, data):
    n = 48 if alg == 'md5' else 40
    return H(alg, S.cat(key, S.rep(0x5c, n), H(alg, S.cat(key, S.rep(0x36, n), data))))


def mac_ssl_obj(alg=None):
    return T.obj(MT.MAC_SSL, ihash=T.hash(alg), ohash=T.hash(alg), digest_size=T.int(), block_size=T.int())


def _ms_state(ns, o):
    ih, oh = ns.f(o, 'ihash'), ns.f(o, 'ohash')
    return ih, oh, ns.f(ih, 'fed'), ns.f(oh, 'fed')


def _dm_alg(dm, default='sha1'):
    """hash named by a digestmod argument of a contract variant (None -> the function's default)"""
    if isinstance(dm, VNone):
        return default
    return _CTOR_ALG[id(dm.obj)]


def _create_ensures(ns, o=None):
    alg = _dm_alg(ns.digestmod)
    n = 48 if alg == 'md5' else 40
    o = ns.self if o is None else o
    ih, oh, ifed, ofed = _ms_state(ns, o)
    return S.And(ns.f(ih, 'alg') == alg, ns.f(oh, 'alg') == alg, ~(ih == oh),
                 ifed == S.cat(ns.k, S.rep(0x36, n)), ofed == S.cat(ns.k, S.rep(0x5c, n)),
                 ns.f(o, 'digest_size') == ALGS[alg][0], ns.f(o, 'block_size') == ALGS[alg][1])


_SSL_DM = {'md5': T.py(TLH.md5), 'sha1': T.py(TLH.sha1), 'default': T.none()}
contract(M + 'MAC_SSL.create',
         variants={vn: {'self': T.obj(MT.MAC_SSL), 'k': T.bytes(), 'digestmod': dm} for vn, dm in _SSL_DM.items()},
         ensures=_create_ensures, raises={}, prop=PROP,
         doc='create(k, digestmod): inner hash primed with k + 0x36*n, outer hash with k + 0x5c*n (n = 48 for MD5, 40 for SHA-1; '
             'SHA-1 when no digestmod is given), digest_size / block_size of the hash')

contract(M + 'MAC_SSL.update',
         params={'self': mac_ssl_obj(), 'm': T.bytes()},
         ensures=lambda ns: (lambda new, old: S.And(new[2] == S.cat(old[2], ns.m), new[3] == old[3]))(
             _ms_state(ns, ns.self), _ms_state(ns.old, ns.self)),
         raises={}, prop=PROP, doc='update appends to the inner hash only')


def _copy_ensures(ns):
    r = ns.result
    ih, oh, ifed, ofed = _ms_state(ns, r)
    sih, soh, sifed, sofed = _ms_state(ns, ns.self)
    oih, ooh, oifed, oofed = _ms_state(ns.old, ns.self)
    return S.And(~(r == ns.self), ~(ih == sih), ~(oh == soh), ~(ih == oh),        # fresh, unshared objects
                 ifed == oifed, ofed == oofed, sifed == oifed, sofed == oofed,
                 VBool(algv(ns.f(ih, 'alg')) == algv(ns.old.f(oih, 'alg'))),
                 VBool(algv(ns.f(oh, 'alg')) == algv(ns.old.f(ooh, 'alg'))),
                 ns.f(r, 'digest_size') == ns.old.f(ns.self, 'digest_size'),
                 ns.f(r, 'block_size') == ns.old.f(ns.self, 'block_size'))


contract(M + 'MAC_SSL.copy',
         params={'self': T.obj(MT.MAC_SSL, ihash=T.hash(), ohash=T.hash(), digest_size=T.int(), block_size=T.int(),
                               digestmod=T.opaque())},
         ensures=_copy_ensures, raises={}, prop=PROP,
         doc='copy() is a new object with forked inner/outer hashes in the same state; the original is unchanged')


def _digest_ensures(ns):
    ih, oh, ifed, ofed = _ms_state(ns, ns.self)
    oih, ooh, oifed, oofed = _ms_state(ns.old, ns.self)
    return S.And(ns.result == H(ns.old.f(ooh, 'alg'), S.cat(oofed, H(ns.old.f(oih, 'alg'), oifed))),
                 ifed == oifed, ofed == oofed)


contract(M + 'MAC_SSL.digest',
         params={'self': mac_ssl_obj()},
         result=T.bytes(), ensures=_digest_ensures, raises={}, prop=PROP,
         doc='digest() == Hash(outer-fed + Hash(inner-fed)) and leaves both running hashes untouched')

contract(M + 'createMAC_SSL',
         variants={vn: {'k': T.bytes(), 'digestmod': dm} for vn, dm in _SSL_DM.items()},
         ensures=lambda ns: _create_ensures(ns, ns.result), raises={}, prop=PROP,
         doc='createMAC_SSL(k, digestmod) returns a fresh SSLv3 MAC object keyed with k (state as after MAC_SSL.create)')

_HMAC_DM = {'md5': T.py(TLH.md5), 'sha1': T.py(TLH.sha1), 'sha256': T.py(TLH.sha256), 'sha384': T.py(TLH.sha384)}


def _createhmac_ensures(ns):
    alg = _dm_alg(ns.digestmod)
    r = ns.result
    return S.And(ns.f(r, 'key') == hkey(alg, ns.k), S.len_(ns.f(r, 'fed')) == 0,
                 ns.f(r, 'digest_size') == ALGS[alg][0], ns.f(r, 'block_size') == ALGS[alg][1])


contract(M + 'createHMAC',
         variants={vn: {'k': T.bytes(), 'digestmod': dm} for vn, dm in _HMAC_DM.items()},
         ensures=_createhmac_ensures, raises={}, prop=PROP,
         doc='createHMAC(k, H) returns an HMAC-H object keyed with k, nothing fed, digest_size/block_size of H '
             '(its digest() is HMAC-H(k, data fed) by the model of hmac.HMAC)')


# life cycle of the SSLv3 MAC object == the RFC 6101 MAC of everything fed
def _ssl_mac_lifecycle(alg, dm):
    def body(api):
        st = api.st
        k = api.make('k', T.bytes())
        a = api.make('a', T.bytes())
        b = api.make('b', T.bytes())
        for o in api.call(M + 'createMAC_SSL', [k, lift_py(dm)], st):
            assert o.kind == 'normal', o.kind
            mac = o.val
            for o2 in api.call(M + 'MAC_SSL.update', [mac, a], o.st):
                for o3 in api.call(M + 'MAC_SSL.copy', [mac], o2.st):
                    cp = o3.val
                    for o4 in api.call(M + 'MAC_SSL.update', [cp, b], o3.st):
                        for o5 in api.call(M + 'MAC_SSL.digest', [cp], o4.st):
                            for o6 in api.call(M + 'MAC_SSL.digest', [mac], o5.st):
                                assert o5.kind == 'normal' and o6.kind == 'normal'
                                api.oblige(o6.st, 'copy-digest==ssl3-mac(k, a+b)', o5.val == ssl3_mac(alg, k, S.cat(a, b)))
                                api.oblige(o6.st, 'original-digest==ssl3-mac(k, a)', o6.val == ssl3_mac(alg, k, a))
                                api.oblige(o6.st, 'digest-length', S.len_(o5.val) == ALGS[alg][0])
    return body


for _alg, _dm in (('md5', TLH.md5), ('sha1', TLH.sha1)):
    scenario('MAC_SSL-lifecycle[%s]' % _alg, PROP,
             doc='createMAC_SSL(k, %s); update(a); copy(); copy.update(b): copy.digest() == SSLv3-MAC(k, a+b) and the original '
                 'still digests to SSLv3-MAC(k, a) (RFC 6101 5.2.3.1)' % _alg)(_ssl_mac_lifecycle(_alg, _dm))


# ---------------------------------------------------------------------------
# calc_key: which function, which hash and which seed for (version, PRF hash of the suite, label)
#   SSLv3  (RFC 6101 5.6.9, 6.1, 6.2.2):  finished -> digestSSL(master, 'CLNT' / 'SRVR');  master secret -> PRF_SSL(pre, cr + sr);
#                                         key expansion -> PRF_SSL(master, sr + cr)
#   TLS 1.0/1.1 (RFC 2246 / 4346):        PRF = P_MD5 xor P_SHA1;  transcript hash = MD5 + SHA1
#   TLS 1.2 (RFC 5246 5, 7.4.9, 8.1, 6.3): PRF = P_SHA256, P_SHA384 for the suites that say so;  transcript hash = that hash
#   master secret:  PRF(pre, "master secret", client_random + server_random)
#   key expansion:  PRF(master, "key expansion", server_random + client_random)
#   finished:       PRF(master, "client finished" / "server finished", Hash(handshake_messages))
#   extended master secret (RFC 7627 4): PRF(pre, "extended master secret", session_hash)

L_CF, L_SF, L_KE, L_MS, L_EMS = (b'client finished', b'server finished', b'key expansion', b'master secret',
                                 b'extended master secret')


def is_lit(x, b):
    """x is the byte string b (length and elements); x may be a python bytes constant"""
    if isinstance(x, bytes):
        return VBool(z3.BoolVal(x == b))
    return S.And(S.len_(x) == len(b), *[x[i] == b[i] for i in range(len(b))])


def _in_suites(cs, suites):
    return S.Or(*[cs == s for s in suites])


def calc_key_allowed(version, label):
    four = S.Or(is_lit(label, L_CF), is_lit(label, L_SF), is_lit(label, L_KE), is_lit(label, L_MS))
    return S.Or(S.And(version == (3, 0), four),
                S.And(S.Or(version == (3, 1), version == (3, 2), version == (3, 3)), S.Or(four, is_lit(label, L_EMS))))


def calc_key_spec(ns, out, version, secret, cipher_suite, label, hh, cr, sr, n):
    """ns: state in which the transcript hashes of `hh` are read (entry state); label: VSeq or python bytes"""
    lbl = bytes_(label) if isinstance(label, bytes) else label
    th = lambda alg: transcript_hash(ns, hh, alg)
    if isinstance(label, bytes):
        # fixed label: only the rows of that label are stated (the other arguments may be absent)
        if label in (L_KE, L_MS):
            hh = None
        else:
            cr = sr = S.empty()
    if hh is None:
        th = lambda alg: S.empty()
    tls10 = S.Or(version == (3, 1), version == (3, 2))
    tls12 = version == (3, 3)
    s384 = _in_suites(cipher_suite, CipherSuite.sha384PrfSuites)
    fin = S.Or(is_lit(label, L_CF), is_lit(label, L_SF))
    ems = is_lit(label, L_EMS)
    ke, ms = is_lit(label, L_KE), is_lit(label, L_MS)
    cases = []
    # SSLv3
    if hh is not None:
        cases.append(S.implies(S.And(version == (3, 0), is_lit(label, L_CF)),
                               out == digest_ssl_spec(ns, hh, secret, bytes_(b'CLNT'))))
        cases.append(S.implies(S.And(version == (3, 0), is_lit(label, L_SF)),
                               out == digest_ssl_spec(ns, hh, secret, bytes_(b'SRVR'))))
    cases.append(S.implies(S.And(version == (3, 0), ke), is_prfssl(out, secret, S.cat(sr, cr), n)))
    cases.append(S.implies(S.And(version == (3, 0), ms), is_prfssl(out, secret, S.cat(cr, sr), n)))
    # TLS 1.0 / 1.1
    md5sha = S.cat(th('md5'), th('sha1'))
    cases.append(S.implies(S.And(tls10, S.Or(fin, ems)), is_prf10(out, secret, lbl, md5sha, n)))
    cases.append(S.implies(S.And(tls10, ke), is_prf10(out, secret, lbl, S.cat(sr, cr), n)))
    cases.append(S.implies(S.And(tls10, ms), is_prf10(out, secret, lbl, S.cat(cr, sr), n)))
    # TLS 1.2
    for alg, cond in (('sha384', s384), ('sha256', S.Not(s384))):
        c = S.And(tls12, cond)
        cases.append(S.implies(S.And(c, S.Or(fin, ems)), is_phash(out, alg, secret, S.cat(lbl, th(alg)), n)))
        cases.append(S.implies(S.And(c, ke), is_phash(out, alg, secret, S.cat(lbl, S.cat(sr, cr)), n)))
        cases.append(S.implies(S.And(c, ms), is_phash(out, alg, secret, S.cat(lbl, S.cat(cr, sr)), n)))
    return S.And(*cases)


VERSION = T.tuple(T.int(0, 255), T.int(0, 255))


def _ck_requires(ns):
    return S.And(ns.output_length >= 0, S.implies(ns.version == (3, 0), ns.output_length <= 416))


contract(M + 'calc_key',
         params={'version': VERSION, 'secret': T.bytes(), 'cipher_suite': T.int(), 'label': T.bytes(pytype='bytes'),
                 'handshake_hashes': hh_obj(), 'client_random': T.bytes(), 'server_random': T.bytes(),
                 'output_length': T.int()},
         requires=_ck_requires,
         result=T.bytes(),
         ensures=lambda ns: S.And(calc_key_spec(ns.old, ns.result, ns.version, ns.secret, ns.cipher_suite, ns.label,
                                                ns.handshake_hashes, ns.client_random, ns.server_random, ns.output_length),
                                  hh_unchanged(ns, ns.handshake_hashes)),
         raises={AssertionError: ('iff', lambda ns: S.Not(calc_key_allowed(ns.version, ns.label)))},
         modifies=[], prop=PROP,
         doc='calc_key picks function, hash and seed as the RFCs say for every version, suite, label, secret, randoms, transcript '
             'and output length; AssertionError exactly for (version, label) pairs outside the table')


# the deprecated helpers calc_key replaces: same table, fixed label / length
def _v_in(version, vs):
    return S.Or(*[version == v for v in vs])


contract(M + 'calcMasterSecret',
         params={'version': VERSION, 'cipherSuite': T.int(), 'premasterSecret': T.bytes(), 'clientRandom': T.bytes(),
                 'serverRandom': T.bytes()},
         result=T.bytes(),
         ensures=lambda ns: calc_key_spec(ns.old, ns.result, ns.version, ns.premasterSecret, ns.cipherSuite, L_MS, None,
                                          ns.clientRandom, ns.serverRandom, 48),
         raises={AssertionError: ('iff', lambda ns: S.Not(_v_in(ns.version, [(3, 0), (3, 1), (3, 2), (3, 3)])))},
         prop=PROP, doc='calcMasterSecret == 48 bytes of PRF_version(pre, "master secret", client_random + server_random)')

contract(M + 'calcExtendedMasterSecret',
         params={'version': VERSION, 'cipherSuite': T.int(), 'premasterSecret': T.bytes(), 'handshakeHashes': hh_obj()},
         result=T.bytes(),
         ensures=lambda ns: S.And(calc_key_spec(ns.old, ns.result, ns.version, ns.premasterSecret, ns.cipherSuite, L_EMS,
                                                ns.handshakeHashes, None, None, 48),
                                  hh_unchanged(ns, ns.handshakeHashes)),
         raises={AssertionError: ('iff', lambda ns: S.Not(_v_in(ns.version, [(3, 1), (3, 2), (3, 3)])))},
         prop=PROP, doc='calcExtendedMasterSecret == 48 bytes of PRF_version(pre, "extended master secret", session_hash) (RFC 7627)')


def _fin_ensures(ns):
    cl = calc_key_spec(ns.old, ns.result, ns.version, ns.masterSecret, ns.cipherSuite, L_CF, ns.handshakeHashes, None, None, 12)
    sv = calc_key_spec(ns.old, ns.result, ns.version, ns.masterSecret, ns.cipherSuite, L_SF, ns.handshakeHashes, None, None, 12)
    return S.And(S.implies(ns.isClient, cl), S.implies(S.Not(ns.isClient), sv), hh_unchanged(ns, ns.handshakeHashes))


contract(M + 'calcFinished',
         params={'version': VERSION, 'masterSecret': T.bytes(), 'cipherSuite': T.int(), 'handshakeHashes': hh_obj(),
                 'isClient': T.bool()},
         result=T.bytes(), ensures=_fin_ensures,
         raises={AssertionError: ('iff', lambda ns: S.Not(_v_in(ns.version, [(3, 0), (3, 1), (3, 2), (3, 3)])))},
         prop=PROP, doc='calcFinished == SSLv3 digest with CLNT/SRVR, or 12 bytes of PRF_version(master, "client|server finished", '
                        'transcript hash)')


# ---------------------------------------------------------------------------
# tlslite/utils/tlshmac.py: the fallback HMAC class (used when the interpreter's hmac refuses MD5, e.g. FIPS mode)
# against RFC 2104 section 2:   HMAC(K, text) = H((K0 xor opad) || H((K0 xor ipad) || text)),
#   K0 = K (or H(K) when K is longer than the block size B) padded with zero bytes to B; ipad = 0x36 x B, opad = 0x5c x B.
#
# On this interpreter hmac works with MD5, so the class statement sits in a dead `except` branch and there is no live
# class object.  The class is therefore built from the ClassDef node of the file on disk (same text, same line
# numbers) in a copy of the module's namespace, and its methods are verified from that AST like any other function.
import ast as _ast          # noqa: E402
import os as _os            # noqa: E402
import types as _types      # noqa: E402
from pyvc import source as _source          # noqa: E402
from pyvc import iters as _iters            # noqa: E402,F401  (comprehensions over sequences of symbolic length)

HMQ = 'tlslite/utils/tlshmac.py:'


def _load_fallback_hmac():
    path = _os.path.join(_source.REPO, 'tlslite/utils/tlshmac.py')
    tree = _source.module_ast(path)
    nodes = [n for n in _ast.walk(tree) if isinstance(n, _ast.ClassDef) and n.name == 'HMAC']
    if len(nodes) != 1:
        raise RuntimeError('tlshmac.py: expected exactly one fallback class HMAC, found %d' % len(nodes))
    cnode = nodes[0]
    mod = _types.ModuleType('tlslite.utils.tlshmac')
    mod.__dict__.update({k: v for k, v in TLHMAC.__dict__.items() if k not in ('HMAC', 'new')})
    mod.__package__ = TLHMAC.__package__
    code = compile(_ast.Module(body=[cnode], type_ignores=[]), path, 'exec')
    exec(code, mod.__dict__)
    cls = mod.__dict__['HMAC']
    for fn in cnode.body:
        if isinstance(fn, _ast.FunctionDef):
            qual = HMQ + 'HMAC.' + fn.name
            seg = _ast.get_source_segment(_source._SRC_CACHE[path], fn) or ''
            _source._FS_CACHE[qual] = _source.FuncSource(qual, fn, mod, path, cls, seg)
    return cls


FallbackHMAC = _load_fallback_hmac() if TLHMAC.HMAC is _py_hmac.HMAC else TLHMAC.HMAC


@builtins_model.model(object.__new__)
def _m_object_new(ex, args, kw, st, fr, node):
    c = args[0]
    if isinstance(c, VPy) and isinstance(c.obj, type) and len(args) == 1:
        return [Outcome('normal', st, st.alloc(c.obj))]
    raise Unsupported('object.__new__(%r)' % (args,))


def xor_(a, b):
    return VSeq(smt.s_xor(a.t, b.t), 'byte', 'bytearray')


def rfc2104_keys(alg, key):
    """[(condition, K0 xor ipad, K0 xor opad)] -- by cases on whether the key is hashed first"""
    B = ALGS[alg][1]
    out = []
    for cond, k in ((S.len_(key) > B, H(alg, key)), (S.len_(key) <= B, key)):
        k0 = S.cat(k, S.rep(0, B - S.len_(k)))
        out.append((cond, xor_(k0, S.rep(0x36, B)), xor_(k0, S.rep(0x5c, B))))
    return out


def is_rfc2104(out, alg, key, text):
    return S.And(*[S.implies(cond, out == H(alg, S.cat(ko, H(alg, S.cat(ki, text)))))
                   for cond, ki, ko in rfc2104_keys(alg, key)])


def fhmac_obj(alg=None):
    return T.obj(FallbackHMAC, key=T.bytes(), digestmod=T.hash(alg), block_size=T.int(), digest_size=T.int(),
                 _o_key=T.bytes(), _context=T.hash(alg))


def _fh_init_alg(ns):
    dm = ns.digestmod
    if isinstance(dm, VNone):
        return 'md5'
    if isinstance(dm, VStr):
        return dm.s
    if isinstance(dm, VPy):
        return _CTOR_ALG[id(dm.obj)]
    return ns.old.f(dm, 'alg').s


def _fh_init_requires(ns):
    dm = ns.digestmod
    if isinstance(dm, VObj):
        return S.len_(ns.f(dm, 'fed')) == 0           # a template hash object must be fresh
    return VBool(z3.BoolVal(True))


def _fh_init_ensures(ns):
    alg = _fh_init_alg(ns)
    ds, B = ALGS[alg]
    ctx = ns.f(ns.self, '_context')
    fed = ns.f(ctx, 'fed')
    text = S.empty() if isinstance(ns.msg, VNone) else ns.msg
    cases = []
    for cond, ki, ko in rfc2104_keys(alg, ns.key):
        cases.append(S.implies(cond, S.And(fed == S.cat(ki, text), ns.f(ns.self, '_o_key') == ko)))
    return S.And(ns.f(ctx, 'alg') == alg, ns.f(ns.f(ns.self, 'digestmod'), 'alg') == alg,
                 S.len_(ns.f(ns.f(ns.self, 'digestmod'), 'fed')) == 0, ~(ctx == ns.f(ns.self, 'digestmod')),
                 ns.f(ns.self, 'digest_size') == ds, ns.f(ns.self, 'block_size') == B, *cases)


_fh_variants = {}
for _vn, _dm in (('name', T.const('md5')), ('default', T.none()), ('constructor', T.py(TLH.sha256)),
                 ('constructor-md5', T.py(TLH.md5)), ('object', T.hash('sha1')), ('name-sha384', T.const('sha384'))):
    _fh_variants[_vn] = {'self': T.obj(FallbackHMAC), 'key': T.bytes(), 'msg': T.none(), 'digestmod': _dm}
    _fh_variants[_vn + ',msg'] = {'self': T.obj(FallbackHMAC), 'key': T.bytes(), 'msg': T.bytes(), 'digestmod': _dm}

contract(HMQ + 'HMAC.__init__', variants=_fh_variants,
         requires=_fh_init_requires, ensures=_fh_init_ensures, raises={}, prop=PROP,
         doc='fallback HMAC.__init__: inner context primed with (K0 xor ipad) [+ msg], outer key K0 xor opad, K0 = key or H(key) '
             'zero-padded to the block size (RFC 2104)')


def _fh_state(ns, o):
    ctx = ns.f(o, '_context')
    return ctx, ns.f(ctx, 'fed'), ns.f(o, '_o_key'), ns.f(o, 'digestmod')


contract(HMQ + 'HMAC.update', params={'self': fhmac_obj(), 'msg': T.bytes()},
         ensures=lambda ns: (lambda new, old: S.And(new[1] == S.cat(old[1], ns.msg), new[2] == old[2]))(
             _fh_state(ns, ns.self), _fh_state(ns.old, ns.self)),
         raises={}, prop=PROP, doc='fallback HMAC.update appends to the inner context only')


def _fh_digest_ensures(ns):
    ctx, fed, okey, dm = _fh_state(ns, ns.self)
    octx, ofed, ookey, odm = _fh_state(ns.old, ns.self)
    return S.And(ns.result == H(ns.old.f(odm, 'alg'), S.cat(ns.old.f(odm, 'fed'), ookey, H(ns.old.f(octx, 'alg'), ofed))),
                 fed == ofed, okey == ookey, ns.f(dm, 'fed') == ns.old.f(odm, 'fed'))


contract(HMQ + 'HMAC.digest', params={'self': fhmac_obj()}, result=T.bytes(), ensures=_fh_digest_ensures,
         raises={}, prop=PROP,
         doc='fallback HMAC.digest == H(template-state + outer key + H(inner context)); the object is left untouched')


def _fh_copy_ensures(ns):
    r = ns.result
    ctx, fed, okey, dm = _fh_state(ns, r)
    sctx, sfed, sokey, sdm = _fh_state(ns, ns.self)
    octx, ofed, ookey, odm = _fh_state(ns.old, ns.self)
    return S.And(~(r == ns.self), ~(ctx == sctx), fed == ofed, sfed == ofed, okey == ookey, sokey == ookey,
                 VBool(algv(ns.f(ctx, 'alg')) == algv(ns.old.f(octx, 'alg'))), dm == odm,
                 ns.f(r, 'digest_size') == ns.old.f(ns.self, 'digest_size'),
                 ns.f(r, 'block_size') == ns.old.f(ns.self, 'block_size'))


contract(HMQ + 'HMAC.copy', params={'self': fhmac_obj()}, ensures=_fh_copy_ensures, raises={}, prop=PROP,
         doc='fallback HMAC.copy: new object, forked inner context in the same state, same outer key; original unchanged')


def _fh_lifecycle(alg, with_msg):
    def body(api):
        st = api.st
        key = api.make('key', T.bytes())
        m0 = api.make('m0', T.bytes())
        a = api.make('a', T.bytes())
        b = api.make('b', T.bytes())
        obj = st.alloc(FallbackHMAC)
        args = [obj, key, m0 if with_msg else VNone(), VStr(alg)]
        for o in api.call(HMQ + 'HMAC.__init__', args, st):
            assert o.kind == 'normal', o.kind
            for o2 in api.call(HMQ + 'HMAC.update', [obj, a], o.st):
                for o3 in api.call(HMQ + 'HMAC.copy', [obj], o2.st):
                    cp = o3.val
                    for o4 in api.call(HMQ + 'HMAC.update', [cp, b], o3.st):
                        for o5 in api.call(HMQ + 'HMAC.digest', [cp], o4.st):
                            for o6 in api.call(HMQ + 'HMAC.digest', [obj], o5.st):
                                assert o5.kind == 'normal' and o6.kind == 'normal'
                                pre = S.cat(m0, a) if with_msg else a
                                api.oblige(o6.st, 'copy-digest==HMAC(key, [msg+]a+b)', is_rfc2104(o5.val, alg, key, S.cat(pre, b)))
                                api.oblige(o6.st, 'original-digest==HMAC(key, [msg+]a)', is_rfc2104(o6.val, alg, key, pre))
                                api.oblige(o6.st, 'digest-length', S.len_(o5.val) == ALGS[alg][0])
    return body


for _alg in ('md5', 'sha256', 'sha384'):
    for _wm in (False, True):
        scenario('fallback-HMAC-lifecycle[%s%s]' % (_alg, ',msg' if _wm else ''), PROP,
                 doc='HMAC(key, %sdigestmod=%s); update(a); c = copy(); c.update(b): c.digest() == RFC 2104 HMAC(key, ..a+b) and the '
                     'original still digests to HMAC(key, ..a), for keys shorter than, equal to and longer than the block size'
                     % ('msg, ' if _wm else '', _alg))(_fh_lifecycle(_alg, _wm))

contract(M + 'createHMAC', name='createHMAC[default]', params={'k': T.bytes()},
         ensures=_createhmac_ensures, raises={}, prop=PROP,
         doc='createHMAC(k) without digestmod is HMAC-SHA1')
REG.contracts[M + 'createHMAC'][-1].variant = 'default'       # verified like the other configurations, never applied modularly


# ---------------------------------------------------------------------------
# differential runs (bounded stand-ins / counterexample finders), notes

for _name, _fn in (('p_hash', M + 'P_hash'), ('prf_ssl', M + 'PRF_SSL'), ('hkdf_expand', C + 'HKDF_expand'),
                   ('hkdf_label', C + 'HKDF_expand_label'), ('calc_key', M + 'calc_key'), ('macs', M + 'MAC_SSL.digest')):
    REG.xchecks.append({'prop': PROP, 'module': 'specs.kdf', 'name': _name, 'function': _fn})

REG.note(PROP, 'assumptions', 'HKDF_expand is stated twice: on the RFC 5869 domain 0 <= L <= 255*HashLen (one obligation, '
         'no-ValueError at bytearray([x]), does NOT discharge on the pinned tree: finding F2 / class hkdf-expand-max-length, '
         'reproduced by specs.kdf:hkdf_expand) and on 0 <= L <= 254*HashLen where everything is proved; HKDF_expand_label and '
         'derive_secret are stated on the second domain (TLS 1.3 asks for at most HashLen bytes)')
REG.note(PROP, 'assumptions', 'calc_key / calcFinished / ...: all optional arguments present (transcript object, both randoms); '
         '0 <= output_length, <= 416 for SSLv3; transcript hash of algorithm X means Hash_X(bytes fed to the X member of HandshakeHashes)')
REG.note(PROP, 'assumptions', 'MAC_SSL.create / createMAC_SSL: digestmod is tlshashlib.md5, tlshashlib.sha1 or None (what '
         'recordlayer passes for SSLv3); digest_size is derived by identity comparison with tlshashlib.md5, so the plain hashlib.md5 '
         'constructor or any other hash would get digest_size 20 -- outside the stated domain')
REG.note(PROP, 'assumptions', 'fallback HMAC.__init__: a hash *object* passed as digestmod must be fresh (nothing fed); algorithms md5, '
         'sha1, sha256, sha384 (digest size <= block size)')
REG.note(PROP, 'trusted', 'the fallback class tlshmac.HMAC is dead code on this interpreter: it is compiled from its ClassDef node in '
         'the file on disk (same text and line numbers) inside a copy of the module namespace and verified from that AST')
REG.note(PROP, 'trusted', 'float arithmetic in PRF (len/2.0, math.ceil, math.floor) modelled as exact real arithmetic: exact for '
         'lengths below 2**53')
REG.note(PROP, 'trusted', 'list comprehension / generator over sequences of symbolic length (pyvc/iters.py): result defined element-wise; '
         'element-wise xor of two equal-length sequences identified with s_xor')
REG.note(PROP, 'trusted', 'comparison of a byte string with a bytes literal is decided by length and elements (pyvc/seqlit.py)')
REG.note(PROP, 'assumptions', 'RecordLayer.calcPendingStates key-block slicing is in contracts.recordlayer; calcTLS1_3PendingState / '
         '_calcTLS1_3KeyUpdate labels and secrets are in contracts.m2_tls13_states (not in contracts.kdf)')
REG.note(PROP, 'not_built', 'P_hash / PRF / HKDF are proved against uninterpreted HMAC and Hash: MD5/SHA-* themselves (hashlib, OpenSSL) '
         'and the stdlib hmac module are not verified; specs.kdf compares the real functions with hashlib-based references')
