"""C04/C03 O-ks-points: the TLS 1.3 secrets are derived at the transcript points both roles agree on.

RFC 8446 7.1 binds every traffic secret to a transcript prefix.  Both roles of this library derive
  c/s hs traffic  after ServerHello,   c/s ap traffic  after the server Finished,
  exp master      after the client's Certificate / CertificateVerify (if any) and before the client Finished,
  res master      after the client Finished,
always from the live transcript object self._handshake_hash.  The two endpoints only hold equal secrets if each role
derives each secret at the same point; the obligations below pin the points on each role by the handshake messages
processed so far (ghost counters advanced at every _getMsg / _sendMsg / _queue_message site)."""
import ast

import z3

from pyvc.m2 import M2Spec, m2task, fresh_opaque
from pyvc.executor import Outcome
from pyvc.values import VBool, VInt, VOpaque, VNone, truthy, to_val, v_truthy
from pyvc import smt
from pyvc.contract import REG
from tlslite.constants import HandshakeType
from contracts.m2_common import TC, h_sendError


def _label_of(node):
    """the literal label of a derive_secret(secret, bytearray(b'...'), transcript, prf) call"""
    if len(node.args) >= 2:
        a = node.args[1]
        if isinstance(a, ast.Call) and a.args and isinstance(a.args[0], ast.Constant) and isinstance(a.args[0].value, bytes):
            return a.args[0].value.decode()
        if isinstance(a, ast.Constant) and isinstance(a.value, bytes):
            return a.value.decode()
    return None


def _types_of(ex, node, st, fr):
    """the secondaryType argument of a _getMsg call as a set of ints (None if not constant)"""
    if len(node.args) < 2:
        return None
    outs = ex.eval(node.args[1], st.fork(), fr)
    if not outs or outs[0].kind != 'normal':
        return None
    v = outs[0].val
    from pyvc.values import VTuple
    vals = v.items if isinstance(v, VTuple) else [v]
    res = set()
    for x in vals:
        c = x.concrete() if isinstance(x, VInt) else None
        if c is None:
            # a value merged from several branches (e.g. `expected_msg`): every integer literal it can take
            res = set()
            seen = set()
            todo = [to_val(v)] if not isinstance(v, VTuple) else [to_val(i) for i in v.items]
            while todo:
                t = todo.pop()
                if t.get_id() in seen:
                    continue
                seen.add(t.get_id())
                if z3.is_int_value(t):
                    res.add(t.as_long())
                todo.extend(t.children())
            return res or None
        res.add(c)
    return res


def _epoch(st):
    v = st.ghost.get('epoch')
    return v.t if v is not None else z3.IntVal(0)


def _tick(st):
    """a handshake message was read or written: the running transcript moved on"""
    st.ghost['epoch'] = VInt(_epoch(st) + 1)


SNAP = z3.Function('ghost_snapshot_epoch', smt.Val, z3.IntSort())


def _mk_spec(role):
    def h_copy(ex, recv, args, kwargs, st, fr, node):
        """<hash object>.copy(): a snapshot; the ghost function SNAP remembers at which point of the transcript"""
        r = fresh_opaque('hh_snapshot')
        src_ = ast.unparse(node.func.value) if isinstance(node.func, ast.Attribute) else ''
        if src_ == 'self._handshake_hash':
            st.assume(SNAP(r.t) == _epoch(st))
        return [Outcome('normal', st, r)]

    def h_getMsg(ex, recv, args, kwargs, st, fr, node):
        _tick(st)
        r = fresh_opaque('msg')
        st.events.append(('_getMsg', args, r))
        ts = _types_of(ex, node, st, fr)
        g = st.ghost
        if ts is not None:
            if ts & {HandshakeType.certificate, HandshakeType.compressed_certificate} and role == 'server':
                g['got_peer_certificate'] = VBool(z3.BoolVal(True))
            if HandshakeType.certificate_verify in ts and role == 'server':
                g['got_peer_cv'] = VBool(z3.BoolVal(True))
            if ts == {HandshakeType.finished}:
                g['got_peer_finished'] = VBool(z3.BoolVal(True))
        return [Outcome('normal', st, r)]

    def h_send(ex, recv, args, kwargs, st, fr, node):
        _tick(st)
        r = fresh_opaque('sent')
        st.events.append(('send', args, r))
        g = st.ghost
        src = ast.unparse(node.args[0]) if node.args else ''
        if role == 'client':
            if 'certificate_verify' in src or src == 'certificate_verify':
                g['sent_own_cv'] = VBool(z3.BoolVal(True))
            elif 'client_certificate' in src or src in ('certificate', 'client_certificate'):
                g['sent_own_certificate'] = VBool(z3.BoolVal(True))
            elif 'cl_finished' in src or 'finished' in src.lower():
                g['sent_own_finished'] = VBool(z3.BoolVal(True))
        else:
            if 'finished' in src.lower():
                g['sent_own_finished'] = VBool(z3.BoolVal(True))
        return [Outcome('normal', st, r)]

    def h_sendmsgs(ex, recv, args, kwargs, st, fr, node):
        # the client's last flight: [client Finished] (built just before as cl_finished / msgs)
        _tick(st)
        r = fresh_opaque('sent_flight')
        st.events.append(('send', args, r))
        st.ghost['sent_own_finished'] = VBool(z3.BoolVal(True))
        return [Outcome('normal', st, r)]

    def h_derive(ex, recv, args, kwargs, st, fr, node):
        lab = _label_of(node)
        r = fresh_opaque('secret_' + (lab or 'x').replace(' ', '_'))
        st.events.append(('derive_secret', args, r))
        g = st.ghost
        F = VBool(z3.BoolVal(False))
        self_ = st.env['self']
        live = ex.getattr_(self_, '_handshake_hash', st, fr)[0].val
        hh = args[2] if len(args) > 2 else None

        def ob(name, goal):
            ex.oblige(st, 'ks[%s]:%s' % (lab, name), goal, kind='m2')
        if lab in ('c hs traffic', 's hs traffic', 'c ap traffic', 's ap traffic', 'exp master', 'res master'):
            ob('transcript-argument-is-the-live-handshake-hash-or-a-snapshot-taken-at-the-same-point',
               z3.BoolVal(hh is not None) if hh is None else z3.Or(to_val(hh) == to_val(live),
                                                                    SNAP(to_val(hh)) == _epoch(st)))
        if role == 'server':
            if lab in ('c ap traffic', 's ap traffic'):
                ob('after-own-Finished-was-sent', truthy(g.get('sent_own_finished', F)))
                ob('before-any-client-authentication-message', z3.And(z3.Not(truthy(g.get('got_peer_certificate', F))),
                                                                      z3.Not(truthy(g.get('got_peer_finished', F)))))
            if lab == 'exp master':
                # the client derives it after SENDING its Certificate [CertificateVerify]: the server must have READ them
                req = st.env.get('reqCert')
                psk = st.env.get('selected_psk')
                asked = z3.And(truthy(req), to_val(psk) == to_val(VNone())) if (req is not None and psk is not None) else z3.BoolVal(True)
                ob('after-the-client-Certificate-was-read-when-one-was-requested',
                   z3.Implies(asked, truthy(g.get('got_peer_certificate', F))))
                ob('before-the-client-Finished', z3.Not(truthy(g.get('got_peer_finished', F))))
            if lab == 'res master':
                ob('after-the-client-Finished', truthy(g.get('got_peer_finished', F)))
        else:
            if lab in ('c ap traffic', 's ap traffic'):
                ob('after-the-server-Finished-was-read', truthy(g.get('got_peer_finished', F)))
                ob('before-own-authentication-messages', z3.And(z3.Not(truthy(g.get('sent_own_certificate', F))),
                                                                z3.Not(truthy(g.get('sent_own_finished', F)))))
            if lab == 'exp master':
                ob('before-own-Finished', z3.Not(truthy(g.get('sent_own_finished', F))))
                cr = st.env.get('certificate_request')
                ob('after-own-Certificate-was-sent-when-one-was-requested',
                   z3.BoolVal(True) if cr is None else z3.Implies(truthy(cr), truthy(g.get('sent_own_certificate', F))))
            if lab == 'res master':
                ob('after-own-Finished', truthy(g.get('sent_own_finished', F)))
        g['derived:' + str(lab)] = VBool(z3.BoolVal(True))
        return [Outcome('normal', st, r)]

    return M2Spec(hooks={'_sendError': h_sendError, 'copy': h_copy, '_getMsg': h_getMsg, '_sendMsg': h_send, '_queue_message': h_send, '_sendMsgs': h_sendmsgs,
                         'derive_secret': h_derive},
                  pure={'getExtension', 'digest', 'isinstance', 'len', 'HKDF_expand_label', 'secureHMAC', 'toRepr',
                        'getHash', 'getPadding', 'decode', '_getPRFParams'})


def _check(labels):
    def check(api):
        ns = api.normal_exits()
        api.oblige(api.entry, 'has-normal-exit', len(ns) >= 1)
        for o in ns:
            for lab in labels:
                api.oblige(o.st, 'completion:secret[%s]-was-derived' % lab,
                           truthy(o.st.ghost.get('derived:' + lab, VBool(z3.BoolVal(False)))))
    return check


_LABELS = ('c hs traffic', 's hs traffic', 'c ap traffic', 's ap traffic', 'exp master', 'res master')
m2task('_serverTLS13Handshake/key-schedule-points', ('C04', 'C03'), TC + '_serverTLS13Handshake', _mk_spec('server'),
       check=_check(_LABELS), opts={'ground_feasible': True},
       doc='TLS 1.3 server: each secret is derived from the live transcript at the point the client derives it: application '
           'traffic secrets after the server Finished and before client authentication; exporter master secret after the '
           'client Certificate (when requested) and before the client Finished; resumption master secret after the client Finished')
m2task('_clientTLS13Handshake/key-schedule-points', ('C04', 'C03'), TC + '_clientTLS13Handshake', _mk_spec('client'),
       check=_check(_LABELS), opts={'ground_feasible': True},
       doc='TLS 1.3 client: the mirror points (application traffic secrets after reading the server Finished, exporter master '
           'secret after sending its own Certificate when requested and before its own Finished, resumption master secret after)')
REG.note('C04', 'assumptions', 'key-schedule points: exporter master secret is derived by BOTH roles after the client Certificate/'
                               'CertificateVerify; RFC 8446 7.1 specifies ClientHello..server Finished, so with client authentication '
                               'the value differs from other implementations (observation; the two tlslite-ng roles agree)')
