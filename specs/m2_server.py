"""Executable reference + live reproductions for the server-side M2 tasks (contracts/m2_server.py).

Runs under /venv/bin/python against the real tlslite from $VERIF_REPO: a real TLSConnection server on one end of
a socketpair, a hand-built ClientHello (or a real tlslite client) on the other.  The reference is the property
text: C08 "a handshake call either succeeds or raises one of the library's documented exception types";
C03 "every negotiated parameter (version ...) lies inside what each side's own HandshakeSettings allow";
C04 "downgrade sentinel enforced" (RFC 8446 4.1.3: every ServerHello of a TLS 1.3 capable server that negotiates
TLS 1.2 or below).  Bounded stand-in / counterexample replayer only: never counted as proved.
"""
import os
import socket
import threading

from tlslite.api import TLSConnection, HandshakeSettings, SessionCache
from tlslite.constants import CipherSuite, ContentType, GroupName, SignatureScheme
from tlslite.errors import TLSError
from tlslite.extensions import (SNIExtension, SupportedVersionsExtension, PskKeyExchangeModesExtension,
                                PreSharedKeyExtension, PskIdentity, SignatureAlgorithmsExtension,
                                SupportedGroupsExtension, ECPointFormatsExtension, ClientKeyShareExtension,
                                KeyShareEntry)
from tlslite.messages import ClientHello, RecordHeader3
from tlslite.utils.cryptomath import getRandomBytes
from tlslite.utils.keyfactory import parsePEMKey
from tlslite.x509 import X509
from tlslite.x509certchain import X509CertChain

REPO = os.environ.get('VERIF_REPO', '/repo')
DOCUMENTED = (TLSError, socket.error)            # TLSError covers alerts, abrupt close, authentication errors


def creds(name='serverX509'):
    c = X509()
    c.parse(open(os.path.join(REPO, 'tests', '%sCert.pem' % name)).read())
    k = parsePEMKey(open(os.path.join(REPO, 'tests', '%sKey.pem' % name)).read(), private=True)
    return X509CertChain([c]), k


def raw_server(client_hello, settings=None, with_cert=True):
    """one server handshake against a single raw ClientHello record -> ('completed'|exception class name, text)"""
    chain, key = creds()
    a, b = socket.socketpair()
    res = {}

    def srv():
        c = TLSConnection(b)
        try:
            if with_cert:
                c.handshakeServer(certChain=chain, privateKey=key, settings=settings)
            else:
                c.handshakeServer(settings=settings)
            res['r'] = ('completed', '', True)
        except BaseException as e:          # noqa: the point is to see *what* leaves
            res['r'] = (type(e).__name__, str(e)[:120], isinstance(e, DOCUMENTED))
    t = threading.Thread(target=srv)
    t.start()
    data = client_hello.write()
    a.sendall(RecordHeader3().create((3, 1), ContentType.handshake, len(data)).write() + data)
    t.join(3)
    a.close()
    t.join(5)
    b.close()
    return res.get('r', ('hang', 'server thread did not finish', False))


def live(client_fn, server_fn):
    a, b = socket.socketpair()
    res = {}

    def srv():
        try:
            res['s'] = server_fn(TLSConnection(b))
        except BaseException as e:
            res['s'] = ('exception', type(e).__name__, str(e)[:100])
    t = threading.Thread(target=srv)
    t.start()
    try:
        res['c'] = client_fn(TLSConnection(a))
    except BaseException as e:
        res['c'] = ('exception', type(e).__name__, str(e)[:100])
    t.join(10)
    a.close()
    b.close()
    return res


# --------------------------------------------------------------------------------------------------
# C08: hand-built ClientHellos

def ch_tls12(exts=None, version=(3, 3)):
    return ClientHello().create(version, getRandomBytes(32), bytearray(0),
                                [CipherSuite.TLS_RSA_WITH_AES_128_CBC_SHA,
                                 CipherSuite.TLS_ECDHE_RSA_WITH_AES_128_GCM_SHA256],
                                extensions=exts)


def ch_tls13(exts):
    return ClientHello().create((3, 3), getRandomBytes(32), bytearray(0),
                                [CipherSuite.TLS_AES_128_GCM_SHA256], extensions=exts)


def _psk(identity=b'x' * 40, binder=None):
    return PreSharedKeyExtension().create([PskIdentity().create(bytearray(identity), 0)],
                                          [bytearray(32) if binder is None else binder])


def clienthello_cases():
    sig = SignatureAlgorithmsExtension().create([SignatureScheme.rsa_pss_rsae_sha256,
                                                 SignatureScheme.rsa_pkcs1_sha256])
    groups = SupportedGroupsExtension().create([GroupName.secp256r1])
    v13 = SupportedVersionsExtension().create([(3, 4)])
    cases = []
    cases.append(('wellformed-tls12-hello', None, ch_tls12([sig, groups, ECPointFormatsExtension().create([0])])))
    cases.append(('psk-empty-identity', 'alert-name-decoder_error',
                  ch_tls13([v13, PskKeyExchangeModesExtension().create([0]), _psk(identity=b'')])))
    cases.append(('psk-empty-binder', 'alert-name-decoder_error',
                  ch_tls13([v13, PskKeyExchangeModesExtension().create([0]), _psk(binder=bytearray(0))])))
    cases.append(('sni-without-host_name-entry', 'sni-no-hostname-indexerror',
                  ch_tls12([SNIExtension().create(serverNames=[SNIExtension.ServerName(1, bytearray(b'x'))])])))
    ks = ClientKeyShareExtension().create([KeyShareEntry().create(0x7777, bytearray(b'\x01' * 32))])
    cases.append(('psk_ke-only+key_share(unknown group)+no-supported_groups', 'psk_ke-keyshare-without-supported_groups',
                  ch_tls13([v13, PskKeyExchangeModesExtension().create([0]), sig, ks, _psk()])))
    return cases


def xc_server_clienthello(rng, n):
    fails, ev = [], 0
    for (label, cls, ch) in clienthello_cases():
        ev += 1
        name, text, documented = raw_server(ch)
        if not documented:
            fails.append({'class': cls or 'server-undocumented-exception', 'what': '%s: handshakeServer raised %s: %s'
                          % (label, name, text), 'input': {'case': label, 'client_hello_hex': bytes(ch.write()).hex()}})
    # configuration accepted by _handshakeServerAsyncHelper (virtual hosts only) must not die on an assert
    from tlslite.handshakesettings import VirtualHost, Keypair
    chain, key = creds()
    s = HandshakeSettings()
    vh = VirtualHost()
    vh.keys = [Keypair(key, chain.x509List)]
    vh.hostnames = set([b'example.com'])
    s.virtual_hosts = [vh]
    ev += 1
    name, text, documented = raw_server(ch_tls12(), settings=s, with_cert=False)
    if not documented:
        fails.append({'class': 'virtual-hosts-only-assertionerror',
                      'what': 'server with settings.virtual_hosts only: handshakeServer raised %s %s' % (name, text),
                      'input': {'case': 'virtual_hosts-only'}})
    return {'evaluations': ev, 'distinct_nontrivial': ev, 'bound': 'fixed battery of hand-built ClientHellos',
            'rule': 'C08: only TLSError subclasses / socket.error may leave handshakeServer', 'failures': fails}


def xc_server_tls13_unbound(rng, n):
    sig = SignatureAlgorithmsExtension().create([SignatureScheme.rsa_pss_rsae_sha256])
    v13 = SupportedVersionsExtension().create([(3, 4)])
    ch = ch_tls13([v13, PskKeyExchangeModesExtension().create([0]), sig, _psk()])
    name, text, documented = raw_server(ch)
    fails = []
    if not documented:
        fails.append({'class': 'tls13-unbound-selected_group',
                      'what': 'psk_ke-only ClientHello, unknown identity, no key_share: handshakeServer raised %s: %s'
                              % (name, text), 'input': {'client_hello_hex': bytes(ch.write()).hex()}})
    return {'evaluations': 1, 'distinct_nontrivial': 1, 'bound': 'one hand-built ClientHello',
            'rule': 'C08: only TLSError subclasses / socket.error may leave handshakeServer', 'failures': fails}


# --------------------------------------------------------------------------------------------------
# C03: negotiated version inside the server's settings

def xc_server_version_floor(rng, n):
    chain, key = creds()
    fails, ev = [], 0
    orig_write = ClientHello.write
    for legacy in ((3, 4), (3, 5)):
        def patched(self, legacy=legacy):
            if self.client_version == (3, 3):
                self.client_version = legacy           # legacy_version above TLS 1.2, no supported_versions
                try:
                    return orig_write(self)
                finally:
                    self.client_version = (3, 3)
            return orig_write(self)
        ClientHello.write = patched
        try:
            ss = HandshakeSettings()
            ss.minVersion = (3, 4)
            ss.maxVersion = (3, 4)
            cs = HandshakeSettings()
            cs.minVersion = (3, 3)
            cs.maxVersion = (3, 3)

            def cl(c):
                c.handshakeClientCert(settings=cs)
                return ('completed', c.version)

            def sv(c):
                c.handshakeServer(certChain=chain, privateKey=key, settings=ss)
                return ('completed', c.version)
            r = live(cl, sv)
        finally:
            ClientHello.write = orig_write
        ev += 1
        s = r.get('s')
        if s and s[0] == 'completed' and not (ss.minVersion <= s[1] <= ss.maxVersion):
            fails.append({'class': 'server-version-below-minVersion',
                          'what': 'server with minVersion=maxVersion=(3,4) completed a handshake at %r for a '
                                  'ClientHello with legacy version %r and no supported_versions' % (s[1], legacy),
                          'input': {'client_legacy_version': list(legacy), 'server_minVersion': [3, 4]}})
    return {'evaluations': ev, 'distinct_nontrivial': ev, 'bound': 'two live handshakes',
            'rule': 'C03: completed version within [minVersion, maxVersion] of the server settings', 'failures': fails}


# --------------------------------------------------------------------------------------------------
# C04: downgrade sentinel on the abbreviated handshake

def xc_server_resumed_sentinel(rng, n):
    from tlslite import tlsconnection
    chain, key = creds()
    cache = SessionCache()
    ss = HandshakeSettings()
    ss.maxVersion = (3, 4)
    cs = HandshakeSettings()
    cs.maxVersion = (3, 3)
    seen = []
    orig = tlsconnection.TLSConnection._clientGetServerHello

    def spy(self, settings, session, clientHello):
        for r in orig(self, settings, session, clientHello):
            if hasattr(r, 'random') and hasattr(r, 'cipher_suite'):
                seen.append(bytes(r.random[-8:]))
            yield r
    tlsconnection.TLSConnection._clientGetServerHello = spy
    sess = [None]
    try:
        def cl(c):
            c.handshakeClientCert(settings=cs, session=sess[0])
            sess[0] = c.session
            return ('completed', c.version, c.resumed)

        def sv(c):
            c.handshakeServer(certChain=chain, privateKey=key, settings=ss, sessionCache=cache)
            return ('completed', c.version, c.resumed)
        r1 = live(cl, sv)
        r2 = live(cl, sv)
    finally:
        tlsconnection.TLSConnection._clientGetServerHello = orig
    fails = []
    resumed = r2.get('s') and r2['s'][0] == 'completed' and r2['s'][2]
    if resumed and len(seen) >= 2 and seen[1] != b'DOWNGRD\x01':
        fails.append({'class': 'resumed-serverhello-no-downgrade-sentinel',
                      'what': 'TLS 1.3 capable server resumed a TLS 1.2 session: ServerHello.random[-8:] = %r '
                              '(full handshake before: %r)' % (seen[1], seen[0]),
                      'input': {'server_maxVersion': [3, 4], 'client_maxVersion': [3, 3], 'resumption': 'session id'}})
    return {'evaluations': 2, 'distinct_nontrivial': 2, 'bound': 'one full + one abbreviated live handshake',
            'rule': 'RFC 8446 4.1.3 sentinel in every ServerHello negotiating TLS 1.2 from a TLS 1.3 server',
            'failures': fails}


XCHECKS = {'server_clienthello': xc_server_clienthello, 'server_tls13_unbound': xc_server_tls13_unbound,
           'server_version_floor': xc_server_version_floor, 'server_resumed_sentinel': xc_server_resumed_sentinel}
