"""Bounded stand-in for C10 on ECDHKeyExchange.calc_shared_key (NIST curves): with the DEFAULT point formats (the TLS 1.3 callers
rely on the default) only the uncompressed SEC 1 encoding 04 || X || Y of an on-curve point is accepted; raw X||Y (wrong length),
compressed (02/03), hybrid (06/07), off-curve and the point at infinity are refused with TLSIllegalParameterException; both
parties of an honest exchange derive the same secret of the curve's coordinate length."""
import ecdsa

from tlslite.keyexchange import ECDHKeyExchange
from tlslite.constants import GroupName
from tlslite.errors import TLSIllegalParameterException

CURVES = [(GroupName.secp256r1, ecdsa.NIST256p), (GroupName.secp384r1, ecdsa.NIST384p), (GroupName.secp521r1, ecdsa.NIST521p)]


def xcheck_points(rng, n):
    fails, ev = [], 0
    for gid, curve in CURVES:
        for ver in ((3, 3), (3, 4)):
            kex = ECDHKeyExchange(gid, ver)
            a = kex.get_random_private_key()
            b = kex.get_random_private_key()
            ya, yb = kex.calc_public_value(a), kex.calc_public_value(b)
            sa, sb = kex.calc_shared_key(a, yb), kex.calc_shared_key(b, ya)
            ev += 1
            if bytes(sa) != bytes(sb) or len(sa) != curve.baselen:
                fails.append({'class': 'ecdh-secrets-differ', 'what': '%s: %d vs %d bytes' % (curve.name, len(sa), len(sb)), 'input': {'curve': curve.name}})
            pt = ecdsa.VerifyingKey.from_string(bytes(yb)[1:], curve=curve)
            x, y = pt.pubkey.point.x(), pt.pubkey.point.y()
            L = curve.baselen
            X, Y = x.to_bytes(L, 'big'), y.to_bytes(L, 'big')
            bad = {'raw': X + Y, 'compressed': bytes([2 + (y & 1)]) + X, 'hybrid': bytes([6 + (y & 1)]) + X + Y,
                   'off-curve': b'\x04' + X + ((y + 1) % curve.curve.p()).to_bytes(L, 'big'), 'infinity': b'\x00',
                   'truncated': b'\x04' + X + Y[:-1], 'extended': b'\x04' + X + Y + b'\x00'}
            for name, enc in sorted(bad.items()):
                ev += 1
                try:
                    kex.calc_shared_key(a, bytearray(enc))
                    fails.append({'class': 'ecdh-accepts-%s-point' % name, 'what': '%s (%s): %s encoding of the peer share accepted with the default point formats'
                                  % (curve.name, ver, name), 'input': {'curve': curve.name, 'encoding': name}})
                except TLSIllegalParameterException:
                    pass
                except Exception as e:
                    fails.append({'class': 'ecdh-undocumented-exception', 'what': '%s: %s -> %s' % (curve.name, name, type(e).__name__), 'input': {}})
    return {'evaluations': ev, 'distinct_nontrivial': ev, 'bound': '3 NIST curves x 2 versions x 7 malformed encodings of a valid share', 'failures': fails[:6]}


XCHECKS = {'ecdh_point_encodings': xcheck_points}
