"""Contracts on the simple message classes of tlslite/messages.py that are built only from the codec
primitives (contracts/codec.py): write produces exactly the RFC layout and raises ValueError when a field
does not fit; parse consumes exactly the declared length, returns the fields at the old index and raises
only DecodeError; round trips as scenarios.  C15 (framing) and C08 (clean failure).

Layouts (RFC 5246 6.2.1 / 7.2 / 7.1 / 7.4, RFC 8446 4.4.3 / 4.4.4 / 4.6.3, RFC 6520 4, NPN draft):
  TLSPlaintext header   type(1) version(2) length(2)
  Alert                 level(1) description(1)
  ChangeCipherSpec      type(1)
  Handshake             msg_type(1) length(3) body
  Finished              verify_data: 36 (SSLv3) / 12 (TLS1.0-1.2) / Hash.length (TLS1.3) bytes
  CertificateVerify     [SignatureAndHashAlgorithm(2) from TLS1.2 on] signature<0..2^16-1>
  KeyUpdate             request_update(1)
  HeartbeatMessage      type(1) payload_length(2) payload padding
  NextProtocol          selected_protocol<0..255> padding<0..255>
"""
import z3

import tlslite.messages as MSG
import tlslite.utils.codec as codec
from tlslite.utils.codec import DecodeError

from pyvc.contract import contract, scenario, LoopSpec, REG
from pyvc.state import T
from pyvc import spec as S
from pyvc import smt
from pyvc.values import VInt, VBool, VSeq, VNone, VObj, _lift

from contracts.codec import (C, PROP, WRITER, PARSER, only_modifies, at, header_is, fits, div, _normal, _must_raise,
                             _parser_at, p_inv_of, sval_frame)

M = 'tlslite/messages.py:'


def _P(ns):
    """the Parser argument (named `p` or `parser` in messages.py)"""
    return ns.p if ns.has('p') else ns.parser


def pidx(ns):
    return ns.f(_P(ns), 'index')


def pbytes(ns):
    return ns.f(_P(ns), 'bytes')


def remaining(ns):
    return S.len_(pbytes(ns)) - pidx(ns)


def p_ok(ns):
    return p_inv_of(ns, _P(ns))


def rd(ns_old, off, n=1):
    """big-endian value of the n bytes at entry index + off"""
    b, i = pbytes(ns_old), pidx(ns_old)
    if n == 1:
        return at(b, i + off)
    return VInt(smt.s_val(smt.s_slice(b.t, (i + off).t, (i + off + n).t)))


def body_at(ns_old, off, n):
    b, i = pbytes(ns_old), pidx(ns_old)
    return VSeq(smt.s_slice(b.t, (i + off).t, (i + off + n).t), 'byte', 'bytearray')


def p_consumed(ns, n, fields):
    """parser advanced by exactly n, still inside the buffer; only the listed fields of self, and the parser's
    index / length-check marks, were modified"""
    allowed = [(ns.self, f) for f in fields] + [(_P(ns), 'index'), (_P(ns), 'lengthCheck'), (_P(ns), 'indexCheck')]
    return S.And(pidx(ns) == pidx(ns.old) + n, p_ok(ns), only_modifies(ns, *allowed))


def p_mono_exc(fields):
    def f(ns):
        allowed = [(ns.self, f) for f in fields] + [(_P(ns), 'index'), (_P(ns), 'lengthCheck'), (_P(ns), 'indexCheck')]
        return S.And(pidx(ns) >= pidx(ns.old), p_ok(ns), only_modifies(ns, *allowed))
    return f


PMOD = [('p', 'index'), ('p', 'lengthCheck'), ('p', 'indexCheck')]


def is_byte(x):
    return (x >= 0) & (x <= 255)


# --- HandshakeMsg.postWrite: msg_type(1) length(3) body ---------------------------------------------
def hs_body_frame(result, body):
    """every byte group of the handshake message that lies inside the body decodes like the same group of the body"""
    from pyvc.values import fresh_name
    a, b = z3.Int(fresh_name('ha')), z3.Int(fresh_name('hb'))
    return VBool(z3.ForAll([a, b], z3.Implies(z3.And(4 <= a, a <= b, b <= smt.slen(result.t)),
                                              smt.s_val(smt.s_slice(result.t, a, b)) == smt.s_val(smt.s_slice(body.t, a - 4, b - 4))),
                           patterns=[smt.s_slice(result.t, a, b)]))


def hs_fits(ns):
    return S.And(is_byte(ns.f(ns.self, 'handshakeType')), S.len_(ns.f(ns.w, 'bytes')) < (1 << 24))


contract(M + 'HandshakeMsg.postWrite',
         params={'self': T.obj(MSG.HandshakeMsg, handshakeType=T.int()), 'w': WRITER},
         result=T.bytes(),
         ensures=lambda ns: (lambda body, n: S.And(
             hs_fits(ns),
             S.seq_eq(ns.result, S.cat(S.byte(ns.f(ns.self, 'handshakeType')), S.be(n, 3), body)),
             S.len_(ns.result) == 4 + n, S.is_bytes(ns.result),
             # consequences stated for callers: the body verbatim at offset 4, and groups inside it decode alike
             S.forall(lambda i: at(ns.result, i) == at(body, i - 4), 4, 4 + n),
             hs_body_frame(ns.result, body),
             only_modifies(ns)))(ns.f(ns.w, 'bytes'), S.len_(ns.f(ns.w, 'bytes'))),
         raises={ValueError: ('iff', lambda ns: S.Not(hs_fits(ns)))},
         prop=PROP,
         doc='handshake framing: msg_type(1) || uint24 len(body) || body; ValueError iff the body is 2^24 bytes or longer '
             '(never a wrapped length)')


# --- RecordHeader3 -------------------------------------------------------------------------------------
RH3 = T.obj(MSG.RecordHeader3, type=T.int(), version=T.tuple(T.int(), T.int()), length=T.int(), ssl2=T.bool())


def rh3_fits(ns):
    v = ns.f(ns.self, 'version')
    return S.And(is_byte(ns.f(ns.self, 'type')), is_byte(v[0]), is_byte(v[1]), fits(ns.f(ns.self, 'length'), 2))


contract(M + 'RecordHeader3.write', params={'self': RH3}, result=T.bytes(),
         ensures=lambda ns: (lambda v: S.And(
             rh3_fits(ns),
             S.seq_eq(ns.result, S.cat(S.byte(ns.f(ns.self, 'type')), S.byte(v[0]), S.byte(v[1]),
                                       S.be(ns.f(ns.self, 'length'), 2))),
             S.len_(ns.result) == 5, only_modifies(ns)))(ns.f(ns.self, 'version')),
         raises={ValueError: ('iff', lambda ns: S.Not(rh3_fits(ns)))},
         prop=PROP, doc='type(1) major(1) minor(1) length(2); ValueError iff a field does not fit (length >= 2^16 is never wrapped)')

_RH3_FIELDS = ['type', 'version', 'length', 'ssl2']
contract(M + 'RecordHeader3.parse', params={'self': RH3, 'parser': PARSER},
         requires=lambda ns: p_inv_of(ns, ns.parser),
         result=T.opaque(), modifies=[('self', f) for f in _RH3_FIELDS] + [('parser', 'index')],
         ensures=lambda ns: (lambda b, i: S.And(
             ns.f(ns.self, 'type') == at(b, i),
             ns.f(ns.self, 'version') == (at(b, i + 1), at(b, i + 2)),
             ns.f(ns.self, 'length') == at(b, i + 3) * 256 + at(b, i + 4),
             ns.f(ns.self, 'length') >= 0, ns.f(ns.self, 'length') < 65536,
             S.Not(ns.f(ns.self, 'ssl2')),
             ns.f(ns.parser, 'index') == i + 5, p_inv_of(ns, ns.parser),
             only_modifies(ns, *([(ns.self, f) for f in _RH3_FIELDS] + [(ns.parser, 'index')]))))(
                 ns.old.f(ns.parser, 'bytes'), ns.old.f(ns.parser, 'index')),
         raises={DecodeError: ('iff', lambda ns: ns.f(ns.parser, 'index') + 5 > S.len_(ns.f(ns.parser, 'bytes')))},
         prop=PROP, doc='reads exactly 5 bytes: type, (major, minor), uint16 length; DecodeError iff fewer than 5 remain')


# --- Alert ---------------------------------------------------------------------------------------------
ALERT = T.obj(MSG.Alert, level=T.int(), description=T.int())


def alert_fits(ns):
    return is_byte(ns.f(ns.self, 'level')) & is_byte(ns.f(ns.self, 'description'))


contract(M + 'Alert.write', params={'self': ALERT}, result=T.bytes(),
         ensures=lambda ns: S.And(alert_fits(ns),
                                  S.seq_eq(ns.result, S.cat(S.byte(ns.f(ns.self, 'level')), S.byte(ns.f(ns.self, 'description')))),
                                  S.len_(ns.result) == 2, only_modifies(ns)),
         raises={ValueError: ('iff', lambda ns: S.Not(alert_fits(ns)))},
         prop=PROP, doc='level(1) description(1)')

contract(M + 'Alert.parse', params={'self': ALERT, 'p': PARSER}, requires=p_ok,
         result=T.opaque(), modifies=[('self', 'level'), ('self', 'description')] + PMOD,
         ensures=lambda ns: S.And(ns.f(ns.self, 'level') == rd(ns.old, 0), ns.f(ns.self, 'description') == rd(ns.old, 1),
                                  p_consumed(ns, 2, ['level', 'description'])),
         raises={DecodeError: ('iff', lambda ns: remaining(ns) < 2)},
         exc_ensures=p_mono_exc(['level', 'description']),
         prop=PROP, doc='reads exactly 2 bytes; DecodeError iff fewer remain')


# --- ChangeCipherSpec ------------------------------------------------------------------------------------
CCS = T.obj(MSG.ChangeCipherSpec, type=T.int())

contract(M + 'ChangeCipherSpec.write', params={'self': CCS}, result=T.bytes(),
         ensures=lambda ns: S.And(is_byte(ns.f(ns.self, 'type')), S.seq_eq(ns.result, S.byte(ns.f(ns.self, 'type'))),
                                  S.len_(ns.result) == 1, only_modifies(ns)),
         raises={ValueError: ('iff', lambda ns: S.Not(is_byte(ns.f(ns.self, 'type'))))},
         prop=PROP, doc='type(1)')

contract(M + 'ChangeCipherSpec.parse', params={'self': CCS, 'p': PARSER}, requires=p_ok,
         result=T.opaque(), modifies=[('self', 'type')] + PMOD,
         ensures=lambda ns: S.And(ns.f(ns.self, 'type') == rd(ns.old, 0), remaining(ns.old) == 1,
                                  p_consumed(ns, 1, ['type'])),
         raises={DecodeError: ('iff', lambda ns: remaining(ns) != 1)},
         exc_ensures=p_mono_exc(['type']),
         prop=PROP, doc='accepts exactly one byte: DecodeError iff the record body is empty or longer than one byte')


# --- empty-bodied handshake messages: HelloRequest, ServerHelloDone ---------------------------------------
def hs_len(ns):
    """declared uint24 body length of the handshake message"""
    return rd(ns, 0, 3)


for _cls in (MSG.HelloRequest, MSG.ServerHelloDone):
    _n = _cls.__name__
    contract(M + _n + '.write', params={'self': T.obj(_cls, handshakeType=T.const(_cls().handshakeType))}, result=T.bytes(),
             ensures=(lambda t: lambda ns: S.And(S.seq_eq(ns.result, S.cat(S.byte(t), S.byte(0), S.byte(0), S.byte(0))),
                                                 S.len_(ns.result) == 4, only_modifies(ns)))(_cls().handshakeType),
             raises={}, prop=PROP, doc='msg_type || 00 00 00 (empty body)')
    contract(M + _n + '.parse', params={'self': T.obj(_cls), ('parser' if _n == 'HelloRequest' else 'p'): PARSER},
             requires=(lambda pn: lambda ns: p_inv_of(ns, getattr(ns, pn)))('parser' if _n == 'HelloRequest' else 'p'),
             result=T.opaque(),
             modifies=[(('parser' if _n == 'HelloRequest' else 'p'), f) for f in ('index', 'lengthCheck', 'indexCheck')],
             ensures=(lambda pn: lambda ns: (lambda p: S.And(
                 ns.f(p, 'index') == ns.old.f(p, 'index') + 3, p_inv_of(ns, p),
                 VInt(smt.s_val(smt.s_slice(ns.old.f(p, 'bytes').t, ns.old.f(p, 'index').t, (ns.old.f(p, 'index') + 3).t))) == 0,
                 only_modifies(ns, (p, 'index'), (p, 'lengthCheck'), (p, 'indexCheck'))))(getattr(ns, pn)))(
                     'parser' if _n == 'HelloRequest' else 'p'),
             raises={DecodeError: ('iff', (lambda pn: lambda ns: (lambda p: S.Or(
                 ns.f(p, 'index') + 3 > S.len_(ns.f(p, 'bytes')),
                 VInt(smt.s_val(smt.s_slice(ns.f(p, 'bytes').t, ns.f(p, 'index').t, (ns.f(p, 'index') + 3).t))) != 0))(
                     getattr(ns, pn)))('parser' if _n == 'HelloRequest' else 'p'))},
             prop=PROP, doc='accepts exactly a zero uint24 length: DecodeError iff truncated or the declared length is not 0')


# --- KeyUpdate ---------------------------------------------------------------------------------------------
KU = T.obj(MSG.KeyUpdate, handshakeType=T.const(MSG.KeyUpdate().handshakeType), message_type=T.int())

contract(M + 'KeyUpdate.write', params={'self': KU}, result=T.bytes(),
         ensures=lambda ns: S.And(is_byte(ns.f(ns.self, 'message_type')),
                                  S.seq_eq(ns.result, S.cat(S.byte(MSG.KeyUpdate().handshakeType), S.byte(0), S.byte(0), S.byte(1),
                                                            S.byte(ns.f(ns.self, 'message_type')))),
                                  S.len_(ns.result) == 5, only_modifies(ns)),
         raises={ValueError: ('iff', lambda ns: S.Not(is_byte(ns.f(ns.self, 'message_type'))))},
         prop=PROP, doc='24 || 00 00 01 || request_update(1)')

contract(M + 'KeyUpdate.parse', params={'self': KU, 'p': PARSER}, requires=p_ok,
         result=T.opaque(), modifies=[('self', 'message_type')] + PMOD,
         ensures=lambda ns: S.And(hs_len(ns.old) == 1, ns.f(ns.self, 'message_type') == rd(ns.old, 3),
                                  p_consumed(ns, 4, ['message_type'])),
         raises={DecodeError: ('iff', lambda ns: S.Or(remaining(ns) < 3,
                                                      S.And(remaining(ns) >= 3, S.Or(remaining(ns) < 4, hs_len(ns) != 1))))},
         exc_ensures=p_mono_exc(['message_type']),
         prop=PROP, doc='uint24 length must be exactly 1; reads request_update; DecodeError iff truncated or length != 1')


# --- Finished ------------------------------------------------------------------------------------------------
VERSION = T.tuple(T.int(0, 255), T.int(0, 255))
FIN = T.obj(MSG.Finished, handshakeType=T.const(MSG.Finished((3, 3)).handshakeType), version=VERSION,
            verify_data=T.bytes(), hash_length=T.int())


def fin_len(ns):
    """verify_data length the version prescribes"""
    v = ns.f(ns.self, 'version')
    return S.ite(v == (3, 0), 36, S.ite(v > (3, 3), ns.f(ns.self, 'hash_length'), 12))


def fin_version_ok(ns):
    v = ns.f(ns.self, 'version')
    return S.And(v >= (3, 0), S.implies(v > (3, 3), ns.f(ns.self, 'hash_length') >= 0))


contract(M + 'Finished.write', params={'self': FIN}, result=T.bytes(),
         ensures=lambda ns: (lambda vd: S.And(
             S.len_(vd) < (1 << 24),
             S.seq_eq(ns.result, S.cat(S.byte(20), S.be(S.len_(vd), 3), vd)), S.len_(ns.result) == 4 + S.len_(vd),
             only_modifies(ns)))(ns.f(ns.self, 'verify_data')),
         raises={ValueError: ('iff', lambda ns: S.len_(ns.f(ns.self, 'verify_data')) >= (1 << 24))},
         prop=PROP, doc='20 || uint24 len || verify_data verbatim')

contract(M + 'Finished.parse', params={'self': FIN, 'p': PARSER},
         requires=lambda ns: p_ok(ns) & fin_version_ok(ns),
         result=T.opaque(), modifies=[('self', 'verify_data')] + PMOD,
         ensures=lambda ns: (lambda n: S.And(
             hs_len(ns.old) == n,
             S.seq_eq(ns.f(ns.self, 'verify_data'), body_at(ns.old, 3, n)), S.len_(ns.f(ns.self, 'verify_data')) == n,
             p_consumed(ns, 3 + n, ['verify_data'])))(fin_len(ns.old)),
         raises={DecodeError: ('iff', lambda ns: S.Or(remaining(ns) < 3,
                                                      S.And(remaining(ns) >= 3,
                                                            S.Or(remaining(ns) < 3 + fin_len(ns), hs_len(ns) != fin_len(ns)))))},
         exc_ensures=p_mono_exc(['verify_data']),
         prop=PROP,
         doc='the declared uint24 length must equal the size the version prescribes (36 / 12 / hash_length) and that many '
             'bytes are read; DecodeError otherwise; requires version >= SSLv3 (constructor argument, not peer data)')

REG.note('C08', 'assumptions', 'Finished.parse: requires self.version >= (3, 0) -- the version comes from the connection state '
         '(constructor argument); for a smaller version the code raises AssertionError by design')


# --- CertificateVerify ---------------------------------------------------------------------------------------------
CV_T = MSG.CertificateVerify((3, 3)).handshakeType


def _cv(sigalg):
    return T.obj(MSG.CertificateVerify, handshakeType=T.const(CV_T), version=VERSION, signature=T.bytes(),
                 signatureAlgorithm=sigalg)


def cv_has_alg(ns):
    return ns.f(ns.self, 'version') >= (3, 3)


def _cv_write_ensures(with_alg):
    def ens(ns):
        sig = ns.f(ns.self, 'signature')
        n = S.len_(sig)
        if with_alg:
            a = ns.f(ns.self, 'signatureAlgorithm')
            body = S.cat(S.byte(a[0]), S.byte(a[1]), S.be(n, 2), sig)
            blen = n + 4
            ok = S.And(is_byte(a[0]), is_byte(a[1]), n < 65536)
        else:
            body = S.cat(S.be(n, 2), sig)
            blen = n + 2
            ok = n < 65536
        return S.And(ok, S.seq_eq(ns.result, S.cat(S.byte(CV_T), S.be(blen, 3), body)), S.len_(ns.result) == 4 + blen,
                     only_modifies(ns))
    return ens


def _cv_write_bad(with_alg):
    def bad(ns):
        n = S.len_(ns.f(ns.self, 'signature'))
        if with_alg:
            a = ns.f(ns.self, 'signatureAlgorithm')
            return S.Not(S.And(is_byte(a[0]), is_byte(a[1]), n < 65536))
        return n >= 65536
    return bad


for _vn, _alg, _req in (('tls12+', T.tuple(T.int(), T.int()), lambda ns: cv_has_alg(ns)),
                        ('pre-tls12', T.none(), lambda ns: S.Not(cv_has_alg(ns)))):
    _wa = _vn == 'tls12+'
    # per-configuration contracts: never applied modularly by contract_for (variant set), only by name in scenarios
    contract(M + 'CertificateVerify.write', name='CertificateVerify.write[%s]' % _vn, params={'self': _cv(_alg)},
             requires=_req, result=T.bytes(), ensures=_cv_write_ensures(_wa),
             raises={ValueError: ('iff', _cv_write_bad(_wa))}, prop=PROP,
             doc='15 || uint24 len || [hash(1) sig(1) from TLS1.2 on] || uint16 len || signature; ValueError iff the signature '
                 'is 2^16 bytes or longer or an algorithm id is not a byte').variant = _vn


def cv_off(ns):
    return S.ite(cv_has_alg(ns), 2, 0)


def cv_bad(ns):
    off = cv_off(ns)
    siglen = rd(ns, 3 + off, 2)
    return S.Or(remaining(ns) < 3 + off + 2,
                S.And(remaining(ns) >= 3 + off + 2,
                      S.Or(remaining(ns) < 3 + off + 2 + siglen, hs_len(ns) != off + 2 + siglen)))


contract(M + 'CertificateVerify.parse', params={'self': _cv(T.opaque()), 'parser': PARSER},
         requires=lambda ns: p_inv_of(ns, ns.parser),
         result=T.opaque(), modifies=[('self', 'signature'), ('self', 'signatureAlgorithm'),
                                      ('parser', 'index'), ('parser', 'lengthCheck'), ('parser', 'indexCheck')],
         ensures=lambda ns: (lambda off: (lambda n: S.And(
             hs_len(ns.old) == off + 2 + n,
             S.implies(cv_has_alg(ns.old), ns.f(ns.self, 'signatureAlgorithm') == (rd(ns.old, 3), rd(ns.old, 4))),
             S.seq_eq(ns.f(ns.self, 'signature'), body_at(ns.old, 3 + off + 2, n)), S.len_(ns.f(ns.self, 'signature')) == n,
             p_consumed(ns, 3 + off + 2 + n, ['signature', 'signatureAlgorithm'])))(rd(ns.old, 3 + off, 2)))(cv_off(ns.old)),
         raises={DecodeError: ('iff', cv_bad)},
         exc_ensures=p_mono_exc(['signature', 'signatureAlgorithm']),
         prop=PROP,
         doc='uint24 length, [2 algorithm bytes from TLS1.2 on], uint16-prefixed signature; the outer length must equal the '
             'inner total exactly; DecodeError otherwise')


# --- NextProtocol (NPN): selected_protocol<0..255> padding<0..255>, body padded to a multiple of 32 ------------------
NP_T = MSG.NextProtocol().handshakeType
NP = T.obj(MSG.NextProtocol, handshakeType=T.const(NP_T), next_proto=T.bytes())


def np_padlen(n):
    return 32 - ((n + 2) % 32)


contract(M + 'NextProtocol.write', params={'self': NP, 'trial': T.const(False)}, result=T.bytes(),
         ensures=lambda ns: (lambda proto, n: (lambda pad: S.And(
             n < 256, pad >= 1, pad <= 32, (n + 2 + pad) % 32 == 0,
             S.seq_eq(ns.result, S.cat(S.byte(NP_T), S.be(n + 2 + pad, 3), S.byte(n), proto, S.byte(pad), S.rep(0, pad))),
             S.len_(ns.result) == 4 + n + 2 + pad, only_modifies(ns)))(np_padlen(n)))(
                 ns.f(ns.self, 'next_proto'), S.len_(ns.f(ns.self, 'next_proto'))),
         raises={ValueError: ('iff', lambda ns: S.len_(ns.f(ns.self, 'next_proto')) >= 256)},
         prop=PROP,
         doc='67 || uint24 len || len(1) protocol || len(1) zero padding, body length a multiple of 32; ValueError iff the '
             'protocol name is 256 bytes or longer')


def np_bad(ns):
    n1 = rd(ns, 3)
    n2 = rd(ns, 3 + 1 + n1)
    return S.Or(remaining(ns) < 4,
                S.And(remaining(ns) >= 4,
                      S.Or(remaining(ns) < 4 + n1 + 1,
                           S.And(remaining(ns) >= 4 + n1 + 1,
                                 S.Or(remaining(ns) < 4 + n1 + 1 + n2, hs_len(ns) != n1 + n2 + 2)))))


contract(M + 'NextProtocol.parse', params={'self': NP, 'p': PARSER}, requires=p_ok,
         result=T.opaque(), modifies=[('self', 'next_proto')] + PMOD,
         ensures=lambda ns: (lambda n1: (lambda n2: S.And(
             hs_len(ns.old) == n1 + n2 + 2,
             S.seq_eq(ns.f(ns.self, 'next_proto'), body_at(ns.old, 4, n1)), S.len_(ns.f(ns.self, 'next_proto')) == n1,
             p_consumed(ns, 3 + 1 + n1 + 1 + n2, ['next_proto'])))(rd(ns.old, 3 + 1 + n1)))(rd(ns.old, 3)),
         raises={DecodeError: ('iff', np_bad)},
         exc_ensures=p_mono_exc(['next_proto']),
         prop=PROP, doc='two uint8-prefixed vectors whose total must equal the uint24 length exactly; DecodeError otherwise')


# --- Heartbeat (RFC 6520): type(1) payload_length(2) payload padding --------------------------------------------------
HB = T.obj(MSG.Heartbeat, message_type=T.int(), payload=T.bytes(), padding=T.bytes())


def hb_fits(ns):
    return S.And(is_byte(ns.f(ns.self, 'message_type')), S.len_(ns.f(ns.self, 'payload')) < 65536)


contract(M + 'Heartbeat.write', params={'self': HB}, result=T.bytes(),
         ensures=lambda ns: (lambda pl, pad: S.And(
             hb_fits(ns),
             S.seq_eq(ns.result, S.cat(S.byte(ns.f(ns.self, 'message_type')), S.be(S.len_(pl), 2), pl, pad)),
             S.len_(ns.result) == 3 + S.len_(pl) + S.len_(pad), only_modifies(ns)))(
                 ns.f(ns.self, 'payload'), ns.f(ns.self, 'padding')),
         raises={ValueError: ('iff', lambda ns: S.Not(hb_fits(ns)))},
         prop=PROP, doc='type(1) || uint16 len(payload) || payload || padding; ValueError iff the payload is 2^16 bytes or longer')

_HB_F = ['message_type', 'payload', 'padding']
contract(M + 'Heartbeat.parse', params={'self': HB, 'p': PARSER}, requires=p_ok,
         result=T.opaque(), modifies=[('self', f) for f in _HB_F] + PMOD,
         ensures=lambda ns: (lambda n: S.And(
             ns.f(ns.self, 'message_type') == rd(ns.old, 0),
             S.seq_eq(ns.f(ns.self, 'payload'), body_at(ns.old, 3, n)), S.len_(ns.f(ns.self, 'payload')) == n,
             S.seq_eq(ns.f(ns.self, 'padding'), body_at(ns.old, 3 + n, remaining(ns.old) - 3 - n)),
             S.len_(ns.f(ns.self, 'padding')) == remaining(ns.old) - 3 - n,
             pidx(ns) == S.len_(pbytes(ns)),
             p_consumed(ns, remaining(ns.old), _HB_F)))(rd(ns.old, 1, 2)),
         raises={DecodeError: ('iff', lambda ns: S.Or(remaining(ns) < 3,
                                                      S.And(remaining(ns) >= 3, remaining(ns) < 3 + rd(ns, 1, 2))))},
         exc_ensures=p_mono_exc(_HB_F),
         prop=PROP,
         doc='type, uint16-prefixed payload, everything left is padding (whole record consumed); DecodeError iff the declared '
             'payload length exceeds what is there (the Heartbleed condition is a decode error, never a short read)')


# --- ApplicationData ------------------------------------------------------------------------------------------------------
AD = T.obj(MSG.ApplicationData, bytes=T.bytes())
contract(M + 'ApplicationData.write', params={'self': AD}, result=T.bytes(),
         ensures=lambda ns: S.And(S.seq_eq(ns.result, ns.f(ns.self, 'bytes')), only_modifies(ns)), raises={},
         prop=PROP, doc='the payload verbatim')
contract(M + 'ApplicationData.parse', params={'self': AD, 'p': PARSER}, result=T.opaque(), modifies=[('self', 'bytes')],
         ensures=lambda ns: S.And(S.seq_eq(ns.f(ns.self, 'bytes'), pbytes(ns.old)), only_modifies(ns, (ns.self, 'bytes'))),
         raises={}, prop=PROP, doc='takes the whole record body verbatim; never fails')


REG.note('C15', 'not_built', 'NewSessionTicket / NewSessionTicket1_0 / EncryptedExtensions and every message carrying an extension '
         'block: need the TLSExtension.parse dispatch contracts (contracts on extensions.py not written)')


# ===========================================================================
# Round trips (O-rt-K, O-wr-K): K.parse(Parser(K.write(x))) yields the fields of x, consumes everything, and
# writing the parsed object gives the same bytes.  Handshake messages are parsed from offset 1 (the record layer
# reads the msg_type byte before dispatching to K.parse).
# ===========================================================================

def _roundtrip(name, mk_x, mk_y, cls_name, start, same_fields, wf=None, doc='', write_name=None, wf_y=None,
               consumes=True, rewrite=True):
    @scenario('roundtrip-' + name, PROP, doc=doc or '%s.parse(Parser(%s.write(x))) == x, everything consumed, and '
              'write(parse(write(x))) == write(x)' % (cls_name, cls_name))
    def body(api):
        x = api.make('x', mk_x)
        y = api.make('y', mk_y)
        ns0 = api.ns(api.st)
        if wf is not None:
            api.st.assume(wf(ns0, x).t)
        if wf_y is not None:
            api.st.assume(wf_y(ns0, x, y).t)
        wq = M + cls_name + '.write'
        for o in _normal(api, _call(api, wq, write_name, [x], api.st), 'write', allow=(ValueError,)):
            wire = o.val
            p, st = _parser_at(api, o.st, wire, start)
            for o2 in _normal(api, api.call(M + cls_name + '.parse', [y, p], st, inline=False), 'parse'):
                ns = api.ns(o2.st)
                api.oblige(o2.st, 'fields-back', same_fields(ns, x, y))
                if consumes:
                    api.oblige(o2.st, 'consumed-exactly', ns.f(p, 'index') == S.len_(wire))
                for o3 in (_normal(api, _call(api, wq, write_name, [y], o2.st), 'rewrite') if rewrite else ()):
                    api.oblige(o3.st, 'rewrite-identical', S.seq_eq(o3.val, wire))
    return body


def _call(api, qual, cname, args, st):
    """apply the named (variant) contract of qual, or the plain one"""
    if cname is None:
        return api.call(qual, args, st, inline=False)
    api.called.add(qual)
    c = [c for c in REG.contracts[qual] if c.name == cname][0]
    return c.apply(api.ex, args, {}, st, api.fr, None)


def _eq_fields(*names):
    def f(ns, x, y):
        cs = []
        for n in names:
            a, b = ns.f(x, n), ns.f(y, n)
            cs.append(S.And(S.seq_eq(a, b), S.len_(a) == S.len_(b)) if isinstance(a, VSeq) else a == b)
        return S.And(*cs)
    return f


_roundtrip('RecordHeader3', RH3, RH3, 'RecordHeader3', 0, _eq_fields('type', 'version', 'length'))
_roundtrip('Alert', ALERT, ALERT, 'Alert', 0, _eq_fields('level', 'description'))
_roundtrip('ChangeCipherSpec', CCS, CCS, 'ChangeCipherSpec', 0, _eq_fields('type'))
_roundtrip('HelloRequest', T.obj(MSG.HelloRequest, handshakeType=T.const(0)), T.obj(MSG.HelloRequest, handshakeType=T.const(0)),
           'HelloRequest', 1, lambda ns, x, y: True)
_roundtrip('ServerHelloDone', T.obj(MSG.ServerHelloDone, handshakeType=T.const(14)),
           T.obj(MSG.ServerHelloDone, handshakeType=T.const(14)), 'ServerHelloDone', 1, lambda ns, x, y: True)
_roundtrip('KeyUpdate', KU, KU, 'KeyUpdate', 1, _eq_fields('message_type'))
_roundtrip('Finished', FIN, FIN, 'Finished', 1, _eq_fields('verify_data'),
           wf=lambda ns, x: S.And(ns.f(x, 'version') >= (3, 0),
                                  S.implies(ns.f(x, 'version') > (3, 3), ns.f(x, 'hash_length') >= 0),
                                  # well-formed Finished: verify_data has the size the version prescribes
                                  S.len_(ns.f(x, 'verify_data')) == S.ite(ns.f(x, 'version') == (3, 0), 36,
                                                                          S.ite(ns.f(x, 'version') > (3, 3), ns.f(x, 'hash_length'), 12))),
           wf_y=lambda ns, x, y: S.And(ns.f(y, 'version') == ns.f(x, 'version'), ns.f(y, 'hash_length') == ns.f(x, 'hash_length')))
_roundtrip('CertificateVerify-tls12', _cv(T.tuple(T.int(), T.int())), _cv(T.tuple(T.int(), T.int())), 'CertificateVerify', 1,
           _eq_fields('signatureAlgorithm', 'signature'), write_name='CertificateVerify.write[tls12+]',
           wf=lambda ns, x: ns.f(x, 'version') >= (3, 3), wf_y=lambda ns, x, y: ns.f(y, 'version') == ns.f(x, 'version'))
_roundtrip('CertificateVerify-pre-tls12', _cv(T.none()), _cv(T.none()), 'CertificateVerify', 1,
           _eq_fields('signature'), write_name='CertificateVerify.write[pre-tls12]',
           wf=lambda ns, x: ns.f(x, 'version') < (3, 3), wf_y=lambda ns, x, y: ns.f(y, 'version') == ns.f(x, 'version'))
_roundtrip('NextProtocol', NP, NP, 'NextProtocol', 1, _eq_fields('next_proto'))
_roundtrip('Heartbeat', HB, HB, 'Heartbeat', 0, _eq_fields('message_type', 'payload', 'padding'))
# ApplicationData.parse takes the record body as a whole (p.bytes) and does not move the index
_roundtrip('ApplicationData', AD, AD, 'ApplicationData', 0, _eq_fields('bytes'), consumes=False)


for _p in PROP:
    REG.xchecks.append({'prop': _p, 'module': 'specs.messages_simple', 'name': 'messages_simple', 'function': M + 'HandshakeMsg.postWrite'})
REG.note('C15', 'assumptions', 'message round trips: well-formedness wf_K from the RFCs -- Finished.verify_data has the size the version '
         'prescribes; CertificateVerify.signatureAlgorithm is a pair from TLS 1.2 on and absent before; fields fit their widths '
         '(otherwise write raises ValueError: proved); handshake messages are parsed from offset 1 (msg_type byte read by the caller)')
