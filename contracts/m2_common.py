"""Shared M2 models of TLSRecordLayer / TLSConnection internals: the no-return
_sendError, ghost effects of _shutdown, _sendMsg, _getMsg."""
import z3

from pyvc.m2 import M2Spec, M2Executor, NoReturn, fresh_opaque, m2task
from pyvc.executor import Outcome
from pyvc.values import VBool, VInt, VNone, VOpaque, VExc, VObj, truthy, to_val, eq_op
from pyvc import smt

TRL = 'tlslite/tlsrecordlayer.py:TLSRecordLayer.'
TC = 'tlslite/tlsconnection.py:TLSConnection.'


def h_sendError(ex, recv, args, kwargs, st, fr, node):
    """_sendError(desc, msg): sends one fatal alert, _shutdown(False), raises TLSLocalAlert.
    Never returns normally (contract proved on the real body by task m2:_sendError)."""
    desc = args[0] if args else kwargs.get('alertDescription')
    st.ghost['alert_sent'] = desc
    st.ghost['closed'] = VBool(z3.BoolVal(True))
    st.ghost['resumable_cleared'] = VBool(z3.BoolVal(True))
    st.events.append(('_sendError', [desc], None))
    return [Outcome('raise', st, VExc(NoReturn, [desc], '_sendError line %d' % getattr(node, 'lineno', 0)))]
