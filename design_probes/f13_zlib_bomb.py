"""F13: CompressedCertificate from the peer: 48 KB of input made the parser allocate 50 MB although the
message declares an uncompressed length of 100 bytes (zlib.decompress's third argument is a buffer size hint,
not a limit).  Run with PYTHONPATH=<tree>."""
import zlib, tracemalloc
from tlslite.messages import CompressedCertificate
from tlslite.constants import CertificateType
from tlslite.utils.codec import Parser, Writer
bomb = zlib.compress(b'\0' * 50_000_000, 9)
w = Writer(); w.add(1, 2); w.add(100, 3); w.add(len(bomb), 3); w.bytes += bomb
body = Writer(); body.add(len(w.bytes), 3); body.bytes += w.bytes
c = CompressedCertificate(CertificateType.x509)
tracemalloc.start()
try:
    c.parse(Parser(body.bytes))
    print('accepted')
except Exception as e:
    print(type(e).__name__, e)
peak = tracemalloc.get_traced_memory()[1]
print('input bytes', len(body.bytes), 'declared uncompressed length 100, peak allocation', peak)
raise SystemExit(1 if peak > 100 * len(body.bytes) else 0)
