import sys; sys.path.insert(0, '/verif/design_probes')
from loop import *
from tlslite.messages import ClientHello
from tlslite.handshakesettings import HandshakeSettings
chain,key=creds()
# a TLS 1.2 client whose ClientHello carries legacy client_version (3,4) and no supported_versions
orig_write = ClientHello.write
def patched_write(self):
    if self.client_version == (3,3) and getattr(self, '_patch', True):
        self.client_version = (3,4)
        try: return orig_write(self)
        finally: self.client_version = (3,3)
    return orig_write(self)
ClientHello.write = patched_write
ss=HandshakeSettings(); ss.minVersion=(3,4); ss.maxVersion=(3,4)
cs=HandshakeSettings(); cs.minVersion=(3,3); cs.maxVersion=(3,3)
def cl(c):
    c.handshakeClientCert(settings=cs); return ('client completed', c.version, c.session.cipherSuite)
def sv(c):
    c.handshakeServer(certChain=chain, privateKey=key, settings=ss); return ('server completed', c.version, hex(c.session.cipherSuite))
print(run(cl, sv))
