"""F44 (C08): TLS 1.2 client with default settings, server selects a DHE_RSA suite; the server's ServerHello carries an EMPTY-BODIED ec_point_formats extension.
The handshake runs to the end and the client then raises TypeError in _handshakeClientAsyncHelper
(`i in ext_s.formats` with formats None).  The SERVER side of this probe is a modified peer (attacker), the client is stock.
Run with PYTHONPATH=<tree>:/verif; exit 1 = undocumented exception on the client."""
import sys, os, socket, threading
sys.path.insert(0, '/verif')
from specs.empty_ext import ROOT
from tlslite.api import TLSConnection, HandshakeSettings, X509CertChain, X509, parsePEMKey
from tlslite.messages import ServerHello
from tlslite.extensions import TLSExtension
from tlslite.errors import TLSError, BaseTLSException

cert = X509CertChain([X509().parse(open(os.path.join(ROOT, 'tests', 'serverX509Cert.pem')).read())])
key = parsePEMKey(open(os.path.join(ROOT, 'tests', 'serverX509Key.pem')).read(), private=True)


HIT = []


class EvilServer(TLSConnection):
    """sends a COPY of its ServerHello in which ec_point_formats has an empty body"""
    @staticmethod
    def _evil(m):
        import copy
        if isinstance(m, ServerHello) and m.extensions is not None:
            HIT.append(1)
            m2 = copy.copy(m)
            m2.extensions = [e for e in m.extensions if e.extType != 11] + [TLSExtension(extType=11).create(11, bytearray(0))]
            return m2
        return m

    def _sendMsg(self, msg, *a, **k):
        return TLSConnection._sendMsg(self, self._evil(msg), *a, **k)

    def _sendMsgs(self, msgs):
        return TLSConnection._sendMsgs(self, [self._evil(m) for m in msgs])


a, b = socket.socketpair(); a.settimeout(5); b.settimeout(5)
def server():
    s = EvilServer(b)
    st = HandshakeSettings(); st.maxVersion = (3, 3); st.keyExchangeNames = ['dhe_rsa']
    try:
        s.handshakeServer(certChain=cert, privateKey=key, settings=st)
        s.write(b'x')
    except Exception as e:
        pass
t = threading.Thread(target=server); t.start()
c = TLSConnection(a)
st = HandshakeSettings(); st.maxVersion = (3, 3)
try:
    c.handshakeClientCert(settings=st)
    r = 'completed'
except (TLSError, BaseTLSException, socket.error) as e:
    r = 'documented: %r' % (e,)
except Exception as e:
    import traceback; tb = traceback.extract_tb(e.__traceback__)[-1]
    r = 'UNDOCUMENTED %s: %s (%s:%d)' % (type(e).__name__, e, os.path.basename(tb.filename), tb.lineno)
a.close(); t.join()
print(r, 'server altered its ServerHello:', HIT)
sys.exit(1 if r.startswith('UNDOC') else 0)
