"""Frame / alias analysis of a method over the real AST (C19 O-validate-frame).

Question decided: starting from `recv.method()`, does the execution
  (a) assign or delete an attribute of the receiver or of an object reachable
      from the receiver, or
  (b) mutate in place (x[:] = .., x[i] = .., del x[i], x += .., .append /
      .extend / .insert / .remove / .pop / .clear / .sort / .reverse / set and
      dict mutators) a container that *is* (an alias of) an object reachable
      from the receiver, or a module-level container?

Python lists are heap objects: `other.f = self.f` makes `other.f` an alias of
the receiver's list, `other.f = self.f[:]` / `list(self.f)` / a comprehension
make a fresh one.  The analysis is a flow-sensitive points-to analysis with
allocation-site abstraction and full (call-string) context sensitivity for the
helpers of the analysed module, executed from the real source:

  abstract objects   ('recv',)             the receiver
                     ('rf', f)             the object the receiver's field f refers to on entry
                     ('re', o)             anything reachable from o (fields / elements), summarised
                     ('new', site, ctx)    object allocated at an allocation site during this activation
                     ('glob', dotted)      module-level object;  ('ge', dotted) its elements
                     ('imm',)              value of a literal / comparison / arithmetic (immutable)
                     ('unk',)              unknown
One obligation is produced per store / in-place mutation site *per calling
context*:  proved when every object the target may denote is ('new', ..) or
immutable; refuted when the target can only denote one object and that object
is receiver-reachable or module-level (must-alias on every path reaching the
site); undecided otherwise.  External calls made with receiver-reachable
arguments must be declared pure.
"""
import ast

from . import source
from .asttask import AstTask, dotted
from .smt import Verdict

MUTATORS = {'append', 'extend', 'insert', 'remove', 'pop', 'clear', 'sort', 'reverse',
            'add', 'discard', 'update', 'setdefault', 'popitem', '__setitem__', '__delitem__',
            'difference_update', 'intersection_update', 'symmetric_difference_update'}
FRESH_BUILTINS = {'list', 'set', 'dict', 'tuple', 'sorted', 'frozenset', 'bytearray', 'reversed'}
PURE_BUILTINS = {'len', 'any', 'all', 'isinstance', 'str', 'repr', 'bool', 'int', 'min', 'max', 'sum', 'abs',
                 'hasattr', 'type', 'id', 'format', 'ValueError', 'TypeError', 'AssertionError', 'KeyError'}
PURE_METHODS = {'format', 'join', 'index', 'count', 'keys', 'values', 'items', 'get', 'startswith', 'endswith',
                'lower', 'upper', 'strip', 'split', 'encode', 'decode', 'copy'}
IMM = ('imm',)
UNK = ('unk',)


def reachable_from_receiver(o):
    return o[0] in ('recv', 'rf', 're')


def is_fresh(o):
    return o[0] in ('new', 'imm', 'func', 'cls', 'builtin')


class _St(object):
    """abstract state: env (per frame) + heap (global)"""

    def __init__(self, env=None, heap=None):
        self.env = dict(env or {})
        self.heap = dict(heap or {})

    def copy(self):
        return _St(self.env, self.heap)

    @staticmethod
    def join(a, b):
        if a is None:
            return b
        if b is None:
            return a
        r = _St()
        for k in set(a.env) | set(b.env):
            r.env[k] = a.env.get(k, frozenset()) | b.env.get(k, frozenset())
        for k in set(a.heap) | set(b.heap):
            r.heap[k] = a.heap.get(k, frozenset()) | b.heap.get(k, frozenset())
        return r

    def same(self, o):
        return o is not None and self.env == o.env and self.heap == o.heap


class _Frame(object):
    def __init__(self, fn, cls, ctx):
        self.fn = fn
        self.cls = cls
        self.ctx = ctx              # tuple of 'callee#k' strings
        self.ret = frozenset()
        self.ret_state = None
        self.ord = {}               # (kind, text) -> ordinal bookkeeping, by node id
        self.try_collect = []


class FrameAnalysis(object):
    def __init__(self, qual, elem_types=None, pure_calls=(), max_depth=10):
        self.qual = qual
        fs = source.load(qual)
        self.fs = fs
        self.path = fs.path
        self.tree = source.module_ast(fs.path)
        self.src = source._SRC_CACHE[fs.path]
        self.module = fs.module
        self.classes = {n.name: n for n in self.tree.body if isinstance(n, ast.ClassDef)}
        self.funcs = {n.name: n for n in self.tree.body if isinstance(n, ast.FunctionDef)}
        self.elem_types = dict(elem_types or {})   # field name -> class name of the elements / the value
        self.pure_calls = set(pure_calls)
        self.max_depth = max_depth
        self.sites = {}             # key -> dict(kind, what, line, ctx, pts:set, func)
        self.site_order = []
        self.ext_calls = {}         # key -> dict(name, line, ctx, args:set)
        self.prov = {}              # (obj, field) -> list of 'func:line `src`'
        self.stack = []
        self.visited_funcs = set()
        self.problems = []
        self.result_pts = frozenset()
        self.result_state = None

    # ------------------------------------------------------------ class lookup
    def method(self, clsname, name):
        c = self.classes.get(clsname)
        seen = 0
        while c is not None and seen < 5:
            for n in c.body:
                if isinstance(n, ast.FunctionDef) and n.name == name:
                    kind = 'method'
                    for d in n.decorator_list:
                        dn = dotted(d.func if isinstance(d, ast.Call) else d)
                        if dn in ('staticmethod', 'classmethod'):
                            kind = dn
                    return n, kind, c.name
            base = dotted(c.bases[0]) if c.bases else None
            c = self.classes.get(base)
            seen += 1
        return None

    def class_of(self, o):
        """class name (in the analysed module) of an abstract object, if known"""
        if o[0] == 'new' and len(o) > 3:
            return o[3]
        if o[0] == 'recv':
            return self.fs.cls.__name__ if self.fs.cls is not None else None
        if o[0] == 're' and o[2] == '[]':
            # element of a container with a declared element type (field name -> class)
            b = o[1]
            if b[0] == 'rf':
                return self.elem_types.get(b[1])
            if b[0] == 're' and b[2] != '[]':
                return self.elem_types.get(b[2])
        return None

    # -------------------------------------------------------------- heap model
    def load_field(self, o, f, st):
        if (o, f) in st.heap:
            return st.heap[(o, f)]
        if o[0] == 'recv':
            return frozenset([('rf', f)])
        if o[0] in ('rf', 're'):
            return frozenset([('re', o, f)])
        if o[0] == 'glob':
            return frozenset([('glob', o[1] + '.' + f)])
        if o[0] in ('imm',):
            return frozenset([IMM])
        if o[0] == 'new':
            cn = self.class_of(o)
            if cn and self.method(cn, f):
                return frozenset([('func', cn, f, o)])
            return frozenset([IMM]) if f == '[]' else frozenset([UNK])
        return frozenset([UNK])

    def elements(self, objs, st):
        out = set()
        for o in objs:
            if o[0] == 'new':
                out |= st.heap.get((o, '[]'), frozenset())
            elif o[0] in ('rf', 're'):
                out.add(('re', o, '[]'))
            elif o[0] == 'glob':
                out.add(('ge', o[1]))
            elif o[0] in ('imm', 'ge'):
                out.add(IMM)
            else:
                out.add(UNK)
        return frozenset(out) or frozenset([IMM])

    def store_field(self, objs, f, val, st, fr, node):
        strong = len(objs) == 1 and next(iter(objs))[0] == 'new'
        for o in objs:
            if o[0] != 'new':
                continue
            if strong:
                st.heap[(o, f)] = val
            else:
                st.heap[(o, f)] = st.heap.get((o, f), frozenset()) | val
            if any(reachable_from_receiver(v) or v[0] == 'glob' for v in val):
                txt = (ast.get_source_segment(self.src, node) or '').strip().replace('\n', ' ')[:90]
                self.prov.setdefault((o, f), [])
                ent = '%s:%d `%s`' % (fr.fn.name, node.lineno, txt)
                if ent not in self.prov[(o, f)]:
                    self.prov[(o, f)].append(ent)

    def new(self, node, fr, what, cls=None):
        o = ('new', '%s@L%d:%d' % (what, node.lineno, node.col_offset), fr.ctx) + ((cls,) if cls else ())
        return o

    # ------------------------------------------------------------------ sites
    def _site(self, fr, node, kind, what, pts, extra=None):
        key = (fr.ctx, id(node), kind)
        e = self.sites.get(key)
        if e is None:
            e = {'kind': kind, 'what': what, 'line': node.lineno, 'ctx': fr.ctx, 'pts': set(), 'func': fr.fn.name,
                 'src': (ast.get_source_segment(self.src, node) or '').strip().replace('\n', ' ')[:100],
                 'col': node.col_offset, 'via': set()}
            self.sites[key] = e
            self.site_order.append(key)
        e['pts'] |= set(pts)
        if extra:
            e['via'] |= set(extra)

    def _ext(self, fr, node, name, argsets):
        key = (fr.ctx, id(node))
        e = self.ext_calls.get(key)
        if e is None:
            e = {'name': name, 'line': node.lineno, 'ctx': fr.ctx, 'args': set(), 'func': fr.fn.name,
                 'src': (ast.get_source_segment(self.src, node) or '').strip().replace('\n', ' ')[:100]}
            self.ext_calls[key] = e
        for a in argsets:
            e['args'] |= set(a)

    # ------------------------------------------------------------- expressions
    def ev(self, n, st, fr):
        """abstract evaluation: returns frozenset of abstract objects (side effects on st)"""
        if n is None:
            return frozenset([IMM])
        m = getattr(self, 'e_' + type(n).__name__, None)
        if m is None:
            for c in ast.iter_child_nodes(n):
                if isinstance(c, ast.expr):
                    self.ev(c, st, fr)
            return frozenset([UNK])
        return m(n, st, fr)

    def e_Constant(self, n, st, fr):
        return frozenset([IMM])

    e_JoinedStr = e_Constant

    def e_Name(self, n, st, fr):
        if n.id in st.env:
            return st.env[n.id]
        if n.id in self.classes:
            return frozenset([('cls', n.id)])
        if n.id in self.funcs:
            return frozenset([('func', None, n.id, None)])
        if hasattr(self.module, n.id):
            v = getattr(self.module, n.id)
            if isinstance(v, (int, float, str, bytes, bool, type(None), frozenset)):
                return frozenset([IMM])
            if isinstance(v, tuple):
                return frozenset([IMM])
            return frozenset([('glob', n.id)])
        import builtins
        if hasattr(builtins, n.id):
            return frozenset([('builtin', n.id)])
        return frozenset([UNK])

    def e_Attribute(self, n, st, fr):
        base = self.ev(n.value, st, fr)
        out = set()
        for o in base:
            if o[0] == 'cls':
                mm = self.method(o[1], n.attr)
                out.add(('func', o[1], n.attr, None) if mm else ('glob', '%s.%s' % (o[1], n.attr)))
            elif o[0] in ('recv', 're', 'rf') and self.class_of(o) and self.method(self.class_of(o), n.attr) \
                    and (o, n.attr) not in st.heap:
                out.add(('func', self.class_of(o), n.attr, o))
            elif o[0] == 'glob':
                # attribute of a module-level object: immutable scalars stay immutable
                try:
                    v = self.module
                    for p in (o[1] + '.' + n.attr).split('.'):
                        v = getattr(v, p)
                    if isinstance(v, (int, float, str, bytes, bool, type(None), tuple, frozenset)):
                        out.add(IMM)
                    elif callable(v):
                        out.add(('extfunc', o[1] + '.' + n.attr))
                    else:
                        out.add(('glob', o[1] + '.' + n.attr))
                except AttributeError:
                    out.add(('glob', o[1] + '.' + n.attr))
            else:
                out |= self.load_field(o, n.attr, st)
        out = frozenset(out)
        # method values on containers are resolved at the call
        return out

    def _display(self, n, st, fr, elts, what):
        o = self.new(n, fr, what)
        vals = set()
        for e in elts:
            if isinstance(e, ast.Starred):
                vals |= self.elements(self.ev(e.value, st, fr), st)
            elif e is not None:
                vals |= self.ev(e, st, fr)
        st.heap[(o, '[]')] = frozenset(vals) or frozenset([IMM])
        return frozenset([o])

    def e_List(self, n, st, fr):
        return self._display(n, st, fr, n.elts, 'list')

    def e_Set(self, n, st, fr):
        return self._display(n, st, fr, n.elts, 'set')

    def e_Tuple(self, n, st, fr):
        return self._display(n, st, fr, n.elts, 'tuple')

    def e_Dict(self, n, st, fr):
        return self._display(n, st, fr, list(n.values) + [k for k in n.keys if k is not None], 'dict')

    def _comp(self, n, st, fr, elt_nodes, what):
        saved = dict(st.env)
        for g in n.generators:
            it = self.ev(g.iter, st, fr)
            self.assign(g.target, self.elements(it, st), st, fr, n)
            for c in g.ifs:
                self.ev(c, st, fr)
        vals = set()
        for e in elt_nodes:
            vals |= self.ev(e, st, fr)
        st.env = saved
        o = self.new(n, fr, what)
        st.heap[(o, '[]')] = frozenset(vals)
        return frozenset([o])

    def e_ListComp(self, n, st, fr):
        return self._comp(n, st, fr, [n.elt], 'listcomp')

    def e_SetComp(self, n, st, fr):
        return self._comp(n, st, fr, [n.elt], 'setcomp')

    def e_GeneratorExp(self, n, st, fr):
        return self._comp(n, st, fr, [n.elt], 'genexp')

    def e_DictComp(self, n, st, fr):
        return self._comp(n, st, fr, [n.key, n.value], 'dictcomp')

    def e_Subscript(self, n, st, fr):
        base = self.ev(n.value, st, fr)
        if isinstance(n.slice, ast.Slice):
            for p in (n.slice.lower, n.slice.upper, n.slice.step):
                if p is not None:
                    self.ev(p, st, fr)
            # slicing a list / tuple / bytes / bytearray builds a new object
            o = self.new(n, fr, 'slice')
            st.heap[(o, '[]')] = self.elements(base, st)
            return frozenset([o])
        self.ev(n.slice, st, fr)
        return self.elements(base, st)

    def _all(self, n, st, fr):
        for c in ast.iter_child_nodes(n):
            if isinstance(c, ast.expr):
                self.ev(c, st, fr)
        return frozenset([IMM])

    e_Compare = e_UnaryOp = _all

    def e_BinOp(self, n, st, fr):
        a = self.ev(n.left, st, fr)
        b = self.ev(n.right, st, fr)
        if isinstance(n.op, (ast.Add, ast.Mult)):
            # list + list / list * n build a new list; numbers and strings are immutable
            if all(x == IMM for x in a | b):
                return frozenset([IMM])
            o = self.new(n, fr, 'binop')
            st.heap[(o, '[]')] = self.elements(a, st) | self.elements(b, st)
            return frozenset([o])
        return frozenset([IMM])

    def e_BoolOp(self, n, st, fr):
        out = set()
        for v in n.values:
            out |= self.ev(v, st, fr)
        return frozenset(out)

    def e_IfExp(self, n, st, fr):
        self.ev(n.test, st, fr)
        return self.ev(n.body, st, fr) | self.ev(n.orelse, st, fr)

    def e_Lambda(self, n, st, fr):
        return frozenset([UNK])

    def e_Starred(self, n, st, fr):
        return self.ev(n.value, st, fr)

    # -------------------------------------------------------------------- calls
    def e_Call(self, n, st, fr):
        args = [self.ev(a, st, fr) for a in n.args]
        kwargs = {k.arg: self.ev(k.value, st, fr) for k in n.keywords}
        # method call on a container / object
        if isinstance(n.func, ast.Attribute):
            base = self.ev(n.func.value, st, fr)
            name = n.func.attr
            funcs, ext, rest = [], [], set()
            for o in base:
                if o[0] == 'cls':
                    if self.method(o[1], name):
                        funcs.append(('func', o[1], name, None))
                    else:
                        ext.append('%s.%s' % (o[1], name))
                elif o[0] == 'glob':
                    ext.append('%s.%s' % (o[1], name))
                elif self.class_of(o) and self.method(self.class_of(o), name) and (o, name) not in st.heap:
                    funcs.append(('func', self.class_of(o), name, o))
                else:
                    rest.add(o)
            out = set()
            for c in funcs:
                out |= self.call_func(c, args, kwargs, st, fr, n)
            for nm in ext:
                self._ext(fr, n, nm, args + list(kwargs.values()))
                out.add(IMM if nm in self.pure_calls else UNK)
            if not rest:
                return frozenset(out) or frozenset([IMM])
            base = frozenset(rest)
            if (funcs or ext):
                # mixed receiver kinds: fall through for the container-like ones
                pass
            if name in MUTATORS:
                self._site(fr, n, 'inplace', '.%s() on %s' % (name, ast.unparse(n.func.value)), base)
                vals = set()
                for a in args:
                    vals |= a if name in ('append', 'insert', 'add') else self.elements(a, st)
                for o in base:
                    if o[0] == 'new':
                        st.heap[(o, '[]')] = st.heap.get((o, '[]'), frozenset()) | frozenset(vals)
                if name == 'pop':
                    return self.elements(base, st)
                return frozenset([IMM])
            if name == 'copy':
                o = self.new(n, fr, 'copy')
                st.heap[(o, '[]')] = self.elements(base, st)
                return frozenset([o])
            if name in PURE_METHODS or all(o == IMM for o in base):
                if name in ('get', 'index', 'pop'):
                    return self.elements(base, st)
                if name in ('keys', 'values', 'items', 'split'):
                    o = self.new(n, fr, name)
                    st.heap[(o, '[]')] = self.elements(base, st)
                    return frozenset([o])
                return frozenset([IMM])
            # unknown method on an object
            full = dotted(n.func) or ('<expr>.' + name)
            self._ext(fr, n, full, [base] + args + list(kwargs.values()))
            return frozenset([UNK])
        callee = self.ev(n.func, st, fr)
        out = set()
        for c in callee:
            if c[0] == 'cls':
                o = self.new(n, fr, c[1], cls=c[1])
                init = self.method(c[1], '__init__')
                if init:
                    self.call_func(('func', c[1], '__init__', o), args, kwargs, st, fr, n)
                out.add(o)
            elif c[0] == 'func':
                out |= self.call_func(c, args, kwargs, st, fr, n)
            elif c[0] == 'builtin':
                nm = c[1]
                if nm in FRESH_BUILTINS:
                    o = self.new(n, fr, nm)
                    vals = set()
                    for a in args:
                        vals |= self.elements(a, st)
                    st.heap[(o, '[]')] = frozenset(vals) or frozenset([IMM])
                    out.add(o)
                elif nm in PURE_BUILTINS:
                    out.add(IMM)
                elif nm in ('next', 'iter'):
                    out |= self.elements(args[0], st) if args else frozenset([UNK])
                else:
                    self._ext(fr, n, nm, args + list(kwargs.values()))
                    out.add(UNK)
            else:
                nm = dotted(n.func) or '<computed>'
                self._ext(fr, n, nm, args + list(kwargs.values()))
                out.add(UNK)
        return frozenset(out)

    def call_func(self, c, args, kwargs, st, fr, node):
        """c = ('func', class or None, name, bound self object or None)"""
        _, cn, name, bound = c
        if cn is None:
            fn, kind = self.funcs[name], 'function'
        else:
            fn, kind, cn = self.method(cn, name)
        ident = (cn, name)
        if len(self.stack) >= self.max_depth or ident in self.stack:
            self.problems.append('recursive / too deep call of %s.%s at line %d' % (cn, name, node.lineno))
            return frozenset([UNK])
        params = [a.arg for a in fn.args.posonlyargs + fn.args.args]
        actual = list(args)
        if kind == 'method':
            if bound is not None:
                actual = [frozenset([bound])] + actual
        elif kind == 'classmethod':
            actual = [frozenset([('cls', cn)])] + actual
        # ordinal of this call site among the calls of `name` in the caller
        k = fr.ord.setdefault(('call', name), {})
        if id(node) not in k:
            k[id(node)] = len(k) + 1
        ctx = fr.ctx + ('%s#%d' % (name, k[id(node)]),)
        nf = _Frame(fn, cn, ctx)
        env = {}
        defaults = fn.args.defaults
        first_default = len(params) - len(defaults)
        for i, p in enumerate(params):
            if i < len(actual):
                env[p] = actual[i]
            elif p in kwargs:
                env[p] = kwargs[p]
            elif i >= first_default:
                env[p] = frozenset([IMM])
            else:
                env[p] = frozenset([UNK])
        saved_env = st.env
        st.env = env
        self.stack.append(ident)
        self.visited_funcs.add('%s%s' % ((cn + '.') if cn else '', name))
        end = self.block(source.strip_docstring(fn.body), st, nf)
        self.stack.pop()
        final = _St.join(end, nf.ret_state)
        if final is not None:
            st.heap = final.heap
        st.env = saved_env
        if final is None:
            # the callee always raises
            st.heap = st.heap
            return frozenset([IMM])
        ret = nf.ret
        if end is not None:
            ret = ret | frozenset([IMM])
        return ret

    # --------------------------------------------------------------- statements
    def assign(self, tgt, val, st, fr, stmt):
        if isinstance(tgt, ast.Name):
            st.env[tgt.id] = val
        elif isinstance(tgt, (ast.Tuple, ast.List)):
            el = self.elements(val, st)
            for t in tgt.elts:
                self.assign(t, el, st, fr, stmt)
        elif isinstance(tgt, ast.Attribute):
            base = self.ev(tgt.value, st, fr)
            self._site(fr, tgt, 'attr-store', '%s.%s = ...' % (ast.unparse(tgt.value), tgt.attr), base)
            self.store_field(base, tgt.attr, val, st, fr, stmt)
        elif isinstance(tgt, ast.Subscript):
            base = self.ev(tgt.value, st, fr)
            if not isinstance(tgt.slice, ast.Slice):
                self.ev(tgt.slice, st, fr)
            kind = 'slice-assign' if isinstance(tgt.slice, ast.Slice) else 'item-assign'
            self._site(fr, tgt, 'inplace', '%s on %s' % (kind, ast.unparse(tgt.value)), base)
            add = self.elements(val, st) if isinstance(tgt.slice, ast.Slice) else val
            for o in base:
                if o[0] == 'new':
                    st.heap[(o, '[]')] = st.heap.get((o, '[]'), frozenset()) | add
        elif isinstance(tgt, ast.Starred):
            self.assign(tgt.value, val, st, fr, stmt)

    def block(self, stmts, st, fr):
        for s in stmts:
            if st is None:
                return None
            st = self.stmt(s, st, fr)
            if st is not None:
                for col in fr.try_collect:
                    col.append(st.copy())
        return st

    def stmt(self, s, st, fr):
        if isinstance(s, ast.Assign):
            v = self.ev(s.value, st, fr)
            for t in s.targets:
                self.assign(t, v, st, fr, s)
            return st
        if isinstance(s, ast.AnnAssign):
            if s.value is not None:
                self.assign(s.target, self.ev(s.value, st, fr), st, fr, s)
            return st
        if isinstance(s, ast.AugAssign):
            v = self.ev(s.value, st, fr)
            load = ast.copy_location(_as_load(s.target), s.target)
            cur = self.ev(load, st, fr)
            if not all(o == IMM for o in cur):
                # x += y mutates x in place when x is a list / bytearray / set
                self._site(fr, s, 'inplace', 'augmented assignment on %s' % ast.unparse(s.target), cur)
                for o in cur:
                    if o[0] == 'new':
                        st.heap[(o, '[]')] = st.heap.get((o, '[]'), frozenset()) | self.elements(v, st)
            if isinstance(s.target, ast.Attribute):
                base = self.ev(s.target.value, st, fr)
                self._site(fr, s.target, 'attr-store', '%s.%s op= ...' % (ast.unparse(s.target.value), s.target.attr),
                           base)
                self.store_field(base, s.target.attr, cur, st, fr, s)
            elif isinstance(s.target, ast.Name):
                st.env[s.target.id] = cur
            return st
        if isinstance(s, ast.Expr):
            self.ev(s.value, st, fr)
            return st
        if isinstance(s, ast.Return):
            v = self.ev(s.value, st, fr) if s.value is not None else frozenset([IMM])
            fr.ret = fr.ret | v
            fr.ret_state = _St.join(fr.ret_state, st.copy())
            return None
        if isinstance(s, ast.Raise):
            if s.exc is not None:
                self.ev(s.exc, st, fr)
            return None
        if isinstance(s, ast.Delete):
            for t in s.targets:
                if isinstance(t, ast.Subscript):
                    base = self.ev(t.value, st, fr)
                    self._site(fr, t, 'inplace', 'del item of %s' % ast.unparse(t.value), base)
                elif isinstance(t, ast.Attribute):
                    base = self.ev(t.value, st, fr)
                    self._site(fr, t, 'attr-store', 'del %s.%s' % (ast.unparse(t.value), t.attr), base)
                elif isinstance(t, ast.Name):
                    st.env.pop(t.id, None)
            return st
        if isinstance(s, ast.If):
            self.ev(s.test, st, fr)
            a = self.block(s.body, st.copy(), fr)
            b = self.block(s.orelse, st.copy(), fr)
            return _St.join(a, b)
        if isinstance(s, (ast.For, ast.While)):
            cur = st
            if isinstance(s, ast.For):
                it = self.ev(s.iter, cur, fr)
            for _ in range(6):
                body = cur.copy()
                if isinstance(s, ast.For):
                    self.assign(s.target, self.elements(it, body), body, fr, s)
                else:
                    self.ev(s.test, body, fr)
                out = self.block(s.body, body, fr)
                nxt = _St.join(cur, out)
                if nxt.same(cur):
                    break
                cur = nxt
            if s.orelse:
                return self.block(s.orelse, cur, fr)
            return cur
        if isinstance(s, ast.Try):
            col = [st.copy()]
            fr.try_collect.append(col)
            end = self.block(s.body, st.copy(), fr)
            fr.try_collect.pop()
            exc_state = None
            for c in col:
                exc_state = _St.join(exc_state, c)
            outs = []
            if s.orelse and end is not None:
                end = self.block(s.orelse, end, fr)
            outs.append(end)
            for h in s.handlers:
                hs = exc_state.copy()
                if h.name:
                    hs.env[h.name] = frozenset([IMM])
                outs.append(self.block(h.body, hs, fr))
            res = None
            for o in outs:
                res = _St.join(res, o)
            if s.finalbody:
                if res is not None:
                    res = self.block(s.finalbody, res, fr)
                # also executed on the exceptional way out (effects only)
                self.block(s.finalbody, exc_state.copy(), fr)
            return res
        if isinstance(s, ast.With):
            for it in s.items:
                v = self.ev(it.context_expr, st, fr)
                if it.optional_vars is not None:
                    self.assign(it.optional_vars, v, st, fr, s)
            return self.block(s.body, st, fr)
        if isinstance(s, ast.Assert):
            self.ev(s.test, st, fr)
            return st
        if isinstance(s, (ast.Pass, ast.Break, ast.Continue, ast.Import, ast.ImportFrom, ast.Global, ast.Nonlocal)):
            return st
        if isinstance(s, (ast.FunctionDef, ast.ClassDef)):
            st.env[s.name] = frozenset([UNK])
            return st
        self.problems.append('statement %s at line %d not analysed' % (type(s).__name__, s.lineno))
        return st

    # ----------------------------------------------------------------- driver
    def run(self):
        fn = self.fs.node
        params = [a.arg for a in fn.args.posonlyargs + fn.args.args]
        st = _St()
        st.env[params[0]] = frozenset([('recv',)])
        for p in params[1:]:
            st.env[p] = frozenset([UNK])
        fr = _Frame(fn, self.fs.cls.__name__ if self.fs.cls else None, (fn.name,))
        self.stack.append((fr.cls, fn.name))
        self.visited_funcs.add('%s.%s' % (fr.cls, fn.name))
        end = self.block(source.strip_docstring(fn.body), st, fr)
        self.stack.pop()
        self.result_pts = fr.ret | (frozenset([IMM]) if end is not None else frozenset())
        self.result_state = _St.join(end, fr.ret_state)
        return self


def _as_load(t):
    import copy
    t2 = copy.copy(t)
    t2.ctx = ast.Load()
    return t2


def describe(o):
    if o[0] == 'recv':
        return 'self'
    if o[0] == 'rf':
        return 'self.%s' % o[1]
    if o[0] == 're':
        return '%s%s' % (describe(o[1]), '[*]' if o[2] == '[]' else '.' + o[2])
    if o[0] == 'new':
        return 'fresh(%s in %s)' % (o[1], '>'.join(o[2]))
    if o[0] == 'glob':
        return 'module-level %s' % o[1]
    if o[0] == 'ge':
        return 'element of module-level %s' % o[1]
    return o[0]


class FrameTask(AstTask):
    """O-frame for `qual`: no attribute of the receiver (or of anything
    reachable from it) is assigned, no container reachable from the receiver
    (or module-level container) is mutated in place."""

    def __init__(self, qual, prop, elem_types=None, pure_calls=(), name=None):
        short = qual.split(':')[-1]
        AstTask.__init__(self, name or 'frame[%s]' % short, prop, qual,
                         '%s assigns no attribute of its receiver and mutates no object reachable from it' % short)
        self.elem_types = elem_types or {}
        self.pure_calls = set(pure_calls)

    def run(self, reg, meta):
        an = FrameAnalysis(self.qual, self.elem_types, self.pure_calls).run()
        meta['paths'] = len(an.sites)
        meta['inlined'] = sorted(an.visited_funcs)
        self.analysis = an
        for p in an.problems:
            self.result('analysis:%s' % p[:60], 'frame-unsupported', Verdict.UNDECIDED, p)
        names = {}
        n_inplace = n_store = 0
        for key in an.site_order:
            e = an.sites[key]
            pts = e['pts']
            if e['kind'] == 'inplace' and pts and all(o == IMM for o in pts):
                continue            # arithmetic on immutable values
            ctx = '/'.join(e['ctx'])
            base = '%s:%s[%s]' % ('store' if e['kind'] == 'attr-store' else 'inplace', ctx, e['what'])
            names[base] = names.get(base, 0) + 1
            nm = base if names[base] == 1 else '%s#%d' % (base, names[base])
            if e['kind'] == 'inplace':
                n_inplace += 1
                goal = 'the mutated object is a fresh copy, not an alias of a receiver field'
            else:
                n_store += 1
                goal = 'the object whose attribute is assigned is not the receiver / reachable from it'
            bad = sorted(describe(o) for o in pts if reachable_from_receiver(o) or o[0] in ('glob', 'ge'))
            unk = [o for o in pts if o[0] == 'unk']
            model = {'line': e['line'], 'function': e['func'], 'source': e['src'], 'context': ctx,
                     'may_denote': sorted(describe(o) for o in pts)}
            if not bad and not unk:
                self.result(nm, 'frame-' + e['kind'], Verdict.PROVED, None, e['line'])
                continue
            if bad:
                # how the alias was created
                chain = []
                for (o, f), ents in an.prov.items():
                    for b in pts:
                        if b[0] == 'rf' and any(('self.%s' % b[1]) in x.split('=', 1)[-1] for x in ents):
                            chain.extend(ents)
                model['alias_created_at'] = sorted(set(chain))[:6]
                must = len(pts) == 1
                why = ('%s: line %d `%s` (reached via %s) mutates %s' if e['kind'] == 'inplace' else
                       '%s: line %d `%s` (reached via %s) assigns an attribute of %s') % \
                    (goal, e['line'], e['src'], ctx, ', '.join(bad))
                self.result(nm, 'frame-' + e['kind'], Verdict.REFUTED if must else Verdict.UNDECIDED, why, e['line'],
                            model=model)
            else:
                self.result(nm, 'frame-' + e['kind'], Verdict.UNDECIDED,
                            'target of line %d `%s` not resolved by the points-to analysis' % (e['line'], e['src']),
                            e['line'], model=model)
        # external calls that receive receiver-reachable (possibly mutable) arguments
        cn = {}
        for key, e in an.ext_calls.items():
            reach = sorted(describe(o) for o in e['args'] if reachable_from_receiver(o) or o[0] == 'glob')
            if not reach:
                continue
            base = 'call:%s[%s]' % ('/'.join(e['ctx']), e['name'])
            cn[base] = cn.get(base, 0) + 1
            nm = base if cn[base] == 1 else '%s#%d' % (base, cn[base])
            self.holds(nm + ':declared-pure', 'frame-call', e['name'] in self.pure_calls,
                       'line %d `%s` passes %s to %s, which is not analysed and not declared pure'
                       % (e['line'], e['src'], ', '.join(reach), e['name']), e['line'], undecided=True)
        # the result is a new object
        res = an.result_pts
        objs = [o for o in res if o != IMM]
        self.holds('result-is-a-new-object', 'frame-result',
                   bool(objs) and all(o[0] == 'new' and o[2] == (an.fs.node.name,) for o in objs),
                   'returned value may denote %s' % sorted(describe(o) for o in res))
        self.holds('mutation-sites-found', 'vacuity', n_inplace >= 1 and n_store >= 1,
                   'no in-place mutation / attribute store reached: analysis is vacuous')
        # informational: result fields that alias receiver fields (not an obligation of O-frame)
        aliased = []
        if an.result_state is not None:
            for o in objs:
                for (ob, f), vals in an.result_state.heap.items():
                    if ob == o and any(v[0] == 'rf' for v in vals):
                        aliased.append(f)
        meta['result_fields_aliasing_receiver'] = sorted(set(aliased))
