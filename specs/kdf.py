"""Executable specifications of the key-derivation functions (C09), written from the RFCs over
hashlib / hmac of the standard library, and the differential runs against the real tlslite functions.

  RFC 5246 section 5      P_hash, TLS 1.2 PRF                       ref_p_hash, ref_prf12
  RFC 2246 section 5      TLS 1.0/1.1 PRF (MD5/SHA-1 halves)        ref_prf10
  RFC 6101 6.1/6.2.2      SSLv3 key derivation ('A', 'BB', 'CCC')   ref_prf_ssl
  RFC 6101 5.2.3.1        SSLv3 MAC                                 ref_ssl3_mac
  RFC 6101 5.6.8/5.6.9    SSLv3 handshake digest                    ref_ssl3_digest
  RFC 5869 section 2.3    HKDF-Expand                               ref_hkdf_expand
  RFC 8446 section 7.1    HKDF-Expand-Label, Derive-Secret          ref_hkdf_expand_label, ref_derive_secret
  RFC 2104 section 2      HMAC                                      ref_hmac (own construction over hashlib)
  RFC 5246 6.3/7.4.9/8.1, RFC 7627 4   master secret, key block, Finished, extended master secret   ref_calc_key

Nothing here imports z3; tlslite is imported only inside the XCHECK functions.
"""
import hashlib
import hmac
import struct

HASHES = ('md5', 'sha1', 'sha224', 'sha256', 'sha384', 'sha512')


def _h(alg, data):
    try:
        return hashlib.new(alg, bytes(data)).digest()
    except ValueError:                                  # FIPS builds
        return hashlib.new(alg, bytes(data), usedforsecurity=False).digest()


def _hlen(alg):
    return len(_h(alg, b''))


def _blen(alg):
    return {'md5': 64, 'sha1': 64, 'sha224': 64, 'sha256': 64, 'sha384': 128, 'sha512': 128}[alg]


# --- RFC 2104 ---------------------------------------------------------------
def ref_hmac(alg, key, text):
    B = _blen(alg)
    key = bytes(key)
    if len(key) > B:
        key = _h(alg, key)
    k0 = key + b'\x00' * (B - len(key))
    ipad = bytes(x ^ 0x36 for x in k0)
    opad = bytes(x ^ 0x5c for x in k0)
    return _h(alg, opad + _h(alg, ipad + bytes(text)))


# --- RFC 5246 section 5 -------------------------------------------------------
def ref_p_hash(alg, secret, seed, length):
    """P_hash(secret, seed) = HMAC_hash(secret, A(1) + seed) + HMAC_hash(secret, A(2) + seed) + ...
    A(0) = seed, A(i) = HMAC_hash(secret, A(i-1)); truncated to `length` bytes."""
    secret, seed = bytes(secret), bytes(seed)
    a = seed
    out = b''
    while len(out) < length:
        a = ref_hmac(alg, secret, a)
        out += ref_hmac(alg, secret, a + seed)
    return out[:length]


def ref_prf12(alg, secret, label, seed, length):
    return ref_p_hash(alg, secret, bytes(label) + bytes(seed), length)


# --- RFC 2246 section 5 -------------------------------------------------------
def ref_prf10(secret, label, seed, length):
    """PRF(secret, label, seed) = P_MD5(S1, label + seed) XOR P_SHA-1(S2, label + seed);
    L_S1 = L_S2 = ceil(L_S / 2): S1 the first, S2 the last L_S1 bytes (they share a byte if L_S is odd)."""
    secret = bytes(secret)
    half = (len(secret) + 1) // 2
    s1 = secret[:half]
    s2 = secret[len(secret) - half:]
    ls = bytes(label) + bytes(seed)
    a = ref_p_hash('md5', s1, ls, length)
    b = ref_p_hash('sha1', s2, ls, length)
    return bytes(x ^ y for x, y in zip(a, b))


# --- RFC 6101 -----------------------------------------------------------------
def ref_prf_ssl(secret, seed, length):
    """key_block = MD5(secret + SHA('A' + secret + seed)) + MD5(secret + SHA('BB' + secret + seed)) + ... (26 blocks at most)"""
    secret, seed = bytes(secret), bytes(seed)
    out = b''
    for j in range(26):
        if len(out) >= length:
            break
        salt = bytes([ord('A') + j]) * (j + 1)
        out += _h('md5', secret + _h('sha1', salt + secret + seed))
    if length > len(out):
        raise ValueError('the SSLv3 construction defines only 26 blocks = 416 bytes')
    return out[:length]


def ref_ssl3_mac(alg, key, data):
    n = 48 if alg == 'md5' else 40
    key = bytes(key)
    return _h(alg, key + b'\x5c' * n + _h(alg, key + b'\x36' * n + bytes(data)))


def ref_ssl3_digest(transcript, master, sender):
    transcript, master, sender = bytes(transcript), bytes(master), bytes(sender)
    out = b''
    for alg, n in (('md5', 48), ('sha1', 40)):
        inner = _h(alg, transcript + sender + master + b'\x36' * n)
        out += _h(alg, master + b'\x5c' * n + inner)
    return out


# --- RFC 5869 / RFC 8446 -------------------------------------------------------
def ref_hkdf_expand(alg, prk, info, length):
    """T(0) = empty, T(i) = HMAC-Hash(PRK, T(i-1) | info | i); OKM = first L octets of T(1) | ... | T(N), L <= 255*HashLen"""
    n = _hlen(alg)
    if length > 255 * n:
        raise ValueError('L > 255*HashLen')
    t = b''
    okm = b''
    i = 0
    while len(okm) < length:
        i += 1
        t = ref_hmac(alg, prk, t + bytes(info) + bytes([i]))
        okm += t
    return okm[:length]


def ref_hkdf_label(length, label, context):
    label = b'tls13 ' + bytes(label)
    context = bytes(context)
    if len(label) > 255 or len(context) > 255 or not 0 <= length <= 0xffff:
        raise ValueError('HkdfLabel field does not fit')
    return struct.pack('>H', length) + bytes([len(label)]) + label + bytes([len(context)]) + context


def ref_hkdf_expand_label(alg, secret, label, context, length):
    return ref_hkdf_expand(alg, secret, ref_hkdf_label(length, label, context), length)


def ref_derive_secret(alg, secret, label, messages):
    """messages: the concatenated handshake messages, or None for the empty transcript"""
    return ref_hkdf_expand_label(alg, secret, label, _h(alg, messages or b''), _hlen(alg))


# --- calc_key table -------------------------------------------------------------
def _prf_hash_of_suite(suite):
    """RFC 5246 1.2 / RFC 5288 / 5289: suites named ..._SHA384 use P_SHA384, every other TLS 1.2 suite P_SHA256"""
    from tlslite.constants import CipherSuite
    name = CipherSuite.ietfNames.get(suite, '')
    return 'sha384' if name.endswith('SHA384') else 'sha256'


def ref_calc_key(version, secret, suite, label, transcript=None, client_random=None, server_random=None, n=None):
    label = bytes(label)
    if version == (3, 0):
        if label == b'client finished':
            return ref_ssl3_digest(transcript, secret, b'CLNT')
        if label == b'server finished':
            return ref_ssl3_digest(transcript, secret, b'SRVR')
        if label == b'key expansion':
            return ref_prf_ssl(secret, bytes(server_random) + bytes(client_random), n)
        if label == b'master secret':
            return ref_prf_ssl(secret, bytes(client_random) + bytes(server_random), n)
        raise AssertionError('no such SSLv3 derivation')
    if version in ((3, 1), (3, 2)):
        th = lambda: _h('md5', transcript) + _h('sha1', transcript)
        prf = ref_prf10
    elif version == (3, 3):
        alg = _prf_hash_of_suite(suite)
        th = lambda: _h(alg, transcript)
        prf = lambda s, l, sd, k: ref_prf12(alg, s, l, sd, k)
    else:
        raise AssertionError('unknown version')
    if label in (b'client finished', b'server finished', b'extended master secret'):
        seed = th()
    elif label == b'key expansion':
        seed = bytes(server_random) + bytes(client_random)
    elif label == b'master secret':
        seed = bytes(client_random) + bytes(server_random)
    else:
        raise AssertionError('unknown label')
    return prf(secret, label, seed, n)


# =================================================================================
# differential runs

def _rb(rng, n):
    return bytes(rng.randrange(256) for _ in range(n))


class _Run(object):
    def __init__(self, default_class):
        self.evals = 0
        self.seen = set()
        self.fails = []
        self.default_class = default_class

    def check(self, what, real, want, key, inputs, cls=None):
        """real / want: thunks.  An exception of the reference means 'outside the specified domain'."""
        self.evals += 1
        try:
            w = want()
        except (ValueError, AssertionError) as e:
            w = ('raises', type(e).__name__)
        try:
            g = real()
            g = bytes(g) if isinstance(g, (bytes, bytearray)) else g
        except Exception as e:          # noqa
            g = ('raises', type(e).__name__)
            gmsg = '%s: %s' % (type(e).__name__, e)
        else:
            gmsg = None
        self.seen.add(key)
        c_ = cls or self.default_class
        if g != w and sum(1 for f in self.fails if f['class'] == c_) < 3:      # at most 3 inputs per failure class
            show = lambda v: v.hex()[:80] if isinstance(v, bytes) else repr(v)
            self.fails.append({'class': c_,
                               'what': '%s: real %s, specification %s' % (what, gmsg or show(g), show(w)),
                               'input': inputs})

    def result(self, bound, rule):
        return {'evaluations': self.evals, 'distinct_nontrivial': len(self.seen), 'bound': bound, 'rule': rule,
                'failures': self.fails}


def _lengths_around(ds, extra=()):
    s = {0, 1, 2, ds - 1, ds, ds + 1, 2 * ds - 1, 2 * ds, 2 * ds + 1, 3 * ds, 5 * ds + 3, 12, 48, 104, 136}
    s.update(extra)
    return sorted(x for x in s if x >= 0)


def xcheck_p_hash(rng, n):
    from tlslite.mathtls import P_hash, PRF, PRF_1_2, PRF_1_2_SHA384
    r = _Run('p-hash-disagrees')
    secret_lens = [0, 1, 2, 15, 16, 17, 20, 31, 32, 47, 48, 49, 63, 64, 65, 127, 128, 129, 200]
    cases = []
    for alg in ('md5', 'sha1', 'sha256', 'sha384'):
        ds = _hlen(alg)
        for L in _lengths_around(ds, [255 * ds + 1] if alg == 'md5' else []):
            for sl in secret_lens:
                cases.append((alg, L, sl))
    rng.shuffle(cases)
    for (alg, L, sl) in cases[:max(50, n)]:
        secret, seed = _rb(rng, sl), _rb(rng, rng.choice([0, 1, 13, 32, 64, 77]))
        r.check('P_hash(%s, |secret|=%d, length=%d)' % (alg, sl, L),
                lambda: P_hash(alg, bytearray(secret), bytearray(seed), L),
                lambda: ref_p_hash(alg, secret, seed, L),
                ('p', alg, L, sl > _blen(alg), sl == 0),
                {'alg': alg, 'secret': secret.hex(), 'seed': seed.hex(), 'length': L})
    # PRFs: odd / even / empty secrets, lengths 0.. around the block sizes
    pc = []
    for sl in [0, 1, 2, 3, 47, 48, 49, 96, 97]:
        for L in [0, 1, 12, 15, 16, 17, 19, 20, 21, 32, 40, 48, 72, 104, 136]:
            pc.append((sl, L))
    rng.shuffle(pc)
    for (sl, L) in pc[:max(30, n // 2)]:
        secret, label, seed = _rb(rng, sl), rng.choice([b'master secret', b'key expansion', b'client finished', b'', b'x']), \
            _rb(rng, rng.choice([0, 32, 64]))
        inp = {'secret': secret.hex(), 'label': label.decode(), 'seed': seed.hex(), 'length': L}
        r.check('PRF(|secret|=%d, length=%d)' % (sl, L), lambda: PRF(bytearray(secret), label, bytearray(seed), L),
                lambda: ref_prf10(secret, label, seed, L), ('prf10', sl % 2, L, sl == 0), inp, 'prf-tls10-disagrees')
        r.check('PRF_1_2', lambda: PRF_1_2(bytearray(secret), label, bytearray(seed), L),
                lambda: ref_prf12('sha256', secret, label, seed, L), ('prf12', L, sl == 0), inp, 'prf-tls12-disagrees')
        r.check('PRF_1_2_SHA384', lambda: PRF_1_2_SHA384(bytearray(secret), label, bytearray(seed), L),
                lambda: ref_prf12('sha384', secret, label, seed, L), ('prf12-384', L, sl == 0), inp, 'prf-tls12-disagrees')
    return r.result('4 hashes; output lengths 0..5*HashLen+3 and 255*16+1; secrets 0..200 bytes (incl. longer than the HMAC block); '
                    'PRF secrets of odd and even length', 'distinct (function, hash, length, secret-class)')


def xcheck_prf_ssl(rng, n):
    from tlslite.mathtls import PRF_SSL
    r = _Run('prf-ssl-disagrees')
    lens = list(range(0, 52)) + [63, 64, 65, 104, 136, 255, 256, 399, 400, 401, 415, 416]
    for L in lens:
        for sl in (0, 1, 48):
            secret, seed = _rb(rng, sl), _rb(rng, rng.choice([0, 64]))
            r.check('PRF_SSL(length=%d)' % L, lambda: PRF_SSL(bytearray(secret), bytearray(seed), L),
                    lambda: ref_prf_ssl(secret, seed, L), ('ssl', L, sl),
                    {'secret': secret.hex(), 'seed': seed.hex(), 'length': L})
    return r.result('every length 0..51, block edges up to the 416-byte maximum of the construction; secrets of 0, 1, 48 bytes',
                    'distinct (length, secret length)')


def xcheck_hkdf(rng, n):
    from tlslite.utils.cryptomath import HKDF_expand, secureHMAC, secureHash
    r = _Run('hkdf-expand-disagrees')
    for alg in ('sha256', 'sha384'):
        ds = _hlen(alg)
        Ls = _lengths_around(ds, [253 * ds, 254 * ds - 1, 254 * ds, 254 * ds + 1, 254 * ds + ds // 2, 255 * ds - 1, 255 * ds])
        for L in Ls:
            for kl in (0, 1, ds, 2 * ds + 1, 200):
                prk, info = _rb(rng, kl), _rb(rng, rng.choice([0, 1, 10, 60]))
                cls = 'hkdf-expand-max-length' if 254 * ds < L <= 255 * ds else None
                r.check('HKDF_expand(%s, L=%d) [255*HashLen = %d]' % (alg, L, 255 * ds),
                        lambda: HKDF_expand(bytearray(prk), bytearray(info), L, alg),
                        lambda: ref_hkdf_expand(alg, prk, info, L), ('hkdf', alg, L, kl > _blen(alg)),
                        {'algorithm': alg, 'PRK': prk.hex(), 'info': info.hex(), 'L': L}, cls)
    for alg in HASHES:
        for kl in (0, 1, 63, 64, 65, 127, 128, 129, 300):
            k, m = _rb(rng, kl), _rb(rng, rng.choice([0, 1, 55, 56, 64, 119, 120, 500]))
            r.check('secureHMAC(%s)' % alg, lambda: secureHMAC(bytearray(k), bytearray(m), alg), lambda: ref_hmac(alg, k, m),
                    ('hmac', alg, kl), {'algorithm': alg, 'k': k.hex(), 'b': m.hex()}, 'secure-hmac-disagrees')
            r.check('secureHash(%s)' % alg, lambda: secureHash(bytearray(m), alg), lambda: _h(alg, m),
                    ('hash', alg, len(m)), {'algorithm': alg, 'data': m.hex()}, 'secure-hash-disagrees')
    return r.result('sha256/sha384; L in {0,1,2, k*HashLen-1..+1, 253..255*HashLen and neighbours}; PRK 0..200 bytes; secureHMAC/'
                    'secureHash for 6 hashes and keys around the block size', 'distinct (function, hash, L / key length)')


def xcheck_hkdf_label(rng, n):
    from tlslite.utils.cryptomath import HKDF_expand_label, derive_secret
    from tlslite.handshakehashes import HandshakeHashes
    r = _Run('hkdf-expand-label-disagrees')
    labels = [b'', b'key', b'iv', b'finished', b'c hs traffic', b'traffic upd', b'x' * 248, b'x' * 249, b'x' * 250, b'y' * 300]
    for alg in ('sha256', 'sha384'):
        ds = _hlen(alg)
        for label in labels:
            for cl in (0, 1, ds, 255, 256):
                for L in (0, 1, 12, 16, ds, ds + 1, 3 * ds + 5, 254 * ds):
                    if r.evals > max(400, 2 * n):
                        break
                    secret, ctx = _rb(rng, ds), _rb(rng, cl)
                    r.check('HKDF_expand_label(%s, |label|=%d, |context|=%d, length=%d)' % (alg, len(label), cl, L),
                            lambda: HKDF_expand_label(bytearray(secret), bytearray(label), bytearray(ctx), L, alg),
                            lambda: ref_hkdf_expand_label(alg, secret, label, ctx, L),
                            ('hel', alg, len(label), cl, L),
                            {'algorithm': alg, 'secret': secret.hex(), 'label': label.decode(), 'hashValue': ctx.hex(), 'length': L})
        for label in labels:
            for msgs in (None, b'', b'hello', _rb(rng, 300)):
                secret = _rb(rng, rng.choice([0, ds]))
                hh = None
                if msgs is not None:
                    hh = HandshakeHashes()
                    hh.update(bytearray(msgs[:3]))
                    hh.update(bytearray(msgs[3:]))
                r.check('derive_secret(%s, |label|=%d)' % (alg, len(label)),
                        lambda: derive_secret(bytearray(secret), bytearray(label), hh, alg),
                        lambda: ref_derive_secret(alg, secret, label, msgs), ('ds', alg, len(label), msgs is None),
                        {'algorithm': alg, 'secret': secret.hex(), 'label': label.decode(),
                         'messages': None if msgs is None else msgs.hex()}, 'derive-secret-disagrees')
    return r.result('sha256/sha384; labels 0..300 bytes (limit 249), contexts 0..256 bytes (limit 255), lengths 0..254*HashLen',
                    'distinct (function, hash, label length, context length, length)')


def xcheck_calc_key(rng, n):
    import warnings
    from tlslite.mathtls import calc_key, calcMasterSecret, calcExtendedMasterSecret, calcFinished
    from tlslite.handshakehashes import HandshakeHashes
    from tlslite.constants import CipherSuite
    r = _Run('calc-key-disagrees')
    suites = sorted(CipherSuite.ietfNames)
    s384 = [s for s in suites if CipherSuite.ietfNames[s].endswith('SHA384')]
    labels = [b'client finished', b'server finished', b'key expansion', b'master secret', b'extended master secret']
    versions = [(3, 0), (3, 1), (3, 2), (3, 3)]
    cases = []
    for v in versions:
        for lab in labels:
            for suite in ([rng.choice(suites), rng.choice(s384), suites[0]] if v == (3, 3) else [rng.choice(suites)]):
                for sl in (0, 47, 48):
                    cases.append((v, lab, suite, sl))
    for s in suites:                                       # every registered suite once, TLS 1.2 key expansion
        cases.append(((3, 3), b'key expansion', s, 48))
    rng.shuffle(cases)
    for (v, lab, suite, sl) in cases[:max(150, n)]:
        secret, cr, sr, msgs = _rb(rng, sl), _rb(rng, 32), _rb(rng, 32), _rb(rng, rng.choice([0, 1, 200]))
        nout = 12 if b'finished' in lab else (48 if b'master' in lab else rng.choice([0, 40, 72, 104, 136]))
        hh = HandshakeHashes()
        hh.update(bytearray(msgs))
        inp = {'version': list(v), 'label': lab.decode(), 'cipher_suite': suite, 'secret': secret.hex(),
               'client_random': cr.hex(), 'server_random': sr.hex(), 'messages': msgs.hex(), 'output_length': nout}
        if v == (3, 0) and b'finished' in lab:
            nout_ref = None
        r.check('calc_key(%s, %r, suite 0x%04x)' % (v, lab, suite),
                lambda: calc_key(v, bytearray(secret), suite, lab, handshake_hashes=hh, client_random=bytearray(cr),
                                 server_random=bytearray(sr), output_length=nout),
                lambda: ref_calc_key(v, secret, suite, lab, msgs, cr, sr, nout),
                ('ck', v, lab, suite in s384, sl), inp)
        with warnings.catch_warnings():
            warnings.simplefilter('ignore')
            if lab == b'master secret':
                r.check('calcMasterSecret(%s)' % (v,),
                        lambda: calcMasterSecret(v, suite, bytearray(secret), bytearray(cr), bytearray(sr)),
                        lambda: ref_calc_key(v, secret, suite, lab, None, cr, sr, 48), ('cms', v, suite in s384), inp,
                        'calc-master-secret-disagrees')
            if lab == b'extended master secret' and v != (3, 0):
                r.check('calcExtendedMasterSecret(%s)' % (v,),
                        lambda: calcExtendedMasterSecret(v, suite, bytearray(secret), hh),
                        lambda: ref_calc_key(v, secret, suite, lab, msgs, None, None, 48), ('cems', v, suite in s384), inp,
                        'calc-ems-disagrees')
            if b'finished' in lab:
                r.check('calcFinished(%s, %r)' % (v, lab),
                        lambda: calcFinished(v, bytearray(secret), suite, hh, lab == b'client finished'),
                        lambda: ref_calc_key(v, secret, suite, lab, msgs, None, None, 12), ('cfin', v, lab, suite in s384), inp,
                        'calc-finished-disagrees')
    return r.result('4 versions x 5 labels x (random suites + every registered suite for TLS 1.2 key expansion); secrets 0/47/48 bytes',
                    'distinct (function, version, label, PRF hash class, secret length)')


def _fallback_hmac_class():
    """The fallback class of tlslite/utils/tlshmac.py, built from the source text when the interpreter's hmac works."""
    import ast
    import tlslite.utils.tlshmac as T
    import hmac as pyhmac
    if T.HMAC is not pyhmac.HMAC:
        return T.HMAC
    path = T.__file__
    with open(path) as f:
        tree = ast.parse(f.read(), path)
    node = [x for x in ast.walk(tree) if isinstance(x, ast.ClassDef) and x.name == 'HMAC'][0]
    ns = {k: v for k, v in T.__dict__.items() if k not in ('HMAC', 'new')}
    exec(compile(ast.Module(body=[node], type_ignores=[]), path, 'exec'), ns)
    return ns['HMAC']


def xcheck_macs(rng, n):
    from tlslite.mathtls import createMAC_SSL, createHMAC
    from tlslite.handshakehashes import HandshakeHashes
    from tlslite.utils import tlshashlib
    r = _Run('mac-ssl-disagrees')
    F = _fallback_hmac_class()
    for alg in ('md5', 'sha1'):
        for kl in (0, 1, 16, 20, 48, 64, 100):
            for parts in ([], [b''], [b'a'], [_rb(rng, 13), _rb(rng, 500)]):
                key = _rb(rng, kl)

                def real():
                    m = createMAC_SSL(bytearray(key), digestmod=getattr(tlshashlib, alg))
                    c = m.copy()
                    for p in parts:
                        c.update(p)
                    first = bytes(c.digest())
                    assert bytes(c.digest()) == first and bytes(m.digest()) == ref_ssl3_mac(alg, key, b''), 'state disturbed'
                    return first
                r.check('MAC_SSL(%s, |key|=%d)' % (alg, kl), real, lambda: ref_ssl3_mac(alg, key, b''.join(parts)),
                        ('macssl', alg, kl, len(parts)), {'alg': alg, 'key': key.hex(), 'parts': [p.hex() for p in parts]})
    for kl in (0, 16, 48):
        for msgs in (b'', _rb(rng, 77)):
            for sender in (b'CLNT', b'SRVR', b''):
                ms = _rb(rng, kl)
                hh = HandshakeHashes()
                hh.update(bytearray(msgs))

                def real():
                    d = bytes(hh.digestSSL(bytearray(ms), bytearray(sender)))
                    assert bytes(hh.digest('md5')) == _h('md5', msgs) and bytes(hh.digest('sha1')) == _h('sha1', msgs), 'state disturbed'
                    return d
                r.check('digestSSL', real, lambda: ref_ssl3_digest(msgs, ms, sender), ('dssl', kl, len(msgs), sender),
                        {'masterSecret': ms.hex(), 'label': sender.decode(), 'messages': msgs.hex()}, 'digest-ssl-disagrees')
    for alg in ('md5', 'sha1', 'sha256', 'sha384'):
        B = _blen(alg)
        for kl in (0, 1, B - 1, B, B + 1, 2 * B + 3):
            for m0 in (None, b'', b'prefix'):
                for parts in ([], [b'x'], [_rb(rng, 70), _rb(rng, 200)]):
                    key = _rb(rng, kl)
                    text = (m0 or b'') + b''.join(parts)

                    def real_f(dm):
                        def f():
                            o = F(bytearray(key), None if m0 is None else bytearray(m0), dm)
                            c = o.copy()
                            for p in parts:
                                c.update(bytearray(p))
                            d = bytes(c.digest())
                            assert bytes(o.digest()) == ref_hmac(alg, key, m0 or b''), 'state disturbed'
                            assert c.digest_size == _hlen(alg) and c.block_size == B
                            return d
                        return f
                    for tag, dm in (('name', alg), ('ctor', getattr(tlshashlib, alg)), ('obj', tlshashlib.new(alg))):
                        r.check('fallback HMAC(%s via %s, |key|=%d)' % (alg, tag, kl), real_f(dm), lambda: ref_hmac(alg, key, text),
                                ('fh', alg, tag, kl, m0 is None, len(parts)),
                                {'alg': alg, 'digestmod': tag, 'key': key.hex(), 'msg': None if m0 is None else m0.hex(),
                                 'parts': [p.hex() for p in parts]}, 'fallback-hmac-disagrees')
            key, m = _rb(rng, kl), _rb(rng, 90)

            def real_c():
                h = createHMAC(bytearray(key), digestmod=getattr(tlshashlib, alg))
                assert h.digest_size == _hlen(alg) and h.block_size == B
                h.update(m)
                return bytes(h.digest())
            r.check('createHMAC(%s)' % alg, real_c, lambda: ref_hmac(alg, key, m), ('ch', alg, kl),
                    {'alg': alg, 'key': key.hex(), 'data': m.hex()}, 'create-hmac-disagrees')
    # independent anchor: the reference HMAC itself against the standard library
    for alg in HASHES:
        for kl in (0, 1, 64, 65, 128, 129, 300):
            k, m = _rb(rng, kl), _rb(rng, 100)
            r.check('reference HMAC vs stdlib hmac (%s)' % alg, lambda: ref_hmac(alg, k, m),
                    lambda: hmac.new(k, m, alg).digest(), ('anchor', alg, kl), {'alg': alg, 'k': k.hex(), 'm': m.hex()},
                    'reference-hmac-anchor')
    return r.result('SSLv3 MAC md5/sha1 with keys 0..100 bytes and 0..2 updates through copy(); digestSSL; fallback HMAC class for 4 hashes, '
                    'keys below/at/above the block size, 3 digestmod forms, optional msg, copy/update; createHMAC',
                    'distinct (object, hash, key length, shape of the call sequence)')


XCHECKS = {'p_hash': xcheck_p_hash, 'prf_ssl': xcheck_prf_ssl, 'hkdf_expand': xcheck_hkdf, 'hkdf_label': xcheck_hkdf_label,
           'calc_key': xcheck_calc_key, 'macs': xcheck_macs}
