"""End-to-end: TLS 1.3, after the handshake the server's transport starts failing (EPIPE) while an application-data record
from the client is pending.  A post-handshake *handshake-type* send (KeyUpdate / CertificateRequest) swallows the error."""
import socket, sys, threading
sys.path.insert(0, '/repo')
from tlslite import TLSConnection, HandshakeSettings

class FaultySock(object):
    def __init__(self, s): self.s = s; self.broken = False
    def send(self, d):
        if self.broken: raise socket.error(32, 'Broken pipe')
        return self.s.send(d)
    def sendall(self, d):
        if self.broken: raise socket.error(32, 'Broken pipe')
        return self.s.sendall(d)
    def recv(self, n): return self.s.recv(n)
    def close(self): self.s.close()
    def __getattr__(self, n): return getattr(self.s, n)

def run(op):
    a, b = socket.socketpair()
    psk = [(b'client-1', b'\x42' * 32, 'sha256')]
    res = {}
    def client():
        c = TLSConnection(a)
        hs = HandshakeSettings(); hs.pskConfigs = psk; hs.minVersion = (3, 4)
        c.handshakeClientCert(settings=hs)
        c.write(b'hello')
        res['client_done'] = True
    t = threading.Thread(target=client); t.start()
    fs = FaultySock(b)
    s = TLSConnection(fs)
    hs = HandshakeSettings(); hs.pskConfigs = psk; hs.minVersion = (3, 4)
    s.handshakeServer(settings=hs)
    t.join()
    import time; time.sleep(0.2)
    fs.broken = True                      # the peer is gone: every further send fails
    try:
        if op == 'keyupdate':
            for _ in s.send_keyupdate_request(0): pass
        elif op == 'write':
            s.write(b'x')
        print(op, ': returned normally; closed =', s.closed, 'resumable =', s.session.resumable)
    except Exception as e:
        print(op, ': raised', type(e).__name__, e, '; closed =', s.closed)
    try:
        d = s.read(5)
        print(op, ': subsequent read() ->', repr(d), '(no exception: looks like an orderly end of data; the 5 pending bytes are gone)')
    except Exception as e:
        print(op, ': subsequent read() raised', type(e).__name__, e)
    a.close()

run('keyupdate')
run('write')
