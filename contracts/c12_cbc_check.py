"""C12 -- ct_check_cbc_mac_and_pad accepts exactly the well-formed bodies.

Contracts on tlslite/utils/constanttime.py.  The ct_* helpers are verified in
bit-vector mode against their arithmetic meaning; the main function is verified
in Int mode (helpers by contract, HMAC uninterpreted) against the plain
specification written from the property statement.
"""
import z3

from pyvc.contract import contract, LoopSpec
from pyvc.state import T
from pyvc import spec as S
from pyvc.values import VInt, VBool

CT = 'tlslite/utils/constanttime.py:'
U32 = (1 << 32)


def _u32(*names):
    def req(ns):
        return S.And(*[(getattr(ns, n) >= 0) & (getattr(ns, n) < U32) for n in names])
    return req


def _bit_is(ns, cond):
    return S.iff(ns.result == 1, cond) & S.Or(ns.result == 0, ns.result == 1)


for _name, _rel in (('ct_lt_u32', lambda a, b: a < b), ('ct_gt_u32', lambda a, b: a > b),
                    ('ct_le_u32', lambda a, b: a <= b), ('ct_neq_u32', lambda a, b: a != b),
                    ('ct_eq_u32', lambda a, b: a == b)):
    contract(CT + _name, params={'val_a': T.int(), 'val_b': T.int()}, mode='bv', width=40,
             requires=_u32('val_a', 'val_b'), result=T.int(),
             ensures=(lambda rel: lambda ns: _bit_is(ns, rel(ns.val_a, ns.val_b)))(_rel),
             prop='C12', doc='%s(a,b) == 1 iff the relation holds on [0,2^32), else 0' % _name)

contract(CT + 'ct_isnonzero_u32', params={'val': T.int()}, mode='bv', width=40, requires=_u32('val'),
         result=T.int(), ensures=lambda ns: _bit_is(ns, ns.val != 0), prop='C12')

contract(CT + 'ct_lsb_prop_u8', params={'val': T.int()}, mode='bv', width=40, requires=_u32('val'),
         result=T.int(),
         ensures=lambda ns: S.iff(ns.result == 255, (ns.val & 1) == 1) & S.Or(ns.result == 0, ns.result == 255),
         prop='C12')

contract(CT + 'ct_lsb_prop_u16', params={'val': T.int()}, mode='bv', width=40, requires=_u32('val'),
         result=T.int(),
         ensures=lambda ns: S.iff(ns.result == 65535, (ns.val & 1) == 1) & S.Or(ns.result == 0, ns.result == 65535),
         prop=('C12', 'C11'))


# ---------------------------------------------------------------------------
# plain specification (from the property statement / RFC 5246 6.2.3.2, RFC 6101 5.2.3.2)

def spec_ok_vals(data, key, ds, seqnumBytes, contentType, version, block_size):
    """Plain specification: `data` ends in a padding the version allows,
    preceded by the correct MAC (keyed by `key`, `ds` bytes) of the rest."""
    L = S.len_(data)
    p = data[L - 1]
    ms = L - 1 - p - ds                       # where the MAC starts if the body is well formed
    is_ssl3 = (version == (3, 0))
    pad_ok = S.ite(is_ssl3,
                   p <= block_size,                                       # SSLv3: at most one block
                   S.forall(lambda k: data[k] == p, L - 1 - p, L - 1))    # TLS: all pad bytes equal p
    hdr_tls = S.cat(seqnumBytes, S.byte(contentType), S.byte(version[0]), S.byte(version[1]),
                    S.byte(ms / 256), S.byte(ms % 256), data[0:ms])
    hdr_ssl = S.cat(seqnumBytes, S.byte(contentType), S.byte(ms / 256), S.byte(ms % 256), data[0:ms])
    tag_tls = S.mac_digest(key, hdr_tls)
    tag_ssl = S.mac_digest(key, hdr_ssl)
    mac_ok = S.ite(is_ssl3,
                   S.forall(lambda j: data[ms + j] == tag_ssl[j], 0, ds),
                   S.forall(lambda j: data[ms + j] == tag_tls[j], 0, ds))
    return S.And(L >= ds + 1, p + 1 + ds <= L, pad_ok, mac_ok)


def spec_ok(ns):
    return spec_ok_vals(ns.data, ns.f(ns.mac, 'key'), ns.f(ns.mac, 'digest_size'), ns.seqnumBytes,
                        ns.contentType, ns.version, ns.block_size)


def _div(a, b):
    return VInt(a.t / (b.t if hasattr(b, 't') else b))


VInt.__truediv__ = lambda self, o: VInt(self.t / (o.t if hasattr(o, 't') else o))


def req_main(ns):
    mac = ns.mac
    ds = ns.f(mac, 'digest_size')
    bs = ns.f(mac, 'block_size')
    return S.And(S.Or(ns.version == (3, 0), ns.version == (3, 1), ns.version == (3, 2), ns.version == (3, 3)),
                 ns.contentType >= 0, ns.contentType < 256,
                 S.len_(ns.data) < 65536,
                 ds >= 1, ds <= 64, bs >= 1, bs <= 256,
                 ns.block_size >= 1, ns.block_size <= 256,
                 )


def inv_pad(ns):
    # loop 1 (TLS padding scan): for i in range(start_pos, data_len)
    d = ns.data
    r0 = ns.old.result
    return S.And(ns.result >= 0, ns.result < 256,
                 S.iff(ns.result == 0,
                       S.And(r0 == 0,
                             S.forall(lambda k: S.implies(k >= ns.pad_start, d[k] == ns.pad_length),
                                      ns.start_pos, ns.idx))))


def _macmatch(ns):
    d = ns.data
    key = ns.f(ns.mac, 'key')
    fed = ns.f(ns.data_mac, 'fed')
    tag = S.mac_digest(key, S.cat(fed, d[ns.start_pos:ns.mac_start]))
    ds = ns.f(ns.mac, 'digest_size')
    return S.forall(lambda j: d[ns.mac_start + j] == tag[j], 0, ds)


def inv_mac(ns):
    # loop 2: for i in range(start_pos, end_pos)
    r0 = ns.old.result
    return S.And(ns.result >= 0, ns.result < 256,
                 S.iff(ns.result == 0,
                       S.And(r0 == 0, S.implies(S.And(ns.start_pos <= ns.mac_start, ns.mac_start < ns.idx),
                                                _macmatch(ns)))))


def inv_cmp(ns):
    # loop 3 (inner): for j in range(0, mac.digest_size)
    r0 = ns.old.result
    d = ns.data
    return S.And(ns.result >= 0, ns.result < 256,
                 S.iff(ns.result == 0,
                       S.And(r0 == 0,
                             S.implies(ns.mask == 255,
                                       S.forall(lambda k: d[ns.i + k] == ns.mac_compare[k], 0, ns.idx)))))


MAIN = contract(
    CT + 'ct_check_cbc_mac_and_pad',
    params={'data': T.bytes(), 'mac': T.mac(), 'seqnumBytes': T.bytes(), 'contentType': T.int(),
            'version': T.tuple(T.int(), T.int()), 'block_size': T.int()},
    requires=req_main,
    result=T.bool(),
    ensures=lambda ns: S.iff(ns.result, spec_ok(ns.old)),
    raises={},
    loops={1: LoopSpec(inv_pad, fingerprint='start_pos, data_len'),
           2: LoopSpec(inv_mac, fingerprint='start_pos, end_pos'),
           3: LoopSpec(inv_cmp, fingerprint='mac.digest_size')},
    prop=('C12', 'C01', 'C02'),
    doc='returns True exactly when the body ends in an allowed padding preceded by the correct MAC',
)

from pyvc.contract import REG
REG.xchecks.append({'prop': 'C12', 'module': 'specs.c12', 'name': 'cbc_check',
                    'function': CT + 'ct_check_cbc_mac_and_pad'})
REG.note('C12', 'trusted', 'HMAC / SSLv3-MAC objects modelled as (key, bytes fed) with digest() = uninterpreted Hmac(key, fed) of length digest_size')
REG.note('C12', 'trusted', 'compatHMAC(x) == bytes(x) (identity on content), inlined from tlslite/utils/compat.py')
REG.note('C12', 'trusted', 'pyvc engine: AST->SMT encoding of Python ints as mathematical integers, bytearray as axiomatised integer sequences')
REG.note('C12', 'assumptions', 'requires: version in SSLv3..TLS1.2, 0<=contentType<256, len(data)<65536, 1<=digest_size<=64, 1<=mac.block_size<=256, 1<=block_size<=256, mac not yet fed')
REG.note('C12', 'assumptions', '"at most one block" in SSLv3 is read as pad_length <= block_size (pad length excludes the length byte), in parallel with "any length 0-255" for TLS')
