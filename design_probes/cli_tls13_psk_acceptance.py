"""TLS 1.3 client, PSK acceptance (RFC 8446 4.2.11 / 4.2.9; DESIGN.md F11).
 unoffered : rogue ServerHello selects PSK identity 0 although the client offered no pre_shared_key
             -> MUST abort with illegal_parameter; observed: AttributeError, no alert
 range     : client offers one external PSK, ServerHello selects identity 7 -> IndexError, no alert
 psk_ke    : client offers ONLY psk_dhe_ke; the server answers with PSK-only key exchange (no key_share)
             -> the client completes a handshake without (EC)DHE although its settings exclude psk_ke
"""
import sys, traceback
sys.path.insert(0, '/verif/design_probes')
from loop import *
from tlslite.messages import ServerHello, ClientHello
from tlslite.extensions import SrvSupportedVersionsExtension, ServerKeyShareExtension, KeyShareEntry, SrvPreSharedKeyExtension
from tlslite.constants import (ContentType, HandshakeType, ExtensionType, CipherSuite, PskKeyExchangeMode)
from tlslite.utils.cryptomath import getRandomBytes
mode = sys.argv[1]

def drive(gen):
    r = None
    for r in gen:
        pass
    return r

def rogue(conn):
    conn._handshakeStart(client=False)
    for r in conn._getMsg(ContentType.handshake, HandshakeType.client_hello):
        if r not in (0, 1): break
    ch = r
    ks = ch.getExtension(ExtensionType.key_share).client_shares[0]
    ext = [SrvSupportedVersionsExtension().create((3, 4)),
           ServerKeyShareExtension().create(KeyShareEntry().create(ks.group, ks.key_exchange)),
           SrvPreSharedKeyExtension().create(0 if mode == 'unoffered' else 7)]
    sh = ServerHello().create((3, 3), getRandomBytes(32), ch.session_id, CipherSuite.TLS_AES_128_GCM_SHA256, extensions=ext)
    drive(conn._sendMsg(sh))
    conn.sock.settimeout(2)
    try:
        for r in conn._getMsg((ContentType.handshake, ContentType.alert, ContentType.change_cipher_spec), HandshakeType.client_hello):
            if r not in (0, 1): break
        return ('client answered', type(r).__name__, getattr(r, 'description', None))
    except Exception as e:
        return ('no alert from the client:', repr(e))

cs = HandshakeSettings()
ss = HandshakeSettings()
if mode == 'range':
    cs.pskConfigs = [(b'ident', b'\x01' * 32)]
if mode == 'psk_ke':
    cs.pskConfigs = [(b'ident', b'\x01' * 32)]; cs.psk_modes = ['psk_dhe_ke']
    ss.pskConfigs = [(b'ident', b'\x01' * 32)]; ss.psk_modes = ['psk_ke']
    from tlslite.extensions import PskKeyExchangeModesExtension
    class Liar(list):
        def __contains__(self, x):
            return x == PskKeyExchangeMode.psk_ke
    orig = ClientHello.parse
    def patched(self, p):
        r = orig(self, p)
        m = self.getExtension(ExtensionType.psk_key_exchange_modes)
        if m is not None and not isinstance(m.modes, Liar):
            m.modes = Liar(m.modes)      # the server acts as if only psk_ke had been offered (bytes on the wire untouched)
        return r
    ClientHello.parse = patched

def client(conn):
    try:
        conn.handshakeClientCert(settings=cs)
        conn.write(b'hi'); r = conn.read(min=2, max=2)
        return ('completed', 'client psk_modes', cs.psk_modes, 'ecdhCurve/dhGroupSize', conn.ecdhCurve, conn.dhGroupSize, r)
    except Exception as e:
        return ('client raised', type(e).__name__, str(e)[:100],
                [l.strip() for l in traceback.format_exc().splitlines() if 'tlsconnection.py' in l][-1:])
def honest(conn):
    chain, key = creds()
    conn.handshakeServer(certChain=chain, privateKey=key, settings=ss); r = conn.read(min=2, max=2); conn.write(r)
    return ('completed',)
print(run(client, honest if mode == 'psk_ke' else rogue))
