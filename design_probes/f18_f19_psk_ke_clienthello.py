import sys; sys.path.insert(0, '/verif/design_probes')
from loop import *
from tlslite.messages import ClientHello, RecordHeader3
from tlslite.extensions import *
from tlslite.constants import CipherSuite, ContentType, GroupName, SignatureScheme
from tlslite.utils.cryptomath import getRandomBytes
from tlslite.handshakesettings import HandshakeSettings
chain,key=creds()
def raw_client(build, settings=None, read_reply=False):
    a,b=socket.socketpair(); res={}
    def srv():
        c=TLSConnection(b)
        try: c.handshakeServer(certChain=chain, privateKey=key, settings=settings); res['s']='completed'
        except BaseException as e: res['s']=(type(e).__name__, str(e)[:100])
        res['version']=c.version
    t=threading.Thread(target=srv); t.start()
    ch=build(); data=ch.write()
    a.sendall(RecordHeader3().create((3,1),ContentType.handshake,len(data)).write()+data)
    if read_reply:
        a.settimeout(2)
        try:
            d=a.recv(65536); res['reply']=bytes(d[:12]).hex()
        except Exception as e: res['reply']=repr(e)
    t.join(3); a.close(); t.join(3); return res

# P1: TLS1.3-only server, legacy client_version (3,4) without supported_versions
def p1(cv):
    def b():
        return ClientHello().create(cv, getRandomBytes(32), bytearray(0),
            [CipherSuite.TLS_RSA_WITH_AES_128_CBC_SHA, CipherSuite.TLS_ECDHE_RSA_WITH_AES_128_GCM_SHA256],
            extensions=[SignatureAlgorithmsExtension().create([SignatureScheme.rsa_pkcs1_sha256, SignatureScheme.rsa_pss_rsae_sha256]),
                        SupportedGroupsExtension().create([GroupName.secp256r1]), ECPointFormatsExtension().create([0])])
    return b
s=HandshakeSettings(); s.minVersion=(3,4); s.maxVersion=(3,4)
for cv in ((3,3),(3,4),(3,5)):
    print('P1 minVersion=maxVersion=(3,4), no supported_versions, client_version', cv, raw_client(p1(cv), s, True))
# P2: psk_ke only + key_share with unsupported group + no supported_groups
def p2():
    psk=PreSharedKeyExtension().create([PskIdentity().create(bytearray(b'x'*40),0)],[bytearray(32)])
    ks=ClientKeyShareExtension().create([KeyShareEntry().create(0x7777, bytearray(b'\x01'*32))])
    exts=[SupportedVersionsExtension().create([(3,4)]), PskKeyExchangeModesExtension().create([0]),
          SignatureAlgorithmsExtension().create([SignatureScheme.rsa_pss_rsae_sha256]), ks, psk]
    return ClientHello().create((3,3), getRandomBytes(32), bytearray(0), [CipherSuite.TLS_AES_128_GCM_SHA256], extensions=exts)
print('P2 psk_ke-only + key_share(unknown group) + no supported_groups:', raw_client(p2))
# P3: psk_ke only, unknown identity, no key_share
def p3():
    psk=PreSharedKeyExtension().create([PskIdentity().create(bytearray(b'x'*40),0)],[bytearray(32)])
    exts=[SupportedVersionsExtension().create([(3,4)]), PskKeyExchangeModesExtension().create([0]),
          SignatureAlgorithmsExtension().create([SignatureScheme.rsa_pss_rsae_sha256]), psk]
    return ClientHello().create((3,3), getRandomBytes(32), bytearray(0), [CipherSuite.TLS_AES_128_GCM_SHA256], extensions=exts)
print('P3 psk_ke-only + unknown identity + no key_share:', raw_client(p3))
