"""C18 -- SessionCache / BaseDB / Python_RSAKey: lock discipline (AST tasks) and
the sequential specification of the session cache (deductive contracts).

Part 1 (this block): lock discipline, monitor form.  One task per function,
one named obligation per access site (see pyvc/lockcheck.py).
Part 2: sequential contracts of SessionCache with ghost state (below).
"""
from pyvc.contract import REG
from pyvc.lockcheck import LockSpec, LockDisciplineTask, EncapsulationTask

SC = 'tlslite/sessioncache.py:SessionCache.'
DB = 'tlslite/basedb.py:BaseDB.'
RSA = 'tlslite/utils/python_rsakey.py:Python_RSAKey.'

# --------------------------------------------------------------------------
# SessionCache: lock `self.lock`, shared representation = the four fields
SC_SHARED = ('entriesDict', 'entriesList', 'firstIndex', 'lastIndex')
# code allowed to run inside the critical section: builtins without callbacks into user code, the clock,
# the helper _purge (checked below, requires the lock) and session.valid() (reads one flag of the session)
SC_CALLS = ('bytes', 'len', 'time.time', 'session.valid', 'KeyError')

for _fn in ('__getitem__', '__setitem__'):
    # the clock value is stored with the entry and the list must stay time-ordered (what _purge relies on): reading the
    # clock belongs to the critical section that appends / compares
    REG.add_task(LockDisciplineTask(LockSpec(SC + _fn, 'lock', SC_SHARED, allowed_calls=SC_CALLS,
                                             held_helpers=('_purge',), atomic_calls=('time.time',))))
REG.add_task(LockDisciplineTask(LockSpec(SC + '_purge', 'lock', SC_SHARED, allowed_calls=SC_CALLS,
                                         entry_held=True, atomic_calls=('time.time',))))
REG.add_task(EncapsulationTask('SessionCache', SC_SHARED + ('_purge',),
                               [SC + '__getitem__', SC + '__setitem__', SC + '_purge'], [SC + '__init__']))

# --------------------------------------------------------------------------
# BaseDB: lock `self.lock`, shared = the mapping behind `self.db`
DB_OPS = [DB + f for f in ('__getitem__', '__setitem__', '__delitem__', '__contains__', 'keys')]
DB_CALLS = ('self.db.sync', 'self.db.keys')
for _q in DB_OPS:
    REG.add_task(LockDisciplineTask(LockSpec(_q, 'lock', ('db',), allowed_calls=DB_CALLS, content_only=('db',),
                                             group=DB_OPS)))
REG.add_task(EncapsulationTask('BaseDB', ('db',), DB_OPS, [DB + '__init__', DB + 'create', DB + 'open']))

# --------------------------------------------------------------------------
# Python_RSAKey: lock `self._lock`, shared = the blinding pair
RSA_CALLS = ('getRandomNumber', 'powMod', 'invMod')
REG.add_task(LockDisciplineTask(LockSpec(RSA + '_rawPrivateKeyOp', '_lock', ('blinder', 'unblinder'),
                                         allowed_calls=RSA_CALLS)))
REG.add_task(EncapsulationTask('Python_RSAKey', ('blinder', 'unblinder'), [RSA + '_rawPrivateKeyOp'],
                               [RSA + '__init__']))

REG.note('C18', 'trusted', 'threading.Lock is a mutex: acquire() returns only when no other thread holds it; release() '
         'of a held lock and the exit of `with lock:` do not raise; `with lock:` releases on every way out of its body')
REG.note('C18', 'trusted', 'lock discipline is decided by an abstract interpretation of the real AST tracking the ghost '
         '`held` through try/finally, with, loops and exceptional exits (pyvc/lockcheck.py); every statement other than '
         '`pass` is assumed able to raise')
REG.note('C18', 'assumptions', 'monitor argument: if every access to the shared representation happens inside one '
         'critical section per operation and each critical section implements the sequential operation, every '
         'interleaving is equivalent to some sequential order of the operations; schedules are not executed')
REG.note('C18', 'assumptions', 'constructors (SessionCache.__init__, BaseDB.__init__/create/open, Python_RSAKey.__init__) '
         'write the shared fields without the lock: they must complete before the object is shared between threads')
REG.note('C18', 'assumptions', 'BaseDB: `if self.db == None: raise` is evaluated before acquire; it reads only the '
         'reference self.db (no content), and no operation of the monitor assigns self.db (obligation '
         'open-check:db#k:reference-only-and-stable), so it is classified as an open-check, not as an access to the '
         'shared mapping; create()/open() racing with operations is outside the claim')
REG.note('C18', 'assumptions', 'code run while a lock is held is limited to the declared callees: bytes, len, time.time, '
         'session.valid (SessionCache); db.sync, db.keys (BaseDB); getRandomNumber, powMod, invMod (RSA); these are '
         'assumed not to call back into the same object')


# ==========================================================================
# Part 2: sequential specification of SessionCache (data structure vs abstract view)
#
# Heap model: entriesDict is a SymDict (dom: Val -> Bool, val: Val -> Val), entriesList a SymTupleList
# (n, ids: Int -> Val, tms: Int -> Int), lock a Lock with ghost `held` (pyvc/symcoll.py); time.time() is a
# monotone integer clock (ghost `$clock`).  Ghost `pos: Val -> Int` maps a cached id to its list cell.
#
# Abstract view:  id |-> (val[id], tms[pos[id]]) for dom[id];  insertion order = circular order of the cells.
# Representation invariant RI (the C18 design's invariant, with the id <-> cell correspondence made explicit):
#   R1  n >= 2, 0 <= firstIndex < n, 0 <= lastIndex < n
#   R2  every live cell i (circular segment [firstIndex, lastIndex)) holds an id that is in the dict, pos[id] == i
#   R3  every id in the dict has a live cell pos[id] that holds it            (R2+R3: ids of the segment are
#       exactly the dict keys and no id occupies two cells; |dict| = |segment| <= n - 1: the size bound)
#   R4  the segment is sorted by time (circular order)
#   R5  no stored time lies in the future of the clock
import z3

import tlslite.sessioncache as SCM
from pyvc.contract import contract, LoopSpec
from pyvc.state import T
from pyvc import spec as S
from pyvc import smt, symcoll
from pyvc.symcoll import VTerm
from pyvc.values import VInt, VBool, VPy, VOpaque, truthy, to_val
from pyvc.executor import SpecFn, Outcome

Val = smt.Val
PosSort = z3.ArraySort(Val, z3.IntSort())

# session.valid(): a predicate of the session object at the time of the lookup
SessValid = S.uf('SessValid', [Val], smt.B)


def _valid_attr(ex, v, st):
    if not ex.opts.get('session_valid_model'):          # only for the contracts below; default elsewhere
        return VOpaque(z3.Function('v_attr_valid', Val, Val)(v.t))

    def call(ex2, args, kw, st2, fr, node):
        return [Outcome('normal', st2, VBool(SessValid(v.t)))]
    return VPy(SpecFn(call, 'valid'))


if not hasattr(REG, 'opaque_attr'):
    REG.opaque_attr = {}
REG.opaque_attr['valid'] = _valid_attr


def cache_obj():
    return T.obj(SCM.SessionCache, lock=T.lock(), entriesDict=T.symdict(), entriesList=T.symtuplelist(),
                 firstIndex=T.int(), lastIndex=T.int(), maxAge=T.int())


def _setup(ex, st, ns):
    st.ghost['pos'] = VTerm(z3.Const('pos', PosSort))
    st.ghost['$clock'] = VInt(z3.Int('clock0'))


class View(object):
    """z3 terms of the cache representation in one state"""

    def __init__(self, ns, self_obj=None):
        s = self_obj if self_obj is not None else ns.self
        d = ns.f(s, 'entriesDict')
        l = ns.f(s, 'entriesList')
        self.d, self.l = d, l
        self.N = ns.f(l, 'n').t
        self.ids = ns.f(l, 'ids').t
        self.tms = ns.f(l, 'tms').t
        self.dom = ns.f(d, 'dom').t
        self.val = ns.f(d, 'val').t
        self.F = ns.f(s, 'firstIndex').t
        self.L = ns.f(s, 'lastIndex').t
        self.maxAge = ns.f(s, 'maxAge').t
        self.lock = ns.f(s, 'lock')
        self.held = truthy(ns.f(self.lock, 'held'))
        self.clock = ns.ghost('$clock').t

    def off(self, i, F=None):
        F = self.F if F is None else F
        return z3.If(i >= F, i - F, i - F + self.N)

    def cnt(self):
        return self.off(self.L)

    def live(self, i):
        return z3.And(0 <= i, i < self.N, self.off(i) < self.cnt())


_Q = [0]


def _qi(base):
    _Q[0] += 1
    return z3.Int('%s!q%d' % (base, _Q[0]))


def _qv(base):
    _Q[0] += 1
    return z3.Const('%s!q%d' % (base, _Q[0]), Val)


def RI(v, pos, parts=('R1', 'R2', 'R3', 'R4', 'R5')):
    """representation invariant of view v w.r.t. ghost pos (z3 array Val -> Int)"""
    cs = []
    if 'R1' in parts:
        cs.append(z3.And(v.N >= 2, 0 <= v.F, v.F < v.N, 0 <= v.L, v.L < v.N))
    if 'R2' in parts:
        i = _qi('i')
        cs.append(z3.ForAll([i], z3.Implies(v.live(i), z3.And(z3.Select(v.dom, z3.Select(v.ids, i)),
                                                             z3.Select(pos, z3.Select(v.ids, i)) == i)),
                            patterns=_pats(z3.Select(v.ids, i))))
    if 'R3' in parts:
        k = _qv('k')
        cs.append(z3.ForAll([k], z3.Implies(z3.Select(v.dom, k),
                                            z3.And(v.live(z3.Select(pos, k)),
                                                   z3.Select(v.ids, z3.Select(pos, k)) == k)),
                            patterns=_pats(z3.Select(v.dom, k)) + _pats(z3.Select(pos, k))))
    if 'R4' in parts:
        i, j = _qi('i'), _qi('j')
        cs.append(z3.ForAll([i, j], z3.Implies(z3.And(v.live(i), v.live(j), v.off(i) <= v.off(j)),
                                               z3.Select(v.tms, i) <= z3.Select(v.tms, j)),
                            patterns=_pats(z3.Select(v.tms, i), z3.Select(v.tms, j))))
    if 'R5' in parts:
        i = _qi('i')
        cs.append(z3.ForAll([i], z3.Implies(v.live(i), z3.Select(v.tms, i) <= v.clock),
                            patterns=_pats(z3.Select(v.tms, i))))
    return z3.And(cs)


def _b(t):
    return VBool(t)


def _pats(*terms):
    """explicit trigger only when it is a plain select on array constants (z3 rejects ite inside patterns)"""
    for t in terms:
        for a in ([t.arg(0)] if z3.is_select(t) else []):
            if not z3.is_const(a):
                return []
    return [z3.MultiPattern(*terms)] if len(terms) > 1 else list(terms)


def _frame(ns):
    """fields no operation may change: the component objects, maxAge, the list length"""
    o, n = View(ns.old), View(ns)
    same_objs = (ns.f(ns.self, 'entriesDict') == ns.old.f(ns.self, 'entriesDict')) & \
                (ns.f(ns.self, 'entriesList') == ns.old.f(ns.self, 'entriesList')) & \
                (ns.f(ns.self, 'lock') == ns.old.f(ns.self, 'lock'))
    return S.And(same_objs, _b(z3.And(n.maxAge == o.maxAge, n.N == o.N)))


def _req(ns):
    v = View(ns)
    return _b(z3.And(RI(v, ns.pos.t), z3.Not(v.held)))


# --------------------------------------------------------------------------
# _purge: called with the lock held.  Removes exactly the expired entries (a prefix of the segment).
def _purge_inv(ns):
    o = View(ns.old)              # loop entry == function entry for everything the loop does not change
    cur_dom = ns.f(ns.f(ns.self, 'entriesDict'), 'dom').t
    pos = ns.pos.t
    idx = ns.index.t
    now = ns.currentTime.t
    k = _qv('k')
    i = _qi('i')
    return _b(z3.And(
        0 <= idx, idx < o.N, o.off(idx) <= o.cnt(),
        z3.ForAll([k], z3.Select(cur_dom, k) ==
                  z3.And(z3.Select(o.dom, k), o.off(z3.Select(pos, k)) >= o.off(idx)),
                  patterns=_pats(z3.Select(cur_dom, k))),
        z3.ForAll([i], z3.Implies(z3.And(o.live(i), o.off(i) < o.off(idx)),
                                  now - z3.Select(o.tms, i) > o.maxAge), patterns=_pats(z3.Select(o.tms, i)))))


def _purge_post(ns, now):
    """post-state of the purge step, `now` = the clock value it read"""
    o, n = View(ns.old), View(ns)
    pos = ns.pos.t
    k = _qv('k')
    return z3.And(
        RI(n, pos),
        # exactly the expired entries are gone, nothing else changed
        z3.ForAll([k], z3.Select(n.dom, k) ==
                  z3.And(z3.Select(o.dom, k), now - z3.Select(o.tms, z3.Select(pos, k)) <= o.maxAge),
                  patterns=_pats(z3.Select(n.dom, k))),
        n.val == o.val, n.ids == o.ids, n.tms == o.tms, n.L == o.L, n.held == o.held)


_PURGE_LOOP = {1: LoopSpec(_purge_inv, modifies_fields=[('self.entriesDict', 'dom')], fingerprint='self.lastIndex')}

_c = contract(SC + '_purge', params={'self': cache_obj()}, setup=_setup,
              requires=lambda ns: _b(RI(View(ns), ns.pos.t)),
              raises={},
              ensures=lambda ns: S.And(_b(_purge_post(ns, ns.local('currentTime').t)), _frame(ns),
                                       _b(ns.local('currentTime').t == View(ns).clock)),
              loops=_PURGE_LOOP, prop='C18', opts={'prune': False},
              doc='under the representation invariant: raises nothing (no KeyError inside), keeps the invariant, '
                  'removes exactly the entries with now - t > maxAge, changes nothing else')
_c.variant = 'inline'          # callers execute the real body (with this loop invariant) instead of the summary


# --------------------------------------------------------------------------
# __getitem__
def _get_spec(ns):
    """the abstract lookup over the ENTRY state: session last stored under the id, young, valid"""
    o = View(ns.old)
    now = View(ns).clock
    key = to_val(ns.sessionID)
    found = z3.And(z3.Select(o.dom, key),
                   now - z3.Select(o.tms, z3.Select(ns.pos.t, key)) <= o.maxAge,
                   SessValid(z3.Select(o.val, key)))
    return found, z3.Select(o.val, key)


def _get_ensures(ns):
    found, sess = _get_spec(ns)
    n = View(ns)
    return S.And(_b(found), _b(to_val(ns.result) == sess), _b(z3.Not(n.held)), _b(RI(n, ns.pos.t)), _frame(ns))


def _get_exc(ns):
    found, sess = _get_spec(ns)
    n = View(ns)
    return S.And(_b(z3.Not(found)), _b(z3.Not(n.held)), _b(RI(n, ns.pos.t)), _frame(ns))


contract(SC + '__getitem__', params={'self': cache_obj(), 'sessionID': T.bytes()}, setup=_setup,
         requires=_req, raises={KeyError: None}, result=T.opaque(),
         ensures=_get_ensures, exc_ensures=_get_exc, loops={('SessionCache._purge', 1): _PURGE_LOOP[1]},
         prop='C18', opts={'prune': False, 'session_valid_model': True},
         doc='returns the session last stored under the id iff it is in the cache, now - t <= maxAge and it is valid; '
             'otherwise KeyError and nothing else; the lock is released on both exits; the invariant is kept')


# --------------------------------------------------------------------------
# __setitem__
def _set_views(ns):
    o, n = View(ns.old), View(ns)
    key = to_val(ns.sessionID)
    full = z3.If(o.L + 1 == o.N, 0, o.L + 1) == o.F          # the store fills the last free cell
    oldest = z3.Select(o.ids, o.F)
    return o, n, key, full, oldest


def _set_stores(ns):
    """the new entry is there, and only the oldest entry may have been evicted, only when full"""
    o, n, key, full, oldest = _set_views(ns)
    k = _qv('k')
    return z3.And(z3.Select(n.dom, key), z3.Select(n.val, key) == to_val(ns.session),
                  z3.ForAll([k], z3.Implies(k != key,
                                            z3.And(z3.Select(n.dom, k) ==
                                                   z3.And(z3.Select(o.dom, k), z3.Not(z3.And(full, k == oldest))),
                                                   z3.Implies(z3.Select(n.dom, k),
                                                              z3.Select(n.val, k) == z3.Select(o.val, k)))),
                            patterns=_pats(z3.Select(n.dom, k))))


def _set_inv(ns):
    o, n, key, full, oldest = _set_views(ns)
    pos2 = z3.Store(ns.pos.t, key, o.L)                      # ghost update: the id now lives in cell lastIndex
    return RI(n, pos2)


def _set_safe(ns):
    n = View(ns)
    return S.And(_b(z3.Not(n.held)), _frame(ns), _b(z3.And(0 <= n.F, n.F < n.N, 0 <= n.L, n.L < n.N)))


contract(SC + '__setitem__', name='SessionCache.__setitem__[safety]',
         params={'self': cache_obj(), 'sessionID': T.bytes(), 'session': T.opaque()}, setup=_setup,
         requires=_req, raises={}, ensures=_set_safe, prop='C18', opts={'prune': False},
         doc='under the representation invariant a store raises nothing, releases the lock, keeps firstIndex/lastIndex '
             'in range and changes neither maxAge nor the list length')

contract(SC + '__setitem__', name='SessionCache.__setitem__[fresh id]',
         params={'self': cache_obj(), 'sessionID': T.bytes(), 'session': T.opaque()}, setup=_setup,
         requires=lambda ns: S.And(_req(ns), _b(z3.Not(z3.Select(View(ns).dom, to_val(ns.sessionID))))),
         raises={}, ensures=lambda ns: S.And(_b(_set_stores(ns)), _b(_set_inv(ns))), prop='C18', opts={'prune': False},
         doc='storing under an id that is NOT in the cache: the entry is stored, only the oldest entry is evicted and only '
             'when the list is full, the representation invariant is kept')

contract(SC + '__setitem__', name='SessionCache.__setitem__[any id]',
         params={'self': cache_obj(), 'sessionID': T.bytes(), 'session': T.opaque()}, setup=_setup,
         requires=_req, raises={}, ensures=lambda ns: S.And(_b(_set_stores(ns)), _b(_set_inv(ns))), prop='C18',
         opts={'rlimit_scale': 0.05},     # known finding F5: fails by design on this tree, must fail quickly
         doc='the same for every id (property C18).  EXPECTED TO FAIL on the pinned tree: storing under an id that is '
             'already cached leaves two cells for one key (known finding cache-same-id-twice)')

REG.xchecks.append({'prop': 'C18', 'module': 'specs.cache_settings', 'name': 'cache_histories',
                    'function': SC + '__setitem__'})
REG.xchecks.append({'prop': 'C18', 'module': 'specs.cache_settings', 'name': 'cache_degenerate_sizes',
                    'function': SC + '__init__'})

REG.note('C18', 'trusted', 'SessionCache heap model: entriesDict as arrays (dom, val) over opaque keys (bytes keys compared by '
         'content), entriesList as arrays (ids, tms) of symbolic length, exact Python semantics of d[k], d[k]=v, del d[k], '
         'l[i], l[i]=(a,b), len(l) including KeyError / IndexError (pyvc/symcoll.py)')
REG.note('C18', 'trusted', 'session.valid() is a predicate SessValid(session) of the stored object at lookup time, without '
         'side effects on the cache')
REG.note('C18', 'assumptions', 'time.time() is a monotone clock with integer-valued readings (floating point rounding of '
         'now - t is not modelled); maxEntries >= 2 (requires n >= 2; maxEntries in {0,1}: see cross-check '
         'cache_degenerate_sizes)')
REG.note('C18', 'assumptions', 'size bound: R2+R3 make pos an injection of the dict keys into the live cells, of which there '
         'are (lastIndex - firstIndex) mod n <= n - 1; the counting step itself is not an SMT obligation')
REG.note('C18', 'not_built', 'linearizability itself (monitor theorem) is an argument on paper: per-operation critical '
         'section + sequential contracts; no schedule is executed.  RSA blinding pair consistency and VerifierDB round '
         'trip are not part of this module')


# --------------------------------------------------------------------------
# __init__ establishes the representation invariant (empty cache, lock free)
def _init_post(ns):
    n = View(ns)
    k = _qv('k')
    return S.And(_b(RI(n, ns.pos.t)), _b(z3.ForAll([k], z3.Not(z3.Select(n.dom, k)))), _b(z3.Not(n.held)),
                 _b(z3.And(n.N == ns.maxEntries.t, n.maxAge == ns.maxAge.t, n.F == 0, n.L == 0)))


contract(SC + '__init__', params={'self': T.obj(SCM.SessionCache), 'maxEntries': T.int(2), 'maxAge': T.int()},
         setup=_setup, raises={}, ensures=_init_post,
         opts={'symdict_literals': True, 'symtuplelist_repeat': True, 'prune': False}, prop='C18',
         doc='for maxEntries >= 2 the constructor raises nothing and establishes the representation invariant '
             '(empty dict, empty segment, lock not held, list length == maxEntries)')


# --------------------------------------------------------------------------
# Diagnostic (NOT part of the C18 check: it states the defect, so it must stop holding once /repo is repaired):
# storing under an id that is already cached makes the representation invariant unsatisfiable -- for every choice
# of the ghost id -> cell map.  `python3-vt -m pyvc.run1 contracts.sessioncache diagnostic`
def _dup_post(ns):
    o, n, key, full, oldest = _set_views(ns)
    p = z3.Select(ns.pos.t, key)                 # the cell that held the id before the store
    two_cells = z3.And(n.live(p), n.live(o.L), p != o.L, z3.Select(n.ids, p) == key, z3.Select(n.ids, o.L) == key)
    orphan = z3.And(n.live(o.L), z3.Select(n.ids, o.L) == key, z3.Not(z3.Select(n.dom, key)))
    return z3.Or(two_cells, orphan)


contract(SC + '__setitem__', name='diagnostic:__setitem__[cached id] breaks the invariant',
         params={'self': cache_obj(), 'sessionID': T.bytes(), 'session': T.opaque()}, setup=_setup,
         requires=lambda ns: S.And(_req(ns), _b(z3.Select(View(ns).dom, to_val(ns.sessionID)))),
         raises={}, ensures=lambda ns: _b(_dup_post(ns)), prop='C18-defect-diagnostic',
         doc='after a store under an already cached id either two live cells hold the id, or (the old cell was the '
             'oldest and the list was full) the new cell holds the id but the dict entry is gone: in both cases no '
             'id -> cell correspondence exists, i.e. R2/R3 are unsatisfiable for every ghost map')
REG.xchecks.append({'prop': 'C18', 'module': 'specs.basedb', 'name': 'verifierdb_map', 'function': DB + 'keys'})
