"""M2 tasks on tlslite/tlsrecordlayer.py."""
import z3

from tlslite.errors import TLSLocalAlert
from pyvc.m2 import M2Spec, m2task, NoReturn
from pyvc.values import VBool, VPy, VOpaque, VInt, truthy, to_val, eq_op
from pyvc.contract import REG
from contracts.m2_common import TRL, TC


def _check_sendError(api):
    # 1. never returns normally
    for o in api.normal_exits():
        api.unreachable(o.st, 'never-returns-normally')
    rs = api.raise_exits()
    for o in rs:
        api.oblige(o.st, 'raises-TLSLocalAlert', o.val.cls is TLSLocalAlert)
        ev = [e[0] for e in o.st.events]
        ok_order = ('_sendMsg' in ev and '_shutdown' in ev and ev.index('_sendMsg') < ev.index('_shutdown'))
        api.oblige(o.st, 'alert-sent-before-shutdown', ok_order)
        # C08: "for protocol violations a fatal alert was sent first": the alert must reach the wire, so pending
        # buffered writes are flushed and write buffering is switched off BEFORE the alert is sent (otherwise the
        # alert stays in BufferedSocket's queue when the caller keeps the socket open)
        names = [e[0] for e in o.st.events]
        bw = [i for i, e in enumerate(o.st.events) if e[0] == 'setattr:buffer_writes']
        sm = names.index('_sendMsg') if '_sendMsg' in names else -1
        unbuffered = bool(bw) and sm >= 0 and bw[-1] < sm and eq_op(o.st.events[bw[-1]][1][-1], VBool(z3.BoolVal(False))).t
        api.oblige(o.st, 'write-buffering-off-before-the-alert-is-sent', unbuffered if isinstance(unbuffered, bool) else unbuffered)
        api.oblige(o.st, 'pending-writes-flushed-before-the-alert-is-sent', 'flush' in names and sm >= 0 and names.index('flush') < sm)
        sh = api.events(o.st, '_shutdown')
        api.oblige(o.st, 'shutdown-not-resumable',
                   len(sh) == 1 and eq_op(sh[0][1][-1], VBool(z3.BoolVal(False))).t)
        cr = api.events(o.st, 'create')
        # the alert object is created with (alertDescription, AlertLevel.fatal)
        from tlslite.constants import AlertLevel
        good = len(cr) >= 1 and eq_op(cr[0][1][-1], VInt(AlertLevel.fatal)).t
        api.oblige(o.st, 'alert-level-fatal', good)
        same = len(cr) >= 1 and eq_op(cr[0][1][-2], api.entry.env['alertDescription']).t
        api.oblige(o.st, 'alert-description-is-argument', same)
    api.oblige(api.entry, 'has-a-raising-exit', len(rs) >= 1)


m2task('_sendError', ('C02', 'C08', 'C17'), TRL + '_sendError', M2Spec(), check=_check_sendError,
       doc='_sendError never returns normally: it sends one fatal alert with the given description, then '
           '_shutdown(False), then raises TLSLocalAlert')
