"""F47 (C17): after an ORDERLY close the session must stay resumable; a write() on the closed connection raises
TLSClosedConnectionError (documented) -- but does it also invalidate the session?
Run with PYTHONPATH=<tree>; exit 1 = session no longer resumable after the refused write."""
import os, socket, threading, sys
import tlslite
from tlslite.api import TLSConnection, HandshakeSettings, X509CertChain, X509, parsePEMKey
from tlslite.errors import TLSClosedConnectionError
ROOT = os.path.dirname(os.path.dirname(os.path.abspath(tlslite.__file__)))
cert = X509CertChain([X509().parse(open(os.path.join(ROOT, 'tests', 'serverX509Cert.pem')).read())])
key = parsePEMKey(open(os.path.join(ROOT, 'tests', 'serverX509Key.pem')).read(), private=True)
res = {}
for ver in ((3, 3), (3, 4)):
    a, b = socket.socketpair(); a.settimeout(5); b.settimeout(5)
    def server():
        s = TLSConnection(b)
        st = HandshakeSettings(); st.maxVersion = ver
        s.handshakeServer(certChain=cert, privateKey=key, settings=st)
        try:
            s.read(1, 1)
        except Exception:
            pass
        s.close()
    t = threading.Thread(target=server); t.start()
    c = TLSConnection(a)
    st = HandshakeSettings(); st.maxVersion = ver
    c.handshakeClientCert(settings=st)
    c.close()                                   # orderly: sends close_notify
    before = c.session.resumable
    try:
        c.write(b'late')
        outcome = 'write succeeded'
    except TLSClosedConnectionError:
        outcome = 'TLSClosedConnectionError'
    except Exception as e:
        outcome = type(e).__name__
    res[ver] = (before, outcome, c.session.resumable)
    t.join()
print(res)
bad = [v for v, (b4, o, after) in res.items() if b4 and not after]
print('FAIL: the refused write made the session non-resumable for %s' % bad if bad else 'PASS')
sys.exit(1 if bad else 0)
