"""M1 lemmas on tlslite/defragmenter.py (Defragmenter.is_empty / add_data / get_message / clear_buffers and the
two size handlers), executed on the real bodies in the configuration TLSRecordLayer.__init__ installs:

    add_static_size(change_cipher_spec, 1); add_static_size(alert, 2); add_dynamic_size(handshake, 1, 3)

(that this is the configuration is the AST task `defragmenter-registration` in contracts/m2_getmsg.py).  The
object is built by running the real __init__/add_static_size/add_dynamic_size symbolically (the size handlers are
the real nested functions); afterwards the three buffers are replaced by arbitrary byte strings b20, b21, b22 --
the abstract view of DESIGN C14: "per-type byte buffer".

Specification (RFC 5246 s6.2.1: "multiple client messages of the same ContentType MAY be coalesced into a single
record, or a single message MAY be fragmented across several records"; s7.1 CCS is one byte; s7.2 an alert is two
bytes; s7.4 a handshake message is type(1) || length(3) || body):
  * is_empty()  <=>  every buffer has length 0                                                   (C06 alignment guard)
  * add_data(t, x) appends x to buffer t and touches nothing else; unknown t -> ValueError, nothing changed
  * get_message() returns the first complete message of the highest-priority type that has one
    (priority: ccs, alert, handshake), removes exactly those bytes, and is None (nothing changed) otherwise
  * framing-free: add_data(t,a); add_data(t,b) == add_data(t, a||b), hence the messages handed out depend only on
    the per-type concatenation, not on record boundaries                                                        (C14)
  * progress: a returned message is non-empty and the buffered byte count drops by its length                   (C08)
"""
import z3

from pyvc.contract import scenario, REG
from pyvc.state import T
from pyvc.values import VInt, VSeq, VDict, VTuple, VNone, VBool
from pyvc import spec as S
from tlslite.defragmenter import Defragmenter
from tlslite.constants import ContentType

D = 'tlslite/defragmenter.py:Defragmenter.'
CCS, ALERT, HS = ContentType.change_cipher_spec, ContentType.alert, ContentType.handshake
TYPES = (CCS, ALERT, HS)


def _only_normal(api, outs, what):
    ok = []
    for o in outs:
        if o.kind == 'normal':
            ok.append(o)
        else:
            api.unreachable(o.st, '%s:does-not-raise(%s)' % (what, getattr(getattr(o.val, 'cls', None), '__name__', o.kind)))
    return ok


def configured(api, name='d', symbolic=True):
    """a Defragmenter configured like TLSRecordLayer's, buffers = arbitrary byte strings"""
    d = api.make(name, T.obj(Defragmenter))
    st = api.st
    st = _only_normal(api, api.call(D + '__init__', [d], st), 'setup.__init__')[0].st
    st = _only_normal(api, api.call(D + 'add_static_size', [d, VInt(CCS), VInt(1)], st), 'setup.add_static_size')[0].st
    st = _only_normal(api, api.call(D + 'add_static_size', [d, VInt(ALERT), VInt(2)], st), 'setup.add_static_size')[0].st
    st = _only_normal(api, api.call(D + 'add_dynamic_size', [d, VInt(HS), VInt(1), VInt(3)], st), 'setup.add_dynamic_size')[0].st
    bufs = {}
    if symbolic:
        for t in TYPES:
            bufs[t] = api.make('%s_b%d' % (name, t), T.bytes(), st)
        st.heap[(d.oid, 'buffers')] = VDict(dict(bufs))
    else:
        bufs = dict(st.heap[(d.oid, 'buffers')].d)
    api.st = st
    return d, st, bufs


def buffers(st, d):
    return st.heap[(d.oid, 'buffers')].d


def unchanged(st, d, bufs, except_=()):
    cur = buffers(st, d)
    return S.And(*[S.seq_eq(cur[t], bufs[t]) for t in TYPES if t not in except_])


def config_unchanged(st0, st, d):
    """priorities / decoders are the very same values"""
    from pyvc.values import same_value
    p0, p1 = st0.heap[(d.oid, 'priorities')], st.heap[(d.oid, 'priorities')]
    d0, d1 = st0.heap[(d.oid, 'decoders')], st.heap[(d.oid, 'decoders')]
    return same_value(p0, p1) and sorted(d0.d) == sorted(d1.d) and all(d0.d[k] is d1.d[k] for k in d0.d) \
        and sorted(buffers(st, d)) == sorted(TYPES)


# ---------------------------------------------------------------------------------------------
@scenario('Defragmenter.setup', ('C14', 'C08'),
          doc='the configuration calls of TLSRecordLayer.__init__ succeed and leave three empty buffers in priority '
              'order ccs, alert, handshake')
def setup_lemma(api):
    d, st, bufs = configured(api, symbolic=False)
    pr = st.heap[(d.oid, 'priorities')]
    api.oblige(st, 'priorities-are-ccs-alert-handshake',
               [x.concrete() for x in pr.items] == [CCS, ALERT, HS])
    api.oblige(st, 'three-empty-buffers', S.And(*[S.len_(bufs[t]) == 0 for t in TYPES]) & (sorted(bufs) == sorted(TYPES)))
    # registering a type twice is refused (ValueError), nothing changes
    outs = api.call(D + 'add_static_size', [d, VInt(ALERT), VInt(2)], st.fork())
    api.oblige(st, 'duplicate-registration-raises-ValueError',
               len(outs) == 1 and outs[0].kind == 'raise' and outs[0].val.cls is ValueError)


@scenario('Defragmenter.is_empty', ('C06', 'C14'),
          doc='is_empty() is True iff every buffer is empty (the TLS 1.3 key-change alignment guard of _getMsg relies on '
              'the "only if" direction: True => no byte of any type is buffered)')
def is_empty_lemma(api):
    d, st, bufs = configured(api)
    st0 = st.fork()
    for o in _only_normal(api, api.call(D + 'is_empty', [d], st), 'is_empty'):
        all_empty = S.And(*[S.len_(bufs[t]) == 0 for t in TYPES])
        api.oblige(o.st, 'True-only-if-every-buffer-is-empty', S.implies(o.val, all_empty))
        api.oblige(o.st, 'True-if-every-buffer-is-empty', S.implies(all_empty, o.val))
        api.oblige(o.st, 'result-is-a-bool', isinstance(o.val, VBool))
        api.oblige(o.st, 'pure:buffers-unchanged', unchanged(o.st, d, bufs) & config_unchanged(st0, o.st, d))


@scenario('Defragmenter.is_empty[witnesses]', ('C06',),
          doc='concrete instances of the is_empty lemma (decidable both ways): empty / one buffer non-empty / all non-empty')
def is_empty_witnesses(api):
    from pyvc.executor import lift_py
    cases = {'all-empty': (b'', b'', b''), 'only-handshake-buffered': (b'', b'', b'\x0b'),
             'only-ccs-buffered': (b'\x01', b'', b''), 'only-alert-buffered': (b'', b'\x02', b''),
             'all-buffered': (b'\x01', b'\x02\x28', b'\x0b\x00')}
    d, st, bufs = configured(api, symbolic=False)
    for name, vals in cases.items():
        s = st.fork()
        s.heap[(d.oid, 'buffers')] = VDict({t: lift_py(bytearray(v)) for t, v in zip(TYPES, vals)})
        want = all(len(v) == 0 for v in vals)
        for o in _only_normal(api, api.call(D + 'is_empty', [d], s), 'is_empty[%s]' % name):
            api.oblige(o.st, '%s:is_empty()-is-%s' % (name, want), o.val if want else S.Not(o.val))


def _add_data_lemma(t):
    @scenario('Defragmenter.add_data[%d]' % t, ('C14', 'C08'),
              doc='add_data(%d, x) appends x to that buffer only; never raises for a registered type' % t)
    def lemma(api):
        d, st, bufs = configured(api)
        st0 = st.fork()
        x = api.make('x', T.bytes(), st)
        for o in _only_normal(api, api.call(D + 'add_data', [d, VInt(t), x], st), 'add_data'):
            cur = buffers(o.st, d)
            api.oblige(o.st, 'buffer-is-old-buffer-followed-by-the-data', S.seq_eq(cur[t], S.cat(bufs[t], x)))
            api.oblige(o.st, 'other-buffers-unchanged', unchanged(o.st, d, bufs, except_=(t,)))
            api.oblige(o.st, 'configuration-unchanged', config_unchanged(st0, o.st, d))
            api.oblige(o.st, 'returns-None', isinstance(o.val, VNone))
    return lemma


for _t in TYPES:
    _add_data_lemma(_t)


@scenario('Defragmenter.add_data[unregistered]', ('C08', 'C14'),
          doc='add_data for a type that was not registered raises ValueError and changes nothing (application_data and '
              'heartbeat never reach it: _getNextRecord task)')
def add_data_unregistered(api):
    d, st, bufs = configured(api)
    st0 = st.fork()
    t = api.make('t', T.int(), st)
    st.assume(z3.And(*[t.t != k for k in TYPES]))
    x = api.make('x', T.bytes(), st)
    outs = api.call(D + 'add_data', [d, t, x], st)
    api.oblige(st0, 'has-an-exit', len(outs) >= 1)
    for o in outs:
        if o.kind == 'raise':
            api.oblige(o.st, 'raises-ValueError', o.val.cls is ValueError)
            api.oblige(o.st, 'nothing-changed', unchanged(o.st, d, bufs) & config_unchanged(st0, o.st, d))
        else:
            api.unreachable(o.st, 'unregistered-type-is-never-accepted')


def _framing_lemma(t):
    @scenario('Defragmenter.add_data-framing-free[%d]' % t, ('C14',),
              doc='add_data(t,a); add_data(t,b) leaves the same buffers as add_data(t, a||b): how a byte stream of one '
                  'content type is cut into records is not observable')
    def lemma(api):
        d, st, bufs = configured(api)
        a = api.make('a', T.bytes(), st)
        b = api.make('b', T.bytes(), st)
        two = []
        for o in _only_normal(api, api.call(D + 'add_data', [d, VInt(t), a], st.fork()), 'add_data(a)'):
            two.extend(_only_normal(api, api.call(D + 'add_data', [d, VInt(t), b], o.st), 'add_data(b)'))
        one = _only_normal(api, api.call(D + 'add_data', [d, VInt(t), S.cat(a, b)], st.fork()), 'add_data(a||b)')
        api.oblige(st, 'both-histories-complete', len(two) == 1 and len(one) == 1)
        for o2 in two:
            for o1 in one:
                c2, c1 = buffers(o2.st, d), buffers(o1.st, d)
                # facts of both paths (they only add definitional facts about the same initial state)
                s = o2.st.fork()
                for f in o1.st.pc:
                    s.assume(f)
                api.oblige(s, 'same-buffers', S.And(*[S.seq_eq(c2[k], c1[k]) for k in TYPES]))
    return lemma


for _t in TYPES:
    _framing_lemma(_t)


def hs_len(b):
    """declared total length of the handshake message at the head of b: 4 + u24 at offset 1"""
    return 4 + S.be_val(b[1:4])


@scenario('Defragmenter.get_message', ('C14', 'C08', 'C06'),
          doc='get_message returns the first complete message of the highest-priority type that has one (ccs: 1 byte, '
              'alert: 2 bytes, handshake: 4 + u24 bytes), removes exactly it, returns None and changes nothing otherwise')
def get_message_lemma(api):
    d, st, bufs = configured(api)
    st0 = st.fork()
    b20, b21, b22 = bufs[CCS], bufs[ALERT], bufs[HS]
    has20 = S.len_(b20) >= 1
    has21 = S.len_(b21) >= 2
    has22 = S.And(S.len_(b22) >= 4, S.len_(b22) >= hs_len(b22))
    outs = api.call(D + 'get_message', [d], st)
    api.oblige(st0, 'has-an-exit', len(outs) >= 1)
    seen = {}

    def tagged(base):
        seen[base] = seen.get(base, 0) + 1
        return base if seen[base] == 1 else '%s#%d' % (base, seen[base])
    for o in outs:
        if o.kind != 'normal':
            api.unreachable(o.st, 'does-not-raise(%s)' % getattr(getattr(o.val, 'cls', None), '__name__', o.kind))
            continue
        cur = buffers(o.st, d)
        if isinstance(o.val, VNone):
            tag = tagged('None')
            api.oblige(o.st, tag + ':configuration-unchanged', config_unchanged(st0, o.st, d))
            api.oblige(o.st, tag + ':only-if-no-type-has-a-complete-message', S.And(S.Not(has20), S.Not(has21), S.Not(has22)))
            api.oblige(o.st, tag + ':leaves-every-buffer-unchanged', unchanged(o.st, d, bufs))
            continue
        ok_shape = isinstance(o.val, VTuple) and len(o.val.items) == 2
        tc = o.val.items[0].concrete() if ok_shape and isinstance(o.val.items[0], VInt) else None
        if tc not in TYPES:
            api.oblige(o.st, tagged('result') + ':is-a-(registered type, bytes)-pair', False)
            continue
        t, data = o.val.items
        tag = tagged('type%d' % tc)
        api.oblige(o.st, tag + ':configuration-unchanged', config_unchanged(st0, o.st, d))
        want_len = {CCS: 1, ALERT: 2, HS: hs_len(b22)}[tc]
        higher = {CCS: S.And(), ALERT: S.Not(has20), HS: S.And(S.Not(has20), S.Not(has21))}[tc]
        complete = {CCS: has20, ALERT: has21, HS: has22}[tc]
        api.oblige(o.st, tag + ':only-if-no-higher-priority-message-is-complete', higher)
        api.oblige(o.st, tag + ':only-if-a-complete-message-is-buffered', complete)
        api.oblige(o.st, tag + ':message-is-the-declared-length-prefix-of-the-buffer',
                   S.seq_eq(data, bufs[tc][0:want_len]))
        api.oblige(o.st, tag + ':exactly-the-message-is-removed',
                   S.seq_eq(cur[tc], bufs[tc][want_len:S.len_(bufs[tc])]))
        api.oblige(o.st, tag + ':other-buffers-unchanged', unchanged(o.st, d, bufs, except_=(tc,)))
        # progress (the drain loop of _getNextRecord terminates; no spinning without consuming input)
        api.oblige(o.st, tag + ':progress:message-non-empty-and-buffer-shrinks-by-its-length',
                   S.And(S.len_(data) >= 1, S.len_(cur[tc]) == S.len_(bufs[tc]) - S.len_(data)))
    # completeness of the case analysis: every situation has an exit
    kinds = set()
    for o in outs:
        if o.kind == 'normal':
            kinds.add('none' if isinstance(o.val, VNone) else o.val.items[0].concrete())
    api.oblige(st0, 'all-four-outcomes-occur', kinds == {'none', CCS, ALERT, HS})


@scenario('Defragmenter.get_message-framing-free', ('C14',),
          doc='O-defrag-framing-free: after the same handshake bytes arrive as one record or split in two, get_message '
              'hands out the same message and keeps the same remainder')
def get_message_framing(api):
    d, st, bufs = configured(api)
    a = api.make('a', T.bytes(), st)
    b = api.make('b', T.bytes(), st)

    def run(s, chunks):
        sts = [s]
        for c in chunks:
            nxt = []
            for s_ in sts:
                nxt.extend(o.st for o in _only_normal(api, api.call(D + 'add_data', [d, VInt(HS), c], s_), 'add_data'))
            sts = nxt
        res = []
        for s_ in sts:
            res.extend(_only_normal(api, api.call(D + 'get_message', [d], s_), 'get_message'))
        return res
    two = run(st.fork(), [a, b])
    one = run(st.fork(), [S.cat(a, b)])
    api.oblige(st, 'both-histories-have-exits', len(two) >= 1 and len(one) >= 1)
    n = 0
    for o2 in two:
        for o1 in one:
            s = o2.st.fork()
            for f in o1.st.pc:
                s.assume(f)
            n += 1
            k2 = 'none' if isinstance(o2.val, VNone) else o2.val.items[0].concrete()
            k1 = 'none' if isinstance(o1.val, VNone) else o1.val.items[0].concrete()
            if k1 != k2:
                api.unreachable(s, 'pair#%d:different-outcome-kinds-are-contradictory(%s vs %s)' % (n, k2, k1))
                continue
            c2, c1 = buffers(o2.st, d), buffers(o1.st, d)
            goal = S.And(*[S.seq_eq(c2[k], c1[k]) for k in TYPES])
            if k1 != 'none':
                goal = S.And(goal, S.seq_eq(o2.val.items[1], o1.val.items[1]))
            api.oblige(s, 'pair#%d[%s]:same-message-and-same-remainder' % (n, k1), goal)


@scenario('Defragmenter.clear_buffers', ('C06', 'C14'),
          doc='clear_buffers (called by _handshakeStart) leaves every buffer empty and the configuration intact')
def clear_lemma(api):
    d, st, bufs = configured(api)
    st0 = st.fork()
    for o in _only_normal(api, api.call(D + 'clear_buffers', [d], st), 'clear_buffers'):
        cur = buffers(o.st, d)
        api.oblige(o.st, 'every-buffer-empty', S.And(*[S.len_(cur[t]) == 0 for t in TYPES]))
        api.oblige(o.st, 'configuration-unchanged', config_unchanged(st0, o.st, d))


REG.note('C14', 'assumptions', 'Defragmenter lemmas are stated for the configuration TLSRecordLayer.__init__ installs '
         '(ccs:1, alert:2, handshake:1+3; AST task defragmenter-registration), with arbitrary buffer contents; the '
         'general add_static_size/add_dynamic_size parameter space is not covered')
REG.note('C14', 'trusted', 'engine: nested size_handler functions capture their free variables by value (checked: not '
         'rebound after the definition); `del buf[:n]` on the local alias of self.buffers[t] is written back to the '
         'dict entry (checked: the entry still holds the same value); Parser.get/skip_bytes inlined from real source')

REG.xchecks.append({'prop': 'C14', 'module': 'specs.getmsg', 'name': 'defragmenter_framing', 'function': D + 'get_message'})
