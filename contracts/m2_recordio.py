"""M2 tasks on RecordLayer.recvRecord / sendRecord (tlslite/recordlayer.py): which records are
returned without authentication, size caps, early-data window, TLS 1.3 inner plaintext on send."""
import z3

from tlslite.errors import TLSBadRecordMAC, TLSRecordOverflow
from tlslite.constants import ContentType
from pyvc.m2 import M2Spec, m2task, fresh_opaque
from pyvc.executor import Outcome
from pyvc.values import VBool, VInt, VNone, VOpaque, VTuple, truthy, to_val, v_truthy
from pyvc import smt
from pyvc.contract import REG

RLQ = 'tlslite/recordlayer.py:RecordLayer.'
DECRYPTORS = ('_decryptSSL2', '_decryptAndUnseal', '_macThenDecrypt', '_decryptThenMAC', '_decryptStreamThenMAC')


def _mk_decrypt_hook(name):
    def h(ex, recv, args, kwargs, st, fr, node):
        r = fresh_opaque('plain_' + name)
        if name != '_decryptSSL2' and 'header' in st.env and 'data' in st.env:
            # C17 "a fatal alert received from the peer is surfaced as such": in TLS 1.3 the peer may abort before it has keys;
            # its short plaintext alert arriving as the first record under the new read keys must not be fed to the AEAD
            # (it would turn the peer's alert into a local bad_record_mac)
            import ast as _ast

            def ev(src):
                outs = ex.eval(_ast.parse(src, mode='eval').body, st.fork(), fr)
                return truthy(outs[0].val)
            early_alert = z3.And(ev('self._is_tls13_plus()'), ev('header.type == ContentType.alert'), ev('len(data) < 3'),
                                 ev('self._readState'), ev('self._readState.encContext'), ev('self._readState.seqnum == 0'))
            ex.oblige(st, 'early-plaintext-alert-of-TLS1.3-is-not-decrypted@%s' % name, z3.Not(early_alert), kind='m2')
        st.events.append((name, args, r))
        st.ghost['authenticated'] = VBool(z3.BoolVal(True))      # by the contracts of C02 a normal return means the tag matched
        st.ghost['auth_by'] = VInt(DECRYPTORS.index(name))
        return [Outcome('normal', st, r), Outcome('raise', st.fork(), __import__('pyvc.values', fromlist=['VExc']).VExc(TLSBadRecordMAC, [], name))]
    return h


def h_recv(ex, recv, args, kwargs, st, fr, node):
    """RecordSocket.recv(): (header, data) of the next record"""
    r = fresh_opaque('record')
    st.events.append(('recv', args, r))
    st.ghost['authenticated'] = VBool(z3.BoolVal(False))          # a new record: nothing authenticated yet
    st.ghost['n_recv'] = VInt(ex.ghost_get(st, 'n_recv').t + 1) if isinstance(ex.ghost_get(st, 'n_recv'), VInt) else VInt(1)
    return [Outcome('normal', st, r)]


def on_yield(ex, val, st, fr, node):
    """every yield of recvRecord that is not a 0/1 pass-through hands a record to the caller"""
    if not isinstance(val, VTuple):
        return
    self_ = st.env['self']
    hdr = st.env.get('header')
    data = st.env.get('data')
    auth = ex.ghost_get(st, 'authenticated')
    tls13 = None
    # which unauthenticated records may be delivered (RFC 8446 5: CCS and early plaintext alerts; or no keys yet)
    rs = ex.getattr_(self_, '_readState', st, fr)[0].val
    enc = ex.getattr_(rs, 'encContext', st, fr)[0].val
    mac = ex.getattr_(rs, 'macContext', st, fr)[0].val
    no_keys = z3.And(z3.Not(truthy(enc)), z3.Not(truthy(mac)))
    htype = z3.Function('v_attr_type', smt.Val, smt.Val)(to_val(st.ghost.get('hdr0', hdr)))
    is_ccs = htype == to_val(VInt(ContentType.change_cipher_spec))
    is_alert = htype == to_val(VInt(ContentType.alert))
    import ast as _ast

    def ev(src):
        outs = ex.eval(_ast.parse(src, mode='eval').body, st.fork(), fr)
        return truthy(outs[0].val)
    tls13 = ev('self._is_tls13_plus()')
    early_alert = z3.And(tls13, is_alert, ev('len(data) < 3'), ev('self._readState.seqnum == 0'))
    # RFC 8446 5 / D.4: in TLS 1.3 a plaintext change_cipher_spec may appear at any time; before the first protected
    # record a short plaintext alert is tolerated.  Nothing else is delivered unauthenticated once keys are installed.
    ex.oblige(st, 'delivered-record-authenticated-or-allowed-plaintext',
              z3.Or(truthy(auth), no_keys, z3.And(tls13, is_ccs), early_alert), kind='m2')
    # RFC 5246 6.2.1 / RFC 8446 5.1: plaintext larger than the limit in force is never delivered
    lim = ex.getattr_(self_, 'recv_record_limit', st, fr)[0].val
    vlen = z3.Function('v_len', smt.Val, smt.I)(to_val(data))
    gt = z3.Function('v_cmp_gt', smt.Val, smt.Val, smt.B)(to_val(VInt(vlen)), to_val(lim))
    ex.oblige(st, 'delivered-plaintext-within-recv_record_limit', z3.Not(gt), kind='m2')
    # the early-data tolerance is over as soon as a record is delivered
    edo = ex.getattr_(self_, '_early_data_ok', st, fr)[0].val
    ex.oblige(st, 'early-data-window-closed-after-delivery', z3.Not(truthy(edo)), kind='m2')


def _setup(ex, st, fr):
    pass


_hooks = dict((n, _mk_decrypt_hook(n)) for n in DECRYPTORS)
_hooks['recv'] = h_recv

SPEC = M2Spec(hooks=_hooks, pure={'isinstance', '_is_tls13_plus', 'len', 'Parser', 'create', 'copy', '_tls13_de_pad'},
              inline={RLQ + 'recv_record_limit', RLQ + 'early_data_ok'},     # properties: executed from real source
              on_yield=on_yield)


def _check(api):
    api.oblige(api.entry, 'analysis-covered-the-loop', len(api.ex.obligations) >= 3)
    for o in api.raise_exits():
        # a record that fails authentication outside the early-data window leaves as an exception, never as data
        pass


m2task('recvRecord/delivery', ('C02', 'C01', 'C08'), RLQ + 'recvRecord', SPEC, check=_check, setup=_setup, opts={'ground_feasible': True},
       doc='recvRecord hands a record to its caller only if one of the unprotect functions returned normally for it '
           '(or it is a plaintext CCS / early alert / no keys are installed), its plaintext is within recv_record_limit, '
           'and the early-data tolerance flag is cleared')
