"""C17: a socket.error while sending a handshake message is swallowed when the next pending record is not an alert."""
import socket, sys
sys.path.insert(0, '/repo')
from tlslite.tlsrecordlayer import TLSRecordLayer
from tlslite.messages import Message
from tlslite.constants import ContentType

class Sock(object):
    """send fails with EPIPE; one complete plaintext handshake record (type 22, a ServerHelloDone) is pending for reading"""
    def __init__(self):
        self.pending = bytearray(b'\x16\x03\x03\x00\x04' + b'\x0e\x00\x00\x00')
        self.closed = False
    def send(self, data): raise socket.error(32, 'Broken pipe')
    sendall = send
    def recv(self, n):
        r = bytes(self.pending[:n]); del self.pending[:n]; return r
    def close(self): self.closed = True

c = TLSRecordLayer(Sock())
c.version = (3, 3)
c.closed = False                     # as during a handshake that is under way
msg = Message(ContentType.handshake, bytearray(b'\x10\x00\x00\x01\x00'))   # some handshake message (ClientKeyExchange)
try:
    for r in c._sendMsgThroughSocket(msg):
        pass
    print('RETURNED NORMALLY: no exception although send() raised EPIPE; closed =', c.closed, '; sock closed =', c.sock.socket.closed if hasattr(c.sock,'socket') else '?')
except Exception as e:
    print('raised', type(e).__name__, e)
# same through _sendMsg (what the handshake code calls)
c2 = TLSRecordLayer(Sock()); c2.version = (3, 3); c2.closed = False
try:
    for r in c2._sendMsg(msg): pass
    print('_sendMsg RETURNED NORMALLY; closed =', c2.closed)
except Exception as e:
    print('_sendMsg raised', type(e).__name__, e)
# control: pending alert -> TLSRemoteAlert; application data message -> socket.error
c3 = TLSRecordLayer(Sock()); c3.version = (3, 3); c3.closed = False
c3.sock.socket.pending = bytearray(b'\x15\x03\x03\x00\x02\x02\x28')
try:
    for r in c3._sendMsg(msg): pass
    print('control alert: returned')
except Exception as e:
    print('control (alert pending): raised', type(e).__name__, e)
c4 = TLSRecordLayer(Sock()); c4.version = (3, 3); c4.closed = False
try:
    for r in c4._sendMsg(Message(ContentType.application_data, bytearray(b'hi'))): pass
    print('control appdata: returned')
except Exception as e:
    print('control (application data): raised', type(e).__name__, e)
