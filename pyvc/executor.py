"""Symbolic executor: Python AST -> verification conditions.

Forward symbolic execution of the real function bodies with path splitting at
branches and at every operation that can raise.  Calls are replaced by the
callee's contract (modular), by an external model, by inlining (small helpers)
or by an opaque result.  Loops are cut by sidecar invariants or completely
unrolled when the trip count is a literal constant.
"""
import ast
import builtins
import inspect
import types

import z3

from . import smt, source
from .values import (V, VInt, VBool, VNone, VStr, VSeq, VTuple, VList, VDict, VObj, VPy, VOpaque, VExc,
                     Unsupported, truthy, int_binop, cmp_op, eq_op, norm_slice, seq_concat,
                     seq_from_items, fresh_like, fresh_name, ite, same_value, collect, _lift, to_val)
from .state import State, T
from .smt import slen, sat, isb

MAX_UNROLL = 160
MAX_PATHS = 4000


class Obligation(object):
    def __init__(self, name, pc, goal, kind='assert', trace=None, where=None):
        self.name = name
        self.pc = list(pc)
        self.goal = goal
        self.kind = kind
        self.trace = list(trace or [])
        self.where = where


class Outcome(object):
    """kind in normal | return | raise | break | continue"""
    __slots__ = ('kind', 'st', 'val')

    def __init__(self, kind, st, val=None):
        self.kind = kind
        self.st = st
        self.val = val


class Frame(object):
    """Static context of the function being executed."""

    def __init__(self, fs, contract=None, depth=0):
        self.fs = fs
        self.contract = contract
        self.depth = depth
        self.globals = fs.module.__dict__ if fs is not None else {}
        self.loop_ids = {}
        if fs is not None:
            loops = [n for n in ast.walk(fs.node) if isinstance(n, (ast.For, ast.While))]
            loops.sort(key=lambda n: (n.lineno, n.col_offset))
            for k, n in enumerate(loops):
                self.loop_ids[id(n)] = k + 1


def lift_py(obj, st=None):
    """Live Python value -> symbolic value."""
    if isinstance(obj, V):
        return obj
    if isinstance(obj, bool):
        return VBool(z3.BoolVal(obj))
    if isinstance(obj, int):
        return VInt(z3.IntVal(obj))
    if obj is None:
        return VNone()
    if isinstance(obj, str):
        return VStr(obj)
    if isinstance(obj, (bytes, bytearray)):
        return seq_from_items([VInt(b) for b in obj], 'byte', type(obj).__name__)
    if isinstance(obj, tuple):
        return VTuple([lift_py(x) for x in obj])
    if isinstance(obj, list):
        return VList([lift_py(x) for x in obj])
    if isinstance(obj, dict):
        return VDict(obj)
    return VPy(obj)


class Executor(object):
    def __init__(self, registry, opts=None):
        self.reg = registry                  # contract registry (contract.py)
        self.opts = opts or {}
        self.obligations = []
        self.assumptions = set()             # textual list of trusted things used
        self.inlined = set()
        self.opaque_calls = set()
        self.npaths = 0
        self.bv = None                       # bit width in BV mode
        self.prune = self.opts.get('prune', True)

    # ------------------------------------------------------------------ util
    def oblige(self, st, name, goal, kind='assert', where=None):
        if isinstance(goal, VBool):
            goal = goal.t
        if z3.is_true(z3.simplify(goal)):
            self.obligations.append(Obligation(name, [], z3.BoolVal(True), kind, st.trace, where))
            return
        self.obligations.append(Obligation(name, st.pc, goal, kind, st.trace, where))

    def feasible(self, st, extra=None):
        if not self.prune:
            return True
        pc = st.pc + ([extra] if extra is not None else [])
        return smt.feasible(pc)

    def split(self, st, cond):
        """Fork st on z3 Bool cond; returns (st_true or None, st_false or None)."""
        c = z3.simplify(cond)
        if z3.is_true(c):
            return st, None
        if z3.is_false(c):
            return None, st
        t = f = None
        if self.feasible(st, c):
            t = st.fork()
            t.assume(c)
        if self.feasible(st, z3.Not(c)):
            f = st.fork()
            f.assume(z3.Not(c))
        return t, f

    def add_facts(self, st, col):
        for f in col.facts:
            st.assume(f)
        for (label, f) in col.oblig:
            self.oblige(st, label, f, kind='bv-overflow')

    def raise_(self, st, cls, origin, args=()):
        return Outcome('raise', st, VExc(cls, args, origin))

    # ------------------------------------------------------------ expression
    def eval(self, node, st, fr):
        """Evaluate expression; returns list of Outcome(kind normal|raise)."""
        m = getattr(self, 'e_' + type(node).__name__, None)
        if m is None:
            raise Unsupported('expression %s at line %s' % (type(node).__name__, getattr(node, 'lineno', '?')))
        return m(node, st, fr)

    def eval_seq(self, nodes, st, fr):
        """Evaluate a list of expressions left to right.
        Returns list of (st, [values]) and list of raise outcomes."""
        acc = [(st, [])]
        raises = []
        for n in nodes:
            nxt = []
            for (s, vs) in acc:
                for o in self.eval(n, s, fr):
                    if o.kind == 'normal':
                        nxt.append((o.st, vs + [o.val]))
                    else:
                        raises.append(o)
            acc = nxt
        return acc, raises

    def e_Constant(self, node, st, fr):
        v = node.value
        if isinstance(v, (bytes,)):
            return [Outcome('normal', st, lift_py(v))]
        if v is Ellipsis:
            raise Unsupported('Ellipsis')
        if isinstance(v, float):
            from . import floats
            return [Outcome('normal', st, floats.const(v))]
        val = lift_py(v)
        if self.bv and isinstance(val, VInt):
            val = VInt(z3.BitVecVal(v, self.bv))
        return [Outcome('normal', st, val)]

    def e_Name(self, node, st, fr):
        n = node.id
        if n in st.env:
            return [Outcome('normal', st, st.env[n])]
        if n in fr.globals:
            return [Outcome('normal', st, lift_py(fr.globals[n]))]
        if hasattr(builtins, n):
            return [Outcome('normal', st, VPy(getattr(builtins, n)))]
        return [self.raise_(st, NameError, 'name %s line %d' % (n, node.lineno))]

    def e_Tuple(self, node, st, fr):
        acc, raises = self.eval_seq(node.elts, st, fr)
        return [Outcome('normal', s, VTuple(vs)) for s, vs in acc] + raises

    def e_List(self, node, st, fr):
        acc, raises = self.eval_seq(node.elts, st, fr)
        return [Outcome('normal', s, VList(vs)) for s, vs in acc] + raises

    def e_Dict(self, node, st, fr):
        """dict literal with constant (int / str) keys, e.g. `{}`: a VDict with statically known keys"""
        if not all(isinstance(k, ast.Constant) and isinstance(k.value, (int, str)) for k in node.keys):
            raise Unsupported('dict literal with non-constant keys at line %s' % getattr(node, 'lineno', '?'))
        acc, raises = self.eval_seq(list(node.values), st, fr)
        keys = [k.value for k in node.keys]
        return [Outcome('normal', s, VDict(dict(zip(keys, vs)))) for s, vs in acc] + raises

    def e_UnaryOp(self, node, st, fr):
        out = []
        for o in self.eval(node.operand, st, fr):
            if o.kind != 'normal':
                out.append(o)
                continue
            v = o.val
            if isinstance(node.op, ast.Not):
                out.append(Outcome('normal', o.st, VBool(z3.Not(truthy(v)))))
            elif isinstance(node.op, ast.USub):
                v = self._as_int(v)
                if v.is_bv():
                    with collect() as col:
                        r = int_binop('-', VInt(z3.BitVecVal(0, self.bv)), v)
                    self.add_facts(o.st, col)
                    out.append(Outcome('normal', o.st, r))
                else:
                    out.append(Outcome('normal', o.st, VInt(-v.t)))
            elif isinstance(node.op, ast.Invert):
                v = self._as_int(v)
                out.append(Outcome('normal', o.st, VInt(~v.t if v.is_bv() else -v.t - 1)))
            elif isinstance(node.op, ast.UAdd):
                out.append(Outcome('normal', o.st, self._as_int(v)))
            else:
                raise Unsupported('unary op')
        return out

    def _as_int(self, v):
        if isinstance(v, VBool):
            return VInt(z3.If(v.t, 1, 0))
        if isinstance(v, VInt):
            return v
        raise Unsupported('expected int, got %r' % (v,))

    _BINOPS = {ast.Add: '+', ast.Sub: '-', ast.Mult: '*', ast.FloorDiv: '//', ast.Mod: '%',
               ast.BitAnd: '&', ast.BitOr: '|', ast.BitXor: '^', ast.LShift: '<<', ast.RShift: '>>',
               ast.Pow: '**'}

    def e_BinOp(self, node, st, fr):
        acc, raises = self.eval_seq([node.left, node.right], st, fr)
        out = list(raises)
        for s, (a, b) in acc:
            out.extend(self.binop(node.op, a, b, s, node))
        return out

    def binop(self, op, a, b, st, node):
        if isinstance(op, ast.Div):
            from . import floats
            return floats.truediv(self, a, b, st, node)
        sym = self._BINOPS.get(type(op))
        if sym is None:
            raise Unsupported('binop %s' % type(op).__name__)
        # sequences
        if isinstance(a, VSeq) or isinstance(b, VSeq):
            if sym == '+':
                if isinstance(a, VSeq) and isinstance(b, VList):
                    b = self._list_to_seq(b, st)
                if isinstance(b, VSeq) and isinstance(a, VList):
                    a = self._list_to_seq(a, st)
                if isinstance(a, VSeq) and isinstance(b, VSeq):
                    return [Outcome('normal', st, seq_concat(a, b))]
            if sym == '*':
                s_, n = (a, b) if isinstance(a, VSeq) else (b, a)
                n = self._as_int(n)
                c = z3.simplify(slen(s_.t))
                if z3.is_int_value(c) and c.as_long() == 1:
                    cnt = z3.If(n.t < 0, 0, n.t)
                    return [Outcome('normal', st, VSeq(smt.s_rep(sat(s_.t, 0), cnt), s_.elem, s_.pytype))]
                if z3.is_app(s_.t) and s_.t.decl().eq(smt.s_single):      # one-element literal, e.g. b'\xff' * n
                    cnt = z3.If(n.t < 0, 0, n.t)
                    return [Outcome('normal', st, VSeq(smt.s_rep(s_.t.arg(0), cnt), s_.elem, s_.pytype))]
            raise Unsupported('sequence op %s' % sym)
        if sym == '+' and (hasattr(a, 'concat_') or hasattr(b, 'concat_')):      # guarded lists (pyvc/finite.py)
            r = a.concat_(self, b, st) if hasattr(a, 'concat_') else b.concat_(self, a, st, left=False)
            return [Outcome('normal', st, r)]
        if isinstance(a, (VList, VTuple)) and isinstance(b, (VList, VTuple)) and sym == '+' and type(a) is type(b):
            return [Outcome('normal', st, type(a)(a.items + b.items))]
        if isinstance(a, VList) and sym == '*' and isinstance(b, VInt) and b.concrete() is not None:
            return [Outcome('normal', st, VList(a.items * b.concrete()))]
        if isinstance(a, VList) and sym == '*' and isinstance(b, VInt) and len(a.items) == 1 \
                and isinstance(a.items[0], VInt):
            cnt = z3.If(b.t < 0, 0, b.t)
            return [Outcome('normal', st, VSeq(smt.s_rep(a.items[0].t, cnt), 'int', 'list'))]
        if isinstance(a, VStr) and isinstance(b, VStr) and sym == '+':
            return [Outcome('normal', st, VStr(a.s + b.s))]
        if isinstance(a, VStr) and isinstance(b, VInt) and sym == '*':
            from .values import VStrRep
            if b.concrete() is not None:
                return [Outcome('normal', st, VStr(a.s * b.concrete()))]
            return [Outcome('normal', st, VStrRep('', a.s, b))]
        if isinstance(a, VStr) and type(b).__name__ == 'VStrRep' and sym == '+':
            from .values import VStrRep
            return [Outcome('normal', st, VStrRep(a.s + b.prefix, b.unit, b.count))]
        if isinstance(a, VStr) and sym == '%':
            return [Outcome('normal', st, VStr(a.s))]           # message formatting: content irrelevant
        if isinstance(a, VOpaque) or isinstance(b, VOpaque):
            f = z3.Function('v_binop_' + type(op).__name__, smt.Val, smt.Val, smt.Val)
            return [Outcome('normal', st, VOpaque(f(to_val(a), to_val(b))))]
        a = self._as_int(a)
        b = self._as_int(b)
        out = []
        if sym in ('//', '%'):
            zero = (b.t == 0)
            ok, bad = self.split(st, z3.Not(zero))
            if bad is not None:
                out.append(self.raise_(bad, ZeroDivisionError, 'line %d' % node.lineno))
            if ok is None:
                return out
            st = ok
        if sym in ('<<', '>>') and not b.is_bv():
            neg = b.t < 0
            ok, bad = self.split(st, z3.Not(neg))
            if bad is not None:
                out.append(self.raise_(bad, ValueError, 'negative shift line %d' % node.lineno))
            if ok is None:
                return out
            st = ok
        if sym == '<<' and not b.is_bv() and not a.is_bv() and b.concrete() is None:
            # symbolic shift amount: case split over 0..64 (an amount that can exceed 64 is unsupported)
            hi = 64
            for h in (8, 16, 32):                      # narrow the range with a few queries first
                if not self.feasible(st, b.t > h):
                    hi = h
                    break
            if hi == 64 and self.feasible(st, b.t > 64):
                raise Unsupported('symbolic shift amount not bounded by 64 (line %d)' % getattr(node, 'lineno', 0))
            for c in range(0, hi + 1):
                if self.feasible(st, b.t == c):
                    t = st.fork()
                    t.assume(b.t == c)
                    out.append(Outcome('normal', t, int_binop('<<', a, VInt(c))))
            return out
        with collect() as col:
            r = int_binop(sym, a, b)
        self.add_facts(st, col)
        out.append(Outcome('normal', st, r))
        return out

    def _list_to_seq(self, l, st):
        return seq_from_items([self._as_int(x) for x in l.items], 'int', 'list')

    def e_BoolOp(self, node, st, fr):
        is_and = isinstance(node.op, ast.And)

        def rec(i, s):
            outs = []
            for o in self.eval(node.values[i], s, fr):
                if o.kind != 'normal':
                    outs.append(o)
                    continue
                if i == len(node.values) - 1:
                    outs.append(o)
                    continue
                c = truthy(o.val)
                t, f = self.split(o.st, c)
                cont, stop = (t, f) if is_and else (f, t)
                if stop is not None:
                    outs.append(Outcome('normal', stop, o.val))
                if cont is not None:
                    outs.extend(rec(i + 1, cont))
            return outs
        # try the pure (non-forking) route first: all operands side-effect free
        pure = self._pure_boolop(node, st, fr)
        if pure is not None:
            return [Outcome('normal', st, pure)]
        return rec(0, st)

    def _pure_boolop(self, node, st, fr):
        """If every operand evaluates without forking/raising/side effects and
        is boolean-like, return one VBool built with And/Or (with short-circuit
        guarding: later operands are evaluated under the earlier ones)."""
        if not self.opts.get('pure_boolop', True):
            return None
        is_and = isinstance(node.op, ast.And)
        s = st.fork()
        terms = []
        for vn in node.values:
            n_ob = len(self.obligations)
            try:
                outs = self.eval(vn, s, fr)
            except Unsupported:
                del self.obligations[n_ob:]
                return None
            if len(outs) != 1 or outs[0].kind != 'normal' or len(self.obligations) != n_ob:
                del self.obligations[n_ob:]
                return None
            o = outs[0]
            if o.st is not s or s.heap.keys() != st.heap.keys() or len(s.events) != len(st.events):
                # state changed (fork or side effect)
                if o.st is not s:
                    return None
            v = o.val
            if not isinstance(v, (VBool,)):
                return None
            terms.append(v.t)
            # later operands are evaluated assuming the earlier ones allow it
            s = s.fork()
            s.assume(v.t if is_and else z3.Not(v.t))
        return VBool(z3.And(terms) if is_and else z3.Or(terms))

    def e_Compare(self, node, st, fr):
        if len(node.ops) == 1:
            acc, raises = self.eval_seq([node.left, node.comparators[0]], st, fr)
            out = list(raises)
            for s, (a, b) in acc:
                out.extend(self.compare(node.ops[0], a, b, s, fr, node))
            return out
        # chained: a < b <= c  ==  (a < b) and (b <= c) with b evaluated once
        acc, raises = self.eval_seq([node.left] + list(node.comparators), st, fr)
        out = list(raises)
        for s, vals in acc:
            states = [(s, z3.BoolVal(True))]
            for i, op in enumerate(node.ops):
                nxt = []
                for (s2, accb) in states:
                    for o in self.compare(op, vals[i], vals[i + 1], s2, fr, node):
                        if o.kind != 'normal':
                            out.append(o)
                        else:
                            nxt.append((o.st, z3.And(accb, truthy(o.val))))
                states = nxt
            for (s2, accb) in states:
                out.append(Outcome('normal', s2, VBool(z3.simplify(accb))))
        return out

    def compare(self, op, a, b, st, fr, node):
        if isinstance(op, (ast.Is, ast.IsNot)):
            if isinstance(a, VOpaque) or isinstance(b, VOpaque):
                r = VBool(to_val(a) == to_val(b))
            elif isinstance(a, VNone) or isinstance(b, VNone):
                r = VBool(z3.BoolVal(isinstance(a, VNone) and isinstance(b, VNone)))
            elif isinstance(a, VBool) and isinstance(b, VBool):
                r = VBool(a.t == b.t)
            elif isinstance(a, VObj) and isinstance(b, VObj):
                r = VBool(z3.BoolVal(a.oid == b.oid))
            elif isinstance(a, VPy) and isinstance(b, VPy):
                r = VBool(z3.BoolVal(a.obj is b.obj))
            elif type(a) is not type(b):
                r = VBool(z3.BoolVal(False))
            else:
                raise Unsupported('is on %r %r' % (a, b))
            if isinstance(op, ast.IsNot):
                r = VBool(z3.Not(r.t))
            return [Outcome('normal', st, r)]
        if isinstance(op, (ast.In, ast.NotIn)):
            r = self.contains(b, a, st)
            if isinstance(op, ast.NotIn):
                r = VBool(z3.Not(r.t))
            return [Outcome('normal', st, r)]
        sym = {ast.Eq: '==', ast.NotEq: '!=', ast.Lt: '<', ast.LtE: '<=', ast.Gt: '>', ast.GtE: '>='}[type(op)]
        r = cmp_op(sym, a, b)
        if sym in ('==', '!=') and isinstance(a, VSeq) and isinstance(b, VSeq):
            # give the negative branch an observable witness
            st.assume(smt.ext_witness_eq(a.t, b.t))
            from .seqlit import literal_eq_fact
            lf = literal_eq_fact(a.t, b.t)           # comparison with a bytes literal: decided by length + elements
            if lf is not None:
                st.assume(lf)
        return [Outcome('normal', st, r)]

    def contains(self, container, x, st):
        if hasattr(container, 'contains_'):        # finite-domain values (pyvc/finite.py)
            return container.contains_(x)
        if isinstance(container, VStr) and isinstance(x, VStr):
            return VBool(z3.BoolVal(x.s in container.s))
        if isinstance(container, (VTuple, VList)):
            if isinstance(x, VSeq):
                from .seqlit import literal_eq_fact
                for it in container.items:
                    lf = literal_eq_fact(x.t, it.t) if isinstance(it, VSeq) else None
                    if lf is not None:
                        st.assume(lf)
            return VBool(z3.Or([eq_op(x, it).t for it in container.items] + [z3.BoolVal(False)]))
        if isinstance(container, VDict):
            if isinstance(x, VInt):
                ks = [k for k in container.d.keys() if isinstance(k, int) and not isinstance(k, bool)]
                return VBool(z3.Or([x.t == k for k in ks] + [z3.BoolVal(False)]))
            if isinstance(x, VStr):
                return VBool(z3.BoolVal(x.s in container.d))
            if isinstance(x, VTuple):
                ks = [k for k in container.d.keys() if isinstance(k, tuple)]
                return VBool(z3.Or([eq_op(x, lift_py(k)).t for k in ks] + [z3.BoolVal(False)]))
        if isinstance(container, VPy) and isinstance(container.obj, (list, tuple, set, frozenset, dict)):
            return self.contains(VList([lift_py(e) for e in container.obj]), x, st)
        if isinstance(container, VSeq) and isinstance(x, VInt):
            k = z3.Int(fresh_name('in_k'))
            return VBool(z3.Exists([k], z3.And(0 <= k, k < slen(container.t), sat(container.t, k) == x.t)))
        if isinstance(container, VOpaque) or isinstance(x, VOpaque):
            f = z3.Function('v_in', smt.Val, smt.Val, smt.B)
            return VBool(f(to_val(x), to_val(container)))
        if isinstance(container, VObj):             # heap-object collection models (pyvc/symcoll.py)
            m = self.reg.models.get(container.cls)
            if m is not None and hasattr(m, 'contains'):
                return m.contains(self, container, x, st)
        raise Unsupported('in on %r' % (container,))

    def e_IfExp(self, node, st, fr):
        out = []
        for o in self.eval(node.test, st, fr):
            if o.kind != 'normal':
                out.append(o)
                continue
            t, f = self.split(o.st, truthy(o.val))
            if t is not None:
                out.extend(self.eval(node.body, t, fr))
            if f is not None:
                out.extend(self.eval(node.orelse, f, fr))
        return out

    def e_Attribute(self, node, st, fr):
        out = []
        for o in self.eval(node.value, st, fr):
            if o.kind != 'normal':
                out.append(o)
                continue
            out.extend(self.getattr_(o.val, node.attr, o.st, fr, node))
        return out

    def getattr_(self, v, name, st, fr, node=None):
        line = getattr(node, 'lineno', 0)
        if isinstance(v, VObj):
            key = (v.oid, name)
            if key in st.heap:
                return [Outcome('normal', st, st.heap[key])]
            # class attribute / method
            cls = v.cls
            if inspect.isclass(cls):
                for k in cls.__mro__:
                    if name in k.__dict__:
                        raw = k.__dict__[name]
                        if isinstance(raw, property):
                            return self.call_function(raw.fget, [v], {}, st, fr, node)
                        if isinstance(raw, (types.FunctionType,)):
                            return [Outcome('normal', st, VPy(BoundMethod(v, raw, cls)))]
                        if isinstance(raw, (staticmethod,)):
                            return [Outcome('normal', st, VPy(raw.__func__))]
                        if isinstance(raw, (classmethod,)):
                            return [Outcome('normal', st, VPy(BoundMethod(VPy(cls), raw.__func__, cls)))]
                        return [Outcome('normal', st, lift_py(raw))]
            model = self.reg.models.get(cls) if not inspect.isclass(cls) else None
            if model is not None:
                r = model.getattr(self, v, name, st)
                if r is not None:
                    return [Outcome('normal', st, r)]
            # lazily materialise a declared field
            ft = self.reg.field_type(cls, name)
            if ft is not None:
                val = ft.make('%s.%s' % (getattr(cls, '__name__', cls), name), st, self.bv)
                st.heap[key] = val
                return [Outcome('normal', st, val)]
            if v.oid in st.fresh_objs and inspect.isclass(cls) and name != '__getattr__':
                # an object created on this path has all its instance attributes on the heap: a failed normal
                # lookup falls back to the class's __getattr__ (Python semantics), executed from the real source
                for k in cls.__mro__:
                    ga = k.__dict__.get('__getattr__')
                    if isinstance(ga, types.FunctionType):
                        return self.call_function(ga, [v, VStr(name)], {}, st, fr, node, owner=k)
            if v.oid in st.fresh_objs or self.opts.get('strict_attrs'):
                return [self.raise_(st, AttributeError, 'attribute %s line %d' % (name, line))]
            val = VOpaque(z3.Const(fresh_name('fld_%s' % name), smt.Val))
            st.heap[key] = val
            return [Outcome('normal', st, val)]
        if isinstance(v, VPy):
            try:
                a = getattr(v.obj, name)
            except AttributeError:
                return [self.raise_(st, AttributeError, 'attribute %s line %d' % (name, line))]
            return [Outcome('normal', st, lift_py(a))]
        if isinstance(v, VNone):
            return [self.raise_(st, AttributeError, 'None.%s line %d' % (name, line))]
        if isinstance(v, (VSeq, VList, VDict, VStr, VTuple, VInt)):
            return [Outcome('normal', st, VPy(BuiltinMethod(v, name)))]
        if isinstance(v, VOpaque):
            hook = getattr(self.reg, 'opaque_attr', {}).get(name)      # modelled method of an opaque value
            if hook is not None:
                return [Outcome('normal', st, hook(self, v, st))]
            f = z3.Function('v_attr_' + name, smt.Val, smt.Val)
            return [Outcome('normal', st, VOpaque(f(v.t)))]
        raise Unsupported('getattr %s on %r' % (name, v))

    def e_Subscript(self, node, st, fr):
        out = []
        for o in self.eval(node.value, st, fr):
            if o.kind != 'normal':
                out.append(o)
                continue
            base = o.val
            if isinstance(node.slice, ast.Slice):
                sl = node.slice
                if sl.step is not None:
                    raise Unsupported('slice step')
                parts = [p for p in (sl.lower, sl.upper)]
                acc = [(o.st, [])]
                for p in parts:
                    nxt = []
                    for (s, vs) in acc:
                        if p is None:
                            nxt.append((s, vs + [None]))
                        else:
                            for o2 in self.eval(p, s, fr):
                                if o2.kind != 'normal':
                                    out.append(o2)
                                else:
                                    nxt.append((o2.st, vs + [o2.val]))
                    acc = nxt
                for (s, (lo, hi)) in acc:
                    out.append(Outcome('normal', s, self.slice_(base, lo, hi, s)))
            else:
                for o2 in self.eval(node.slice, o.st, fr):
                    if o2.kind != 'normal':
                        out.append(o2)
                    else:
                        out.extend(self.index(base, o2.val, o2.st, node))
        return out

    def simp_ite(self, st, t, depth=0):
        """Resolve top-level if-then-else terms whose condition is decided by the
        path condition (keeps slice bounds free of Python's clamping case splits)."""
        t = z3.simplify(t)
        if depth > 6 or not (z3.is_app(t) and t.decl().kind() == z3.Z3_OP_ITE):
            return t
        c, a, b = t.children()
        if not smt.feasible(st.pc + [z3.Not(c)], 150):
            return self.simp_ite(st, a, depth + 1)
        if not smt.feasible(st.pc + [c], 150):
            return self.simp_ite(st, b, depth + 1)
        return t

    def slice_(self, base, lo, hi, st):
        if isinstance(base, VSeq):
            l, h = norm_slice(base, lo, hi)
            l, h = self.simp_ite(st, l), self.simp_ite(st, h)
            return VSeq(smt.s_slice(base.t, l, h), base.elem, base.pytype)
        if isinstance(base, (VList, VTuple)):
            def c(v):
                if v is None or isinstance(v, VNone):
                    return None
                k = v.concrete()
                if k is None:
                    raise Unsupported('symbolic slice of list')
                return k
            return type(base)(base.items[c(lo):c(hi)])
        raise Unsupported('slice of %r' % (base,))

    def index(self, base, idx, st, node):
        line = getattr(node, 'lineno', 0)
        if isinstance(base, VSeq):
            i = self._as_int(idx)
            n = slen(base.t)
            inr = z3.And(-n <= i.t, i.t < n)
            ok, bad = self.split(st, inr)
            out = []
            if bad is not None:
                out.append(self.raise_(bad, IndexError, 'index line %d' % line))
            if ok is not None:
                k = z3.simplify(z3.If(i.t < 0, i.t + n, i.t))
                val = VInt(sat(base.t, k))
                if base.elem == 'byte':
                    ok.assume(z3.And(0 <= val.t, val.t <= 255))   # instance of the isb axiom
                out.append(Outcome('normal', ok, val))
            return out
        if type(base).__name__ == 'VTupSeq':
            i = self._as_int(idx)
            n = base.len().t
            ok, bad = self.split(st, z3.And(-n <= i.t, i.t < n))
            out = []
            if bad is not None:
                out.append(self.raise_(bad, IndexError, 'index line %d' % line))
            if ok is not None:
                out.append(Outcome('normal', ok, base[i]))
            return out
        if isinstance(base, (VList, VTuple)):
            i = self._as_int(idx)
            c = i.concrete()
            n = len(base.items)
            if c is not None:
                if -n <= c < n:
                    return [Outcome('normal', st, base.items[c])]
                return [self.raise_(st, IndexError, 'index line %d' % line)]
            out = []
            for k in range(n):
                t, _ = self.split(st, i.t == k)
                if t is not None:
                    out.append(Outcome('normal', t, base.items[k]))
            t, _ = self.split(st, z3.Or(i.t < -n, i.t >= n))
            if t is not None:
                out.append(self.raise_(t, IndexError, 'index line %d' % line))
            for k in range(-n, 0):
                t, _ = self.split(st, i.t == k)
                if t is not None:
                    out.append(Outcome('normal', t, base.items[k]))
            return out
        if isinstance(base, VDict) or (isinstance(base, VPy) and isinstance(base.obj, dict)):
            d = base.d if isinstance(base, VDict) else base.obj
            if isinstance(idx, VStr):
                if idx.s in d:
                    return [Outcome('normal', st, lift_py(d[idx.s]))]
                return [self.raise_(st, KeyError, 'key line %d' % line)]
            if isinstance(idx, VInt):
                c = idx.concrete()
                if c is not None:
                    if c in d:
                        return [Outcome('normal', st, lift_py(d[c]))]
                    return [self.raise_(st, KeyError, 'key line %d' % line)]
                out = []
                conds = []
                for k in d:
                    if isinstance(k, int):
                        t, _ = self.split(st, idx.t == k)
                        conds.append(idx.t == k)
                        if t is not None:
                            out.append(Outcome('normal', t, lift_py(d[k])))
                t, _ = self.split(st, z3.Not(z3.Or(conds + [z3.BoolVal(False)])))
                if t is not None:
                    out.append(self.raise_(t, KeyError, 'key line %d' % line))
                return out
            if isinstance(idx, VTuple):
                out = []
                conds = []
                for k in d:
                    if isinstance(k, tuple):
                        c = eq_op(idx, lift_py(k)).t
                        conds.append(c)
                        t, _ = self.split(st, c)
                        if t is not None:
                            out.append(Outcome('normal', t, lift_py(d[k])))
                t, _ = self.split(st, z3.Not(z3.Or(conds + [z3.BoolVal(False)])))
                if t is not None:
                    out.append(self.raise_(t, KeyError, 'key line %d' % line))
                return out
        if isinstance(base, VOpaque):
            f = z3.Function('v_getitem', smt.Val, smt.Val, smt.Val)
            return [Outcome('normal', st, VOpaque(f(base.t, to_val(idx))))]
        if isinstance(base, VObj):                  # heap-object collection models (pyvc/symcoll.py)
            m = self.reg.models.get(base.cls)
            if m is not None and hasattr(m, 'getitem'):
                return m.getitem(self, base, idx, st, node)
        raise Unsupported('index on %r' % (base,))

    def e_Call(self, node, st, fr):
        from . import builtins_model
        if isinstance(node.func, ast.Attribute) and node.func.attr in builtins_model.MUTATORS:
            r = self._mutating_call(node, st, fr)
            if r is not None:
                return r
        # callee
        out = []
        for o in self.eval(node.func, st, fr):
            if o.kind != 'normal':
                out.append(o)
                continue
            argnodes = []
            starred = set()
            for a in node.args:
                if isinstance(a, ast.Starred):
                    starred.add(len(argnodes))
                    a = a.value
                argnodes.append(a)
            kwnames = []
            for k in node.keywords:
                kwnames.append(k.arg)               # None: f(**mapping)
                argnodes.append(k.value)
            acc, raises = self.eval_seq(argnodes, o.st, fr)
            out.extend(raises)
            for s, vals in acc:
                npos = len(node.args)
                args = vals[:npos]
                kwargs = {}
                for kn, kv in zip(kwnames, vals[npos:]):
                    if kn is not None:
                        kwargs[kn] = kv
                    elif isinstance(kv, VDict) and all(isinstance(x, str) for x in kv.d):
                        for x, y in kv.d.items():   # statically known mapping (values are symbolic values)
                            kwargs[x] = y if isinstance(y, V) else lift_py(y)
                    else:
                        raise Unsupported('**kwargs call with a non-static mapping')
                if starred:
                    args = self._expand_starred(args, starred, s, o.val)
                out.extend(self.call(o.val, args, kwargs, s, fr, node))
        return out

    def _expand_starred(self, args, starred, st, callee):
        """f(a, *xs): a statically known xs is spliced in; a symbolic-length sequence is passed as
        values.VStar, accepted only by struct.pack's model."""
        import struct
        from .values import VStar
        res = []
        for k, a in enumerate(args):
            if k not in starred:
                res.append(a)
                continue
            items = self.iter_items(a, st)
            if items is not None:
                res.extend(items)
            elif isinstance(a, VSeq) and isinstance(callee, VPy) and callee.obj is struct.pack:
                res.append(VStar(a))
            else:
                raise Unsupported('*args call with a symbolic-length argument')
        return res

    def _mutating_call(self, node, st, fr):
        """x.append(v) etc. on bytearray/list values: rebinding the receiver
        expression.  Returns None when the receiver is not such a value."""
        from . import builtins_model
        recv_outs = self.eval(node.func.value, st.fork(), fr)
        if len(recv_outs) != 1 or recv_outs[0].kind != 'normal' or \
                not (isinstance(recv_outs[0].val, (VSeq, VList)) or hasattr(recv_outs[0].val, 'mutate_')):
            return None
        out = []
        for o in self.eval(node.func.value, st, fr):
            if o.kind != 'normal':
                out.append(o)
                continue
            if node.keywords:
                raise Unsupported('keywords in mutator call')
            acc, raises = self.eval_seq(list(node.args), o.st, fr)
            out.extend(raises)
            for s, vals in acc:
                excs, ok = builtins_model.mutating_method(self, node.func.value, o.val, node.func.attr,
                                                          vals, {}, s, fr, node)
                if excs is None:
                    raise Unsupported('mutator %s on %r line %d' % (node.func.attr, o.val, node.lineno))
                out.extend(excs)
                if ok is not None:
                    s2, newv, ret = ok
                    tgt = _as_store(node.func.value)
                    for oa in self.assign(tgt, newv, s2, fr):
                        out.append(Outcome('normal', oa.st, ret) if oa.kind == 'normal' else oa)
        return out

    def e_Lambda(self, node, st, fr):
        return [Outcome('normal', st, VPy(Closure(node, dict(st.env), fr)))]

    def e_JoinedStr(self, node, st, fr):
        return [Outcome('normal', st, VStr('<fstring>'))]

    def e_ListComp(self, node, st, fr):
        return self._comp(node, st, fr, VList)

    def e_GeneratorExp(self, node, st, fr):
        return self._comp(node, st, fr, VList)

    def _comp(self, node, st, fr, mk):
        if len(node.generators) != 1:
            raise Unsupported('nested comprehension')
        g = node.generators[0]
        out = []
        for o in self.eval(g.iter, st, fr):
            if o.kind != 'normal':
                out.append(o)
                continue
            items = self.iter_items(o.val, o.st)
            if items is None:
                cs = getattr(self.reg, 'comp_symbolic', None)
                r = cs(self, node, g, o.val, o.st, fr) if cs is not None else None
                if r is None and g.ifs:            # filter over a sequence of symbolic length (pyvc/finite.py)
                    from . import finite
                    r = finite.comp_filter(self, node, g, o.val, o.st, fr)
                if r is None:
                    raise Unsupported('comprehension over symbolic-length iterable (line %d)' % node.lineno)
                out.append(Outcome('normal', o.st, r))
                continue
            if self.opts.get('guarded_comp'):      # opt-in: no forking on symbolic filter conditions (pyvc/finite.py)
                from . import finite
                r = finite.comp_static(self, node, g, items, o.st, fr)
                if r is not None:
                    out.append(Outcome('normal', o.st, r if mk is VList or not isinstance(r, VList) else mk(r.items)))
                    continue
            accs = [(o.st, [])]
            for it in items:
                nxt = []
                for (s, vs) in accs:
                    s = s.fork()
                    self.assign(g.target, it, s, fr)
                    conds = [(s, True)]
                    for cnd in g.ifs:
                        c2 = []
                        for (s2, _) in conds:
                            for oc in self.eval(cnd, s2, fr):
                                if oc.kind != 'normal':
                                    out.append(oc)
                                    continue
                                t, f = self.split(oc.st, truthy(oc.val))
                                if t is not None:
                                    c2.append((t, True))
                                if f is not None:
                                    nxt.append((f, vs))
                        conds = c2
                    for (s2, _) in conds:
                        for oe in self.eval(node.elt, s2, fr):
                            if oe.kind != 'normal':
                                out.append(oe)
                            else:
                                nxt.append((oe.st, vs + [oe.val]))
                accs = nxt
                if len(accs) > 256:
                    raise Unsupported('comprehension path explosion')
            for (s, vs) in accs:
                out.append(Outcome('normal', s, mk(vs)))
        return out

    def loop_source(self, v, st):
        """Index-range view of a stateful / composite iterable (iterator objects,
        zip of iterators, ...) supplied by registered providers (pyvc/iters.py)."""
        for prov in getattr(self.reg, 'loop_sources', ()):
            src = prov(self, v, st)
            if src is not None:
                return src
        return None

    def iter_items(self, v, st):
        """Statically known element list of an iterable, or None."""
        if isinstance(v, (VList, VTuple)):
            return list(v.items)
        if hasattr(v, 'static_items_'):            # finite-domain values (pyvc/finite.py)
            return v.static_items_()
        src = self.loop_source(v, st)
        if src is not None:
            return src.static_items(self, st)
        if isinstance(v, VPy) and isinstance(v.obj, RangeObj):
            r = v.obj
            a, b, c = r.start.concrete(), r.stop.concrete(), r.step.concrete()
            if None in (a, b, c) or c == 0:
                return None
            vals = list(range(a, b, c))
            if len(vals) > MAX_UNROLL:
                return None
            return [VInt(z3.BitVecVal(x, self.bv) if self.bv else z3.IntVal(x)) for x in vals]
        if isinstance(v, VSeq):
            n = z3.simplify(slen(v.t))
            if z3.is_int_value(n) and n.as_long() <= MAX_UNROLL:
                return [VInt(sat(v.t, k)) for k in range(n.as_long())]
            return None
        if isinstance(v, VDict):
            return [lift_py(k) for k in v.d.keys()]
        if isinstance(v, VPy) and isinstance(v.obj, (list, tuple, set, frozenset, dict)):
            return [lift_py(x) for x in v.obj]
        if isinstance(v, VPy) and isinstance(v.obj, ZipObj):
            ls = [self.iter_items(x, st) for x in v.obj.parts]
            if any(l is None for l in ls):
                return None
            return [VTuple(list(t)) for t in zip(*ls)]
        if isinstance(v, VPy) and isinstance(v.obj, EnumObj):
            l = self.iter_items(v.obj.inner, st)
            if l is None:
                return None
            return [VTuple([VInt(i + v.obj.start), x]) for i, x in enumerate(l)]
        return None

    # ------------------------------------------------------------------ calls
    def call(self, f, args, kwargs, st, fr, node):
        line = getattr(node, 'lineno', 0)
        if isinstance(f, VPy):
            obj = f.obj
            if isinstance(obj, BoundMethod):
                return self.call_function(obj.func, [obj.self] + args, kwargs, st, fr, node, owner=obj.cls)
            if isinstance(obj, BuiltinMethod):
                from . import builtins_model
                return builtins_model.call_method(self, obj.recv, obj.name, args, kwargs, st, fr, node)
            if isinstance(obj, Closure):
                return self.call_closure(obj, args, kwargs, st, fr, node)
            if isinstance(obj, NestedDef):
                return self.call_nested(obj, args, kwargs, st, fr, node)
            if isinstance(obj, SpecFn):
                return obj.fn(self, args, kwargs, st, fr, node)
            if inspect.isclass(obj):
                return self.instantiate(obj, args, kwargs, st, fr, node)
            if isinstance(obj, types.MethodType):
                return self.call_function(obj.__func__, [lift_py(obj.__self__)] + args, kwargs, st, fr, node)
            if callable(obj):
                return self.call_function(obj, args, kwargs, st, fr, node)
            raise Unsupported('call of %r line %d' % (obj, line))
        if isinstance(f, VOpaque):
            return self.opaque_call('opaque@%d' % line, [f] + args, st)
        raise Unsupported('call of %r line %d' % (f, line))

    def call_function(self, fn, args, kwargs, st, fr, node, owner=None):
        from . import builtins_model
        line = getattr(node, 'lineno', 0)
        fn0 = fn
        fn = source._unwrap(fn)
        # 1. external / builtin models
        h = builtins_model.lookup(fn)
        if h is not None:
            return h(self, args, kwargs, st, fr, node)
        qual = source.qual_of(fn)
        # 2. sidecar contract
        if qual is not None:
            c = self.reg.contract_for(qual, fr)
            if c is not None:
                return c.apply(self, args, kwargs, st, fr, node)
            ext = self.reg.external.get(qual)
            if ext is not None:
                return ext(self, args, kwargs, st, fr, node)
            # 3. inline small helpers from the real source
            fs = source.load(qual, fn)
            if self.reg.may_inline(qual, fs, fr):
                self.inlined.add(qual)
                return self.inline(fs, args, kwargs, st, fr, node)
        name = qual or getattr(fn, '__qualname__', repr(fn))
        ext = self.reg.external.get(name)
        if ext is not None:
            return ext(self, args, kwargs, st, fr, node)
        return self.opaque_call(name, args, st)

    def opaque_call(self, name, args, st, pure=False):
        """Unknown callee: result is a fresh opaque value; any declared
        exception class may be raised; heap fields of escaped objects are
        havocked according to the registry's frame policy."""
        if not self.opts.get('allow_opaque', False):
            raise Unsupported('call to %s has no contract, model or inlinable body' % name)
        self.opaque_calls.add(name)
        r = VOpaque(z3.Const(fresh_name('ret_' + name.split(':')[-1].replace('.', '_')), smt.Val))
        st.events.append((name, args, r))
        self.reg.havoc_for_opaque(self, name, args, st)
        return [Outcome('normal', st, r)]

    def bind_params(self, fs, args, kwargs, st, fr):
        a = fs.node.args
        names = [x.arg for x in a.posonlyargs + a.args]
        defaults = a.defaults
        env = {}
        if len(args) > len(names):
            if not a.vararg:
                raise Unsupported('too many args for %s' % fs.qual)
        if a.vararg:
            env[a.vararg.arg] = VTuple(list(args[len(names):]))       # def f(.., *args): surplus positionals
        for n, v in zip(names, args):
            env[n] = v
        known = set(names) | set(k.arg for k in a.kwonlyargs)
        extra_kw = {}
        for k, v in kwargs.items():
            if k in known or not a.kwarg:
                env[k] = v
            else:
                extra_kw[k] = v
        if a.kwarg:
            env[a.kwarg.arg] = VDict(extra_kw)                        # def f(.., **kwargs): surplus keywords
        first_default = len(names) - len(defaults)
        dfr = Frame(fs)
        for i, n in enumerate(names):
            if n not in env:
                if i >= first_default:
                    outs = self.eval(defaults[i - first_default], State(), dfr)
                    env[n] = outs[0].val
                else:
                    raise Unsupported('missing argument %s for %s' % (n, fs.qual))
        for ko, d in zip(a.kwonlyargs, a.kw_defaults):
            if ko.arg not in env:
                env[ko.arg] = self.eval(d, State(), dfr)[0].val
        return env

    def inline(self, fs, args, kwargs, st, fr, node):
        if fr.depth > 12:
            raise Unsupported('inline depth')
        if fs.is_generator:
            raise Unsupported('inlining generator %s' % fs.qual)
        nf = Frame(fs, self.reg.loop_contract(fs.qual), fr.depth + 1)
        env = self.bind_params(fs, args, kwargs, st, fr)
        saved = st.env
        st2 = st
        st2.env = env
        outs = self.exec_block(source.strip_docstring(fs.node.body), st2, nf)
        res = []
        for o in outs:
            callee_env = o.st.env
            o.st.env = dict(saved)
            if o.kind == 'normal':
                res.append(Outcome('normal', o.st, VNone()))
            elif o.kind == 'return':
                res.append(Outcome('normal', o.st, o.val))
            elif o.kind == 'raise':
                res.append(o)
            else:
                raise Unsupported('break/continue leaking from %s' % fs.qual)
        return res

    def call_closure(self, clo, args, kwargs, st, fr, node):
        a = clo.node.args
        names = [x.arg for x in a.args]
        env = dict(clo.env)
        for n, v in zip(names, args):
            env[n] = v
        saved = st.env
        st.env = env
        outs = self.eval(clo.node.body, st, clo.fr)
        for o in outs:
            o.st.env = dict(saved)
        return outs

    def instantiate(self, cls, args, kwargs, st, fr, node):
        from . import builtins_model
        h = builtins_model.lookup(cls)
        if h is not None:
            return h(self, args, kwargs, st, fr, node)
        if isinstance(cls, type) and issubclass(cls, BaseException):
            return [Outcome('normal', st, VExc(cls, args, 'line %d' % getattr(node, 'lineno', 0)))]
        model = self.reg.class_models.get(cls)
        if model is not None:
            return model(self, args, kwargs, st, fr, node)
        obj = st.alloc(cls)
        init = None
        for k in cls.__mro__:
            if '__init__' in k.__dict__:
                init = k.__dict__['__init__']
                break
        if init is None or init is object.__init__:
            return [Outcome('normal', st, obj)]
        outs = self.call_function(init, [obj] + args, kwargs, st, fr, node, owner=cls)
        res = []
        for o in outs:
            if o.kind == 'normal':
                res.append(Outcome('normal', o.st, obj))
            else:
                res.append(o)
        return res

    # ------------------------------------------------------------- statements
    def exec_block(self, stmts, st, fr):
        outs = [Outcome('normal', st)]
        for s in stmts:
            nxt = []
            for o in outs:
                if o.kind == 'normal':
                    nxt.extend(self.exec_stmt(s, o.st, fr))
                else:
                    nxt.append(o)
            outs = nxt
            self.npaths = max(self.npaths, len(outs))
            if len(outs) > MAX_PATHS:
                raise Unsupported('path explosion (> %d paths) at line %d' % (MAX_PATHS, s.lineno))
        return outs

    def exec_stmt(self, node, st, fr):
        m = getattr(self, 's_' + type(node).__name__, None)
        if m is None:
            raise Unsupported('statement %s at line %d' % (type(node).__name__, node.lineno))
        return m(node, st, fr)

    def s_Pass(self, node, st, fr):
        return [Outcome('normal', st)]

    def s_Expr(self, node, st, fr):
        if isinstance(node.value, (ast.Yield,)):
            return self.do_yield(node.value, st, fr)
        if isinstance(node.value, ast.Constant):
            return [Outcome('normal', st)]
        outs = self.eval(node.value, st, fr)
        return [Outcome('normal', o.st) if o.kind == 'normal' else o for o in outs]

    def do_yield(self, ynode, st, fr):
        if ynode.value is None:
            st.yields.append(VNone())
            return [Outcome('normal', st)]
        res = []
        for o in self.eval(ynode.value, st, fr):
            if o.kind == 'normal':
                o.st.yields.append(o.val)
                res.append(Outcome('normal', o.st))
            else:
                res.append(o)
        return res

    def s_Assign(self, node, st, fr):
        if isinstance(node.value, ast.Yield):
            raise Unsupported('x = yield')
        res = []
        for o in self.eval(node.value, st, fr):
            if o.kind != 'normal':
                res.append(o)
                continue
            outs = [Outcome('normal', o.st)]
            for tgt in node.targets:
                nxt = []
                for o2 in outs:
                    if o2.kind == 'normal':
                        nxt.extend(self.assign(tgt, o.val, o2.st, fr))
                    else:
                        nxt.append(o2)
                outs = nxt
            res.extend(outs)
        return res

    def s_AnnAssign(self, node, st, fr):
        if node.value is None:
            return [Outcome('normal', st)]
        res = []
        for o in self.eval(node.value, st, fr):
            if o.kind != 'normal':
                res.append(o)
            else:
                res.extend(self.assign(node.target, o.val, o.st, fr))
        return res

    def assign(self, tgt, val, st, fr):
        if isinstance(tgt, ast.Name):
            st.env[tgt.id] = val
            return [Outcome('normal', st)]
        if isinstance(tgt, (ast.Tuple, ast.List)):
            items = self.iter_items(val, st)
            if items is None or len(items) != len(tgt.elts):
                raise Unsupported('unpacking %r' % (val,))
            outs = [Outcome('normal', st)]
            for t, v in zip(tgt.elts, items):
                nxt = []
                for o in outs:
                    nxt.extend(self.assign(t, v, o.st, fr) if o.kind == 'normal' else [o])
                outs = nxt
            return outs
        if isinstance(tgt, ast.Attribute):
            res = []
            for o in self.eval(tgt.value, st, fr):
                if o.kind != 'normal':
                    res.append(o)
                    continue
                res.extend(self.setattr_(o.val, tgt.attr, val, o.st, fr, tgt))
            return res
        if isinstance(tgt, ast.Subscript):
            return self.assign_subscript(tgt, val, st, fr)
        raise Unsupported('assignment target %s' % type(tgt).__name__)

    def setattr_(self, obj, name, val, st, fr, node):
        if isinstance(obj, VObj):
            cls = obj.cls
            if inspect.isclass(cls):
                for k in cls.__mro__:
                    raw = k.__dict__.get(name)
                    if isinstance(raw, property):
                        if raw.fset is None:
                            return [self.raise_(st, AttributeError, 'set %s' % name)]
                        outs = self.call_function(raw.fset, [obj, val], {}, st, fr, node)
                        return [Outcome('normal', o.st) if o.kind == 'normal' else o for o in outs]
            st.heap[(obj.oid, name)] = val
            hook = self.reg.store_hooks.get(name)
            if hook:
                hook(self, obj, name, val, st, fr, node)
            return [Outcome('normal', st)]
        if isinstance(obj, VOpaque):
            st.events.append(('setattr:' + name, [obj, val], None))
            return [Outcome('normal', st)]
        if isinstance(obj, VNone):
            return [self.raise_(st, AttributeError, 'None.%s =' % name)]
        raise Unsupported('setattr on %r' % (obj,))

    def assign_subscript(self, tgt, val, st, fr):
        res = []
        # the base must be re-bindable: a Name or an Attribute
        for ob in self.eval(tgt.value, st, fr):
            if ob.kind != 'normal':
                res.append(ob)
                continue
            base = ob.val
            if isinstance(tgt.slice, ast.Slice):
                sl = tgt.slice
                if isinstance(base, VSeq) and sl.lower is None and sl.upper is None and sl.step is None:
                    newv = val if isinstance(val, VSeq) else self._list_to_seq(val, ob.st)
                    newv = VSeq(newv.t, base.elem, base.pytype)
                    res.extend(self.assign(tgt.value, newv, ob.st, fr))
                    continue
                if isinstance(base, VList) and sl.lower is None and sl.upper is None:
                    items = self.iter_items(val, ob.st)
                    if items is None:
                        raise Unsupported('slice assignment')
                    res.extend(self.assign(tgt.value, VList(items), ob.st, fr))
                    continue
                if isinstance(base, VSeq) and sl.step is None and isinstance(val, VSeq) and \
                        (val.elem == 'byte' or base.elem != 'byte'):
                    # x[lo:hi] = v  ==  x[:lo] + v + x[hi:]  (Python clamps lo, hi; hi < lo inserts at lo)
                    acc, raises = self.eval_seq([p for p in (sl.lower, sl.upper) if p is not None], ob.st, fr)
                    res.extend(raises)
                    for (s, vs) in acc:
                        vs = list(vs)
                        lo = vs.pop(0) if sl.lower is not None else None
                        hi = vs.pop(0) if sl.upper is not None else None
                        l, h = norm_slice(base, lo, hi)
                        n = slen(base.t)
                        t = smt.s_concat(smt.s_concat(smt.s_slice(base.t, z3.IntVal(0), l), val.t),
                                         smt.s_slice(base.t, h, n))
                        res.extend(self.assign(tgt.value, VSeq(t, base.elem, base.pytype), s, fr))
                    continue
                raise Unsupported('slice assignment line %d' % tgt.lineno)
            for oi in self.eval(tgt.slice, ob.st, fr):
                if oi.kind != 'normal':
                    res.append(oi)
                    continue
                s = oi.st
                if isinstance(base, VSeq):
                    i = self._as_int(oi.val)
                    v = self._as_int(val)
                    n = slen(base.t)
                    ok, bad = self.split(s, z3.And(-n <= i.t, i.t < n))
                    if bad is not None:
                        res.append(self.raise_(bad, IndexError, 'store index line %d' % tgt.lineno))
                    if ok is None:
                        continue
                    if base.elem == 'byte':
                        ok2, bad2 = self.split(ok, z3.And(0 <= v.t, v.t <= 255))
                        if bad2 is not None:
                            res.append(self.raise_(bad2, ValueError, 'byte range line %d' % tgt.lineno))
                        if ok2 is None:
                            continue
                        ok = ok2
                    k = z3.simplify(z3.If(i.t < 0, i.t + n, i.t))
                    newv = VSeq(smt.s_upd(base.t, k, v.t), base.elem, base.pytype)
                    res.extend(self.assign(tgt.value, newv, ok, fr))
                elif isinstance(base, VList):
                    c = self._as_int(oi.val).concrete()
                    if c is None or not (-len(base.items) <= c < len(base.items)):
                        raise Unsupported('list store with symbolic/out-of-range index')
                    items = list(base.items)
                    items[c] = val
                    res.extend(self.assign(tgt.value, VList(items), s, fr))
                elif isinstance(base, VDict):
                    k = oi.val
                    key = k.s if isinstance(k, VStr) else (k.concrete() if isinstance(k, VInt) else None)
                    if key is None:
                        raise Unsupported('dict store with symbolic key')
                    d = dict(base.d)
                    d[key] = val
                    res.extend(self.assign(tgt.value, VDict(d), s, fr))
                elif isinstance(base, VOpaque):
                    s.events.append(('setitem', [base, oi.val, val], None))
                    res.append(Outcome('normal', s))
                elif isinstance(base, VObj) and hasattr(self.reg.models.get(base.cls), 'setitem'):
                    res.extend(self.reg.models[base.cls].setitem(self, base, oi.val, val, s, tgt))
                else:
                    raise Unsupported('subscript store on %r' % (base,))
        return res

    def s_AugAssign(self, node, st, fr):
        tgt = node.target
        # evaluate current value of the target
        load = ast.copy_location(_as_load(tgt), tgt)
        res = []
        acc, raises = self.eval_seq([load, node.value], st, fr)
        res.extend(raises)
        for s, (cur, rhs) in acc:
            if isinstance(node.op, ast.Add) and (hasattr(cur, 'concat_') or
                                                 (isinstance(cur, VList) and hasattr(rhs, 'concat_'))):
                r = cur.concat_(self, rhs, s) if hasattr(cur, 'concat_') else rhs.concat_(self, cur, s, left=False)
                res.extend(self.assign(tgt, r, s, fr))
                continue
            if isinstance(cur, VList) and isinstance(node.op, ast.Add):
                items = self.iter_items(rhs, s)
                if items is None:
                    raise Unsupported('list += symbolic')
                res.extend(self.assign(tgt, VList(cur.items + items), s, fr))
                continue
            if isinstance(cur, VSeq) and isinstance(node.op, ast.Add):
                if isinstance(rhs, (VList, VTuple)):
                    rhs = self._list_to_seq(rhs, s)
                    if cur.elem == 'byte':
                        ok, bad = self.split(s, isb(rhs.t))
                        if bad is not None:
                            res.append(self.raise_(bad, ValueError, 'byte range line %d' % node.lineno))
                        if ok is None:
                            continue
                        s = ok
                if not isinstance(rhs, VSeq):
                    raise Unsupported('bytearray += %r' % (rhs,))
                res.extend(self.assign(tgt, VSeq(smt.s_concat(cur.t, rhs.t), cur.elem, cur.pytype), s, fr))
                continue
            for o in self.binop(node.op, cur, rhs, s, node):
                if o.kind != 'normal':
                    res.append(o)
                else:
                    res.extend(self.assign(tgt, o.val, o.st, fr))
        return res

    def s_Return(self, node, st, fr):
        if node.value is None:
            return [Outcome('return', st, VNone())]
        return [Outcome('return', o.st, o.val) if o.kind == 'normal' else o
                for o in self.eval(node.value, st, fr)]

    def s_Raise(self, node, st, fr):
        if node.exc is None:
            cur = st.env.get('$exc')
            if cur is None:
                raise Unsupported('bare raise outside handler')
            return [Outcome('raise', st, cur)]
        res = []
        for o in self.eval(node.exc, st, fr):
            if o.kind != 'normal':
                res.append(o)
                continue
            v = o.val
            if isinstance(v, VPy) and inspect.isclass(v.obj):
                v = VExc(v.obj, [], 'line %d' % node.lineno)
            if not isinstance(v, VExc):
                raise Unsupported('raise of %r' % (v,))
            v.origin = 'raise line %d' % node.lineno
            res.append(Outcome('raise', o.st, v))
        return res

    def s_Assert(self, node, st, fr):
        res = []
        for o in self.eval(node.test, st, fr):
            if o.kind != 'normal':
                res.append(o)
                continue
            t, f = self.split(o.st, truthy(o.val))
            if f is not None:
                res.append(self.raise_(f, AssertionError, 'assert line %d' % node.lineno))
            if t is not None:
                res.append(Outcome('normal', t))
        return res

    def s_If(self, node, st, fr):
        if self.opts.get('merge_if'):              # opt-in: pure arms are merged instead of forked (pyvc/finite.py)
            from . import finite
            merged = finite.try_merge_if(self, node, st, fr)
            if merged is not None:
                return merged
        res = []
        for o in self.eval(node.test, st, fr):
            if o.kind != 'normal':
                res.append(o)
                continue
            t, f = self.split(o.st, truthy(o.val))
            if t is not None:
                t.trace.append('L%d:T' % node.lineno)
                res.extend(self.exec_block(node.body, t, fr))
            if f is not None:
                f.trace.append('L%d:F' % node.lineno)
                res.extend(self.exec_block(node.orelse, f, fr))
        return res

    def s_Delete(self, node, st, fr):
        if len(node.targets) == 1 and isinstance(node.targets[0], ast.Subscript) and \
                not isinstance(node.targets[0].slice, ast.Slice):
            # del obj[key] on heap-object collection models (pyvc/symcoll.py)
            t = node.targets[0]
            acc, raises = self.eval_seq([t.value, t.slice], st, fr)
            res = list(raises)
            for s, (base, key) in acc:
                m = self.reg.models.get(base.cls) if isinstance(base, VObj) else None
                if m is None or not hasattr(m, 'delitem'):
                    raise Unsupported('del item of %r line %d' % (base, node.lineno))
                res.extend(m.delitem(self, base, key, s, node))
            return res
        if len(node.targets) == 1 and isinstance(node.targets[0], ast.Subscript) and \
                isinstance(node.targets[0].slice, ast.Slice) and isinstance(node.targets[0].value, ast.Name):
            return self._del_slice_of_name(node, node.targets[0], st, fr)
        for t in node.targets:
            if isinstance(t, ast.Name):
                st.env.pop(t.id, None)
            else:
                raise Unsupported('del of non-name line %d' % node.lineno)
        return [Outcome('normal', st)]

    def _del_slice_of_name(self, node, t, st, fr):
        """`del x[lo:hi]` on a local bytearray/list.  Values have no identity here, so an in-place mutation of
        an object that is also reachable through another expression must be written back there: accepted only
        when `x` has exactly one binding in the function, `x = <attribute/subscript path>` (the alias) or
        `x = <call/literal>` (a fresh object), and -- for an alias -- the path still holds the very same value."""
        name = t.value.id
        base = st.env.get(name)
        sl = t.slice
        if not isinstance(base, VSeq) or sl.step is not None:
            raise Unsupported('del of a slice of %r line %d' % (base, node.lineno))
        fn = fr.fs.node if fr.fs is not None else None
        if fn is None:
            raise Unsupported('del slice outside a function')
        binds, other = [], False
        for n in ast.walk(fn):
            if isinstance(n, ast.Assign) and any(isinstance(x, ast.Name) and x.id == name for x in n.targets):
                if len(n.targets) == 1:
                    binds.append(n.value)
                else:
                    other = True
            elif isinstance(n, (ast.AugAssign, ast.AnnAssign, ast.For, ast.With, ast.NamedExpr, ast.comprehension)):
                tg = getattr(n, 'target', None)
                if tg is not None and name in _target_names(tg):
                    other = True
            elif isinstance(n, ast.arg) and n.arg == name:
                other = True
        if other or len(binds) != 1:
            raise Unsupported('del slice of %s: not a single plain binding (line %d)' % (name, node.lineno))
        origin = binds[0]
        is_path = isinstance(origin, (ast.Attribute, ast.Subscript)) and \
            not any(isinstance(x, (ast.Call, ast.Slice)) for x in ast.walk(origin))
        is_fresh = isinstance(origin, (ast.Call, ast.Constant, ast.List, ast.BinOp))
        if not (is_path or is_fresh):
            raise Unsupported('del slice of %s: origin %s (line %d)' % (name, type(origin).__name__, node.lineno))
        acc, raises = self.eval_seq([p for p in (sl.lower, sl.upper) if p is not None], st, fr)
        res = list(raises)
        for (s, vs) in acc:
            vs = list(vs)
            lo = vs.pop(0) if sl.lower is not None else None
            hi = vs.pop(0) if sl.upper is not None else None
            l, h = norm_slice(base, lo, hi)
            n_ = slen(base.t)
            newv = VSeq(smt.s_concat(smt.s_slice(base.t, z3.IntVal(0), l), smt.s_slice(base.t, h, n_)),
                        base.elem, base.pytype)
            if is_path:
                cur = self.eval(_as_load(origin), s.fork(), fr)
                if len(cur) != 1 or cur[0].kind != 'normal' or not same_value(cur[0].val, base):
                    raise Unsupported('del slice of %s: alias %s no longer holds the same value (line %d)'
                                      % (name, ast.unparse(origin), node.lineno))
                s.env[name] = newv
                res.extend(self.assign(_as_store(origin), newv, s, fr))
            else:
                s.env[name] = newv
                res.append(Outcome('normal', s))
        return res

    def s_Global(self, node, st, fr):
        raise Unsupported('global statement')

    def s_Import(self, node, st, fr):
        import importlib
        for a in node.names:
            st.env[(a.asname or a.name).split('.')[0]] = VPy(importlib.import_module(a.name.split('.')[0]))
        return [Outcome('normal', st)]

    def s_ImportFrom(self, node, st, fr):
        import importlib
        pkg = fr.fs.module.__package__ if fr.fs is not None else None
        mod = importlib.import_module('.' * node.level + (node.module or ''), pkg)
        for a in node.names:
            st.env[a.asname or a.name] = lift_py(getattr(mod, a.name))
        return [Outcome('normal', st)]

    def s_Try(self, node, st, fr):
        body_outs = self.exec_block(node.body, st, fr)
        res = []
        for o in body_outs:
            if o.kind == 'raise':
                res.extend(self._handle(node, o, fr))
            elif o.kind == 'normal' and node.orelse:
                res.extend(self.exec_block(node.orelse, o.st, fr))
            else:
                res.append(o)
        if node.finalbody:
            fin = []
            for o in res:
                for of in self.exec_block(node.finalbody, o.st, fr):
                    if of.kind == 'normal':
                        fin.append(Outcome(o.kind, of.st, o.val))
                    else:
                        fin.append(of)
            res = fin
        return res

    def _handle(self, node, o, fr):
        exc = o.val
        for h in node.handlers:
            if h.type is None:
                match = True
            else:
                to = self.eval(h.type, o.st, fr)
                if len(to) != 1 or to[0].kind != 'normal':
                    raise Unsupported('except type expression')
                tv = to[0].val
                classes = []
                if isinstance(tv, VPy) and inspect.isclass(tv.obj):
                    classes = [tv.obj]
                elif isinstance(tv, VTuple):
                    classes = [x.obj for x in tv.items]
                else:
                    raise Unsupported('except type %r' % (tv,))
                if not inspect.isclass(exc.cls):
                    raise Unsupported('exception of unknown class')
                match = any(issubclass(exc.cls, c) for c in classes)
            if match:
                s = o.st
                if h.name:
                    s.env[h.name] = exc
                prev = s.env.get('$exc')
                s.env['$exc'] = exc
                outs = self.exec_block(h.body, s, fr)
                for oo in outs:
                    if prev is None:
                        oo.st.env.pop('$exc', None)
                    else:
                        oo.st.env['$exc'] = prev
                return outs
        return [o]

    def s_With(self, node, st, fr):
        if len(node.items) != 1:
            raise Unsupported('multi-item with')
        item = node.items[0]
        res = []
        for o in self.eval(item.context_expr, st, fr):
            if o.kind != 'normal':
                res.append(o)
                continue
            cm = o.val
            enter = self.reg.with_enter(self, cm, o.st, fr, node)
            if item.optional_vars is not None:
                self.assign(item.optional_vars, cm, o.st, fr)
            body = self.exec_block(node.body, o.st, fr)
            for ob in body:
                self.reg.with_exit(self, cm, ob.st, fr, node)
                res.append(ob)
        return res

    # ------------------------------------------------------------------ loops
    def s_While(self, node, st, fr):
        ordinal = fr.loop_ids.get(id(node), 0)
        inv = self._loop_spec(fr, ordinal, node)
        if inv is None:
            return self._unroll_while(node, st, fr)
        return self._cut_loop(node, st, fr, inv, ordinal, kind='while')

    def _unroll_while(self, node, st, fr):
        res = []
        states = [st]
        for k in range(MAX_UNROLL + 1):
            nxt = []
            for s in states:
                for o in self.eval(node.test, s, fr):
                    if o.kind != 'normal':
                        res.append(o)
                        continue
                    t, f = self.split(o.st, truthy(o.val))
                    if t is not None and self.opts.get('loop_exit_scale'):
                        # scenario option: decide 'the loop is over' with a full proof attempt instead of the quick
                        # feasibility pre-check (unrolling a loop over a statically bounded structure)
                        # e-matching only, deterministic resource limit (plus a generous wall-clock safety net)
                        if not smt.feasible(t.pc, rlimit=int(5e6 * self.opts['loop_exit_scale']),
                                            timeout_ms=int(1000 * self.opts['loop_exit_scale'])):
                            t = None
                    if f is not None:
                        res.extend(self.exec_block(node.orelse, f, fr) if node.orelse else [Outcome('normal', f)])
                    if t is not None:
                        for ob in self.exec_block(node.body, t, fr):
                            if ob.kind in ('normal', 'continue'):
                                nxt.append(ob.st)
                            elif ob.kind == 'break':
                                res.append(Outcome('normal', ob.st))
                            else:
                                res.append(ob)
            states = nxt
            if not states:
                return res
        raise Unsupported('while loop at line %d needs an invariant (not exhausted after %d unrollings)'
                          % (node.lineno, MAX_UNROLL))

    def s_For(self, node, st, fr):
        ordinal = fr.loop_ids.get(id(node), 0)
        res = []
        for o in self.eval(node.iter, st, fr):
            if o.kind != 'normal':
                res.append(o)
                continue
            it = o.val
            gen = self.reg.generator_loop(self, node, it, o.st, fr)
            if gen is not None:
                res.extend(gen)
                continue
            inv = self._loop_spec(fr, ordinal, node)
            if inv is None:
                src = self.loop_source(it, o.st)
                if src is not None and getattr(src, 'stateful', False) and \
                        any(isinstance(n, ast.Break) for n in ast.walk(node)):
                    raise Unsupported('break inside an unrolled loop over an iterator object (line %d)' % node.lineno)
            items = self.iter_items(it, o.st) if inv is None else None
            if items is not None:
                res.extend(self._unroll_for(node, items, o.st, fr))
                continue
            if inv is None:
                raise Unsupported('for loop at line %d over a symbolic range needs an invariant (loop #%d of %s)'
                                  % (node.lineno, ordinal, fr.fs.qual if fr.fs else '?'))
            res.extend(self._cut_loop(node, o.st, fr, inv, ordinal, kind='for', iterable=it))
        return res

    def _unroll_for(self, node, items, st, fr):
        res = []
        states = [st]
        for it in items:
            nxt = []
            for s in states:
                for oa in self.assign(node.target, it, s, fr):
                    if oa.kind != 'normal':
                        res.append(oa)
                        continue
                    for ob in self.exec_block(node.body, oa.st, fr):
                        if ob.kind in ('normal', 'continue'):
                            nxt.append(ob.st)
                        elif ob.kind == 'break':
                            res.append(Outcome('normal', ob.st))
                        else:
                            res.append(ob)
            states = nxt
            if len(states) > MAX_PATHS:
                raise Unsupported('path explosion while unrolling loop at line %d' % node.lineno)
        for s in states:
            if node.orelse:
                res.extend(self.exec_block(node.orelse, s, fr))
            else:
                res.append(Outcome('normal', s))
        return res

    def _loop_spec(self, fr, ordinal, node):
        c = fr.contract
        if c is None:
            return None
        if fr.fs is not None and fr.fs.qual in self.opts.get('no_invariant', ()):
            return None          # scenario option: unroll this function's loops (statically bounded inputs)
        return c.loop_spec(fr.fs.qual, ordinal, node)

    def _cut_loop(self, node, st, fr, inv, ordinal, kind, iterable=None):
        """Cut the loop with invariant `inv` (LoopSpec)."""
        from .contract import NS
        qual = fr.fs.qual
        tag = '%s#loop%d' % (qual.split(':')[-1], ordinal)
        res = []
        modified = _assigned_names(node.body) | (set(_target_names(node.target)) if kind == 'for' else set())
        modified |= set(inv.modifies_vars)
        # range bounds for `for`
        idx = lo = hi = None
        seq_iter = None
        if kind == 'for':
            if isinstance(iterable, VPy) and isinstance(iterable.obj, RangeObj):
                r = iterable.obj
                step = r.step.concrete()
                if step not in (1, -1):
                    raise Unsupported('range step %r with invariant' % (step,))
                lo, hi = r.start, r.stop
            elif isinstance(iterable, VSeq):
                seq_iter = iterable
                lo, hi, step = VInt(0), VInt(slen(iterable.t)), 1
            elif self.loop_source(iterable, st) is not None:
                seq_iter = self.loop_source(iterable, st)      # object with lo, hi, elem(ex, st, i), done(ex, st)
                lo, hi, step = seq_iter.lo, seq_iter.hi, 1
            else:
                raise Unsupported('for loop with invariant over %r' % (iterable,))
            if not isinstance(node.target, ast.Name) and seq_iter is None:
                raise Unsupported('for target')
        for vn, vt in (getattr(inv, 'var_types', None) or {}).items():
            # representation change declared by the LoopSpec: a statically known list of tuples that the
            # loop grows becomes a symbolic-length tuple list (VTupSeq)
            cur = st.env.get(vn)
            if vt.kind == 'tuples' and isinstance(cur, VList):
                from .values import VTupSeq
                st.env[vn] = VTupSeq.from_items(cur.items, vt.kw['arity'])
        for (on, fld), ft in (getattr(inv, 'field_types', None) or {}).items():
            o_ = st.env.get(on)
            cur = st.heap.get((o_.oid, fld)) if isinstance(o_, VObj) else None
            if ft == 'abslist' and isinstance(cur, VList):
                from .values import VAbsList
                st.heap[(o_.oid, fld)] = VAbsList(z3.IntVal(len(cur.items)))   # elements forgotten (sound abstraction)
        entry = st.fork()
        ns_entry = NS(self, entry, fr, old=st)

        def idx_facts(i):
            if step == 1:
                end = z3.If(hi.t < lo.t, lo.t, hi.t)
                return z3.And(lo.t <= i, i <= end), end
            end = z3.If(hi.t > lo.t, lo.t, hi.t)
            return z3.And(end <= i, i <= lo.t), end

        # 1. invariant holds on entry
        if kind == 'for':
            i0 = lo
            entry.ghost['$i'] = i0
            if seq_iter is None:
                entry.env[node.target.id] = i0
        self.oblige(entry, tag + ':inv-entry', inv.inv(NS(self, entry, fr, old=st, idx=entry.ghost.get('$i'))),
                    kind='loop-entry', where=node.lineno)

        # 2. arbitrary iteration
        def havoc(s):
            for n in modified:
                if n in s.env:
                    try:
                        s.env[n] = fresh_like(s.env[n], n)
                    except Unsupported:
                        s.env.pop(n)
                    if isinstance(s.env.get(n), VSeq) and s.env[n].elem == 'byte':
                        s.assume(isb(s.env[n].t))
                    if type(s.env.get(n)).__name__ == 'VTupSeq':
                        s.assume(s.env[n].same_len())
            for (objname, field) in inv.modifies_fields:
                o = s.env.get(objname.split('.')[0])
                for part in objname.split('.')[1:]:          # dotted path: field of a field (self.entriesDict)
                    o = s.heap.get((o.oid, part)) if isinstance(o, VObj) else None
                if isinstance(o, VObj) and (o.oid, field) in s.heap:
                    s.heap[(o.oid, field)] = fresh_like(s.heap[(o.oid, field)], field)
                    v = s.heap[(o.oid, field)]
                    if isinstance(v, VSeq) and v.elem == 'byte':
                        s.assume(isb(v.t))
                    if type(v).__name__ == 'VAbsList':
                        s.assume(v.n >= 0)
        it_st = st.fork()
        havoc(it_st)
        if kind == 'for':
            i = VInt(z3.Int(fresh_name('i')))
            rng, end = idx_facts(i.t)
            it_st.assume(rng)
            it_st.ghost['$i'] = i
            if seq_iter is None:
                it_st.env[node.target.id] = i
        it_st.assume(truthy(inv.inv(NS(self, it_st, fr, old=st, idx=it_st.ghost.get('$i')))))
        after = it_st.fork()
        # loop condition true
        body_states = []
        if kind == 'for':
            it_st.assume(i.t != end)
            if seq_iter is not None:
                if isinstance(seq_iter, VSeq):
                    elem = VInt(sat(seq_iter.t, i.t))
                    if seq_iter.elem == 'byte':
                        it_st.assume(z3.And(0 <= elem.t, elem.t <= 255))
                else:
                    elem = seq_iter.elem_at(self, it_st, i.t)
                for oa in self.assign(node.target, elem, it_st, fr):
                    body_states.append(oa.st)
            else:
                body_states.append(it_st)
            after.assume(i.t == end)
        else:
            for o in self.eval(node.test, it_st, fr):
                if o.kind != 'normal':
                    res.append(o)
                    continue
                t, f = self.split(o.st, truthy(o.val))
                if t is not None:
                    body_states.append(t)
            aft = []
            for o in self.eval(node.test, after, fr):
                if o.kind != 'normal':
                    continue          # already reported from the iteration copy
                t, f = self.split(o.st, truthy(o.val))
                if f is not None:
                    aft.append(f)
            after = aft
        for bs in body_states:
            pre = bs.fork()
            for ob in self.exec_block(node.body, bs, fr):
                self._check_loop_frame(pre, ob.st, modified, inv, tag)
                if ob.kind in ('normal', 'continue'):
                    s2 = ob.st
                    if kind == 'for':
                        nxt_i = VInt(i.t + step)
                        s2.ghost['$i'] = nxt_i
                        if seq_iter is None:
                            s2.env[node.target.id] = nxt_i
                    self.oblige(s2, tag + ':inv-preserved',
                                inv.inv(NS(self, s2, fr, old=st, idx=s2.ghost.get('$i'))),
                                kind='loop-preserve', where=node.lineno)
                    if inv.variant is not None:
                        v0 = inv.variant(NS(self, pre, fr, old=st, idx=pre.ghost.get('$i')))
                        v1 = inv.variant(NS(self, s2, fr, old=st, idx=s2.ghost.get('$i')))
                        self.oblige(s2, tag + ':variant-decreases', z3.And(v0.t >= 0, v1.t < v0.t),
                                    kind='loop-variant', where=node.lineno)
                elif ob.kind == 'break':
                    res.append(Outcome('normal', ob.st))
                else:
                    res.append(ob)
        # 3. after the loop
        for a in (after if isinstance(after, list) else [after]):
            if kind == 'for' and seq_iter is None:
                # Python leaves the last value in the loop variable; we leave it unconstrained
                try:
                    a.env[node.target.id] = fresh_like(a.env[node.target.id], node.target.id)
                except (KeyError, Unsupported):
                    pass
            if not self.feasible(a):
                continue
            if seq_iter is not None and not isinstance(seq_iter, VSeq):
                seq_iter.done(self, a)             # exhausted iterator objects advance to their end
            if node.orelse:
                res.extend(self.exec_block(node.orelse, a, fr))
            else:
                res.append(Outcome('normal', a))
        return res

    def _check_loop_frame(self, pre, post, modified, inv, tag):
        """Soundness guard of the loop cut: everything the body changes must have been havocked for
        the arbitrary iteration, i.e. be an assigned name / `modifies_vars` or a declared
        `modifies_fields` heap location (or belong to an object allocated inside the body)."""
        for n, v in post.env.items():
            if n in modified or n.startswith('$'):
                continue
            if n in pre.env and not same_value(v, pre.env[n]):
                raise Unsupported('%s: the loop body changes variable %r which is neither assigned by name nor '
                                  'listed in LoopSpec.modifies_vars' % (tag, n))
        declared = set()
        for (objname, field) in inv.modifies_fields:
            o = pre.env.get(objname.split('.')[0])
            for part in objname.split('.')[1:]:              # dotted path: field of a field (self.entriesDict)
                o = pre.heap.get((o.oid, part)) if isinstance(o, VObj) else None
            if isinstance(o, VObj):
                declared.add((o.oid, field))
        for key, v in post.heap.items():
            if key in declared or key[0] not in pre.fresh_objs and key[0] in post.fresh_objs:
                continue
            if key in pre.heap and not same_value(v, pre.heap[key]):
                raise Unsupported('%s: the loop body changes heap field %r which is not listed in '
                                  'LoopSpec.modifies_fields' % (tag, key[1]))

    def s_Break(self, node, st, fr):
        return [Outcome('break', st)]

    def s_Continue(self, node, st, fr):
        return [Outcome('continue', st)]

    def s_FunctionDef(self, node, st, fr):
        # nested def: free variables are captured by value at definition time.  Python captures by reference,
        # so this is only right when the enclosing function never rebinds a captured name afterwards (checked
        # when the nested function is called: see call_nested)
        st.env[node.name] = VPy(NestedDef(node, fr, dict(st.env)))
        return [Outcome('normal', st)]

    def call_nested(self, nd, args, kwargs, st, fr, node):
        a = nd.node.args
        if a.vararg or a.kwarg or a.kwonlyargs or a.defaults or kwargs:
            raise Unsupported('nested def %s: only plain positional parameters are supported' % nd.node.name)
        names = [x.arg for x in a.posonlyargs + a.args]
        if len(args) != len(names):
            raise Unsupported('nested def %s: arity' % nd.node.name)
        own = set(names) | _assigned_names(nd.node.body)
        free = {n.id for n in ast.walk(nd.node) if isinstance(n, ast.Name) and isinstance(n.ctx, ast.Load)} - own
        encl = nd.fr.fs.node if nd.fr is not None and nd.fr.fs is not None else None
        if encl is not None:
            later = [s_ for s_ in ast.walk(encl) if isinstance(s_, ast.stmt) and s_ is not nd.node
                     and getattr(s_, 'lineno', 0) > nd.node.lineno
                     and not (nd.node.lineno <= s_.lineno <= getattr(nd.node, 'end_lineno', nd.node.lineno))]
            rebound = _assigned_names(later) & free
            if rebound:
                raise Unsupported('nested def %s: captured name(s) %s rebound after the definition'
                                  % (nd.node.name, sorted(rebound)))
        if fr.depth > 12:
            raise Unsupported('inline depth')
        env = dict(nd.env or {})
        env.update(zip(names, args))
        saved = st.env
        st.env = env
        nf = Frame(nd.fr.fs if nd.fr is not None else None, None, fr.depth + 1)
        outs = self.exec_block(source.strip_docstring(nd.node.body), st, nf)
        res = []
        for o in outs:
            o.st.env = dict(saved)
            if o.kind == 'normal':
                res.append(Outcome('normal', o.st, VNone()))
            elif o.kind == 'return':
                res.append(Outcome('normal', o.st, o.val))
            elif o.kind == 'raise':
                res.append(o)
            else:
                raise Unsupported('break/continue leaking from nested def %s' % nd.node.name)
        return res


# ---------------------------------------------------------------- helper objs

class BoundMethod(object):
    def __init__(self, self_, func, cls):
        self.self = self_
        self.func = func
        self.cls = cls

    def __repr__(self):
        return 'BoundMethod(%s)' % getattr(self.func, '__qualname__', self.func)


class BuiltinMethod(object):
    def __init__(self, recv, name):
        self.recv = recv
        self.name = name

    def __repr__(self):
        return 'BuiltinMethod(%s)' % self.name


class Closure(object):
    def __init__(self, node, env, fr):
        self.node = node
        self.env = env
        self.fr = fr


class NestedDef(object):
    def __init__(self, node, fr, env=None):
        self.node = node
        self.fr = fr
        self.env = env


class SpecFn(object):
    """Executor-level callable: fn(ex, args, kwargs, st, fr, node) -> outcomes"""

    def __init__(self, fn, name='spec'):
        self.fn = fn
        self.name = name


class RangeObj(object):
    def __init__(self, start, stop, step):
        self.start, self.stop, self.step = start, stop, step


class ZipObj(object):
    def __init__(self, parts):
        self.parts = parts


class EnumObj(object):
    def __init__(self, inner, start=0):
        self.inner = inner
        self.start = start


def _as_store(t):
    import copy
    t2 = copy.copy(t)
    t2.ctx = ast.Store()
    return t2


def _as_load(t):
    import copy
    t2 = copy.copy(t)
    t2.ctx = ast.Load()
    return t2


def _target_names(t):
    if isinstance(t, ast.Name):
        return [t.id]
    if isinstance(t, (ast.Tuple, ast.List)):
        r = []
        for e in t.elts:
            r.extend(_target_names(e))
        return r
    return []


def _assigned_names(stmts):
    names = set()
    for s in stmts:
        for n in ast.walk(s):
            if isinstance(n, (ast.Assign,)):
                for t in n.targets:
                    names.update(_base_names(t))
            elif isinstance(n, (ast.AugAssign, ast.AnnAssign)):
                names.update(_base_names(n.target))
            elif isinstance(n, ast.For):
                names.update(_target_names(n.target))
            elif isinstance(n, ast.ExceptHandler) and n.name:
                names.add(n.name)
            elif isinstance(n, (ast.With,)):
                for it in n.items:
                    if it.optional_vars is not None:
                        names.update(_target_names(it.optional_vars))
            elif isinstance(n, ast.NamedExpr):
                names.update(_target_names(n.target))
    return names


def _base_names(t):
    """Names rebound by assigning to target t (x, x[i] and x[i:j] rebind x in
    this executor; x.f = v does not rebind x)."""
    if isinstance(t, ast.Name):
        return [t.id]
    if isinstance(t, (ast.Tuple, ast.List)):
        r = []
        for e in t.elts:
            r.extend(_base_names(e))
        return r
    if isinstance(t, ast.Subscript):
        return _base_names(t.value)
    return []


def _count_loops(stmts):
    n = 0
    for s in stmts:
        for x in ast.walk(s):
            if isinstance(x, (ast.For, ast.While)):
                n += 1
    return n
