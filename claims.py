"""Per-property claim texts used to generate MANIFEST.json (tools/mkmanifest.py)."""
TECH = 'contract-based deductive verification: VCs generated from the real function ASTs, discharged by z3/cvc5'
M2T = 'contract-based deductive verification in guard-dominance mode: the real coroutine bodies executed symbolically (opaque callees, state merging, frame scan), site obligations discharged by z3 (EUF+LIA)'
CLAIMS = {
 'C12': {
  'text': 'ct_check_cbc_mac_and_pad is proved equal to the plain specification of the property (correct MAC of the remaining data followed by a version-allowed padding) for every body length < 2^16, every pad byte, digest/block size, sequence number, content type and all four versions; the eight ct_* helpers are proved against their arithmetic meaning in bit-vector arithmetic; loops are cut by inductive invariants, nothing is bounded.',
  'design_ref': 'DESIGN.md section 3 C12',
  'note': 'HMAC is an uninterpreted function of (key, bytes fed); engine encoding of Python semantics (pyvc) is trusted and cross-checked against CPython on every run (bounded differential run reported under coverage.bounded, not counted as proved); SSLv3 "one block" read as pad_length <= block_size; caller strip and sender side: see evidence not_built.',
  'technique': TECH + '; loop invariants with quantifiers; bit-vector mode for ct_* helpers'},
 'C01': {
  'text': 'Per-path inverse lemmas over the real record-protection code: for MAC-then-encrypt (block and stream), encrypt-then-MAC and the three AEAD nonce/AAD constructions (AES-GCM TLS1.2, ChaCha20 TLS1.2, TLS1.3) the receiver function applied to the sender function\'s output returns exactly the payload, for every version, payload length, block/digest/tag size, with both sequence numbers and CBC chaining state staying in step; plus contracts for addPadding, calculateMAC, getSeqNumBytes and the TLS1.3 inner-plaintext de-padding. Partial: fragmentation, read-buffer FIFO, key-block mirror and record-size caps are listed under not_built in the evidence.',
  'design_ref': 'DESIGN.md section 3 C01',
  'note': 'cipher objects by assumed interface contract (Dec(Enc(x))=x, Open(Seal(x))=x), HMAC uninterpreted; no two live endpoints are executed; handshake-established key equality is C03/C04',
  'technique': TECH + '; round-trip scenarios over sender/receiver states'},
 'C02': {
  'text': 'Integrity-binding postconditions on every unprotect path of the real record layer: a record is returned only if the complete MAC (all digest bytes) over the receiver\'s own sequence number, type, version, length and body under the read key compared equal (MtE block via the C12 specification, MtE stream/null, EtM), padding is well formed, and the counter moves exactly once; every other path raises TLSBadRecordMAC/TLSDecryptionFailed before data is returned. Partial: AEAD open() internals are under C09; alert mapping and TLS1.3 header exceptions are not_built.',
  'design_ref': 'DESIGN.md section 3 C02',
  'note': 'the step from tag equality to "exactly what the peer sent next" is MAC/AEAD unforgeability (assumed); cipher/HMAC objects abstract',
  'technique': TECH + '; exceptional postconditions (raises-only-when)'},
 'C20': {
  'text': 'Every classification list of CipherSuite, the parameter tables of the record layer (_getCipherSettings, _getMacSettings, _getHMACMethod), the PRF choice (calc_key, _getPRFParams, TLS 1.3 key derivation) and the name accessors are proved equal to an independent parse of the IANA suite name, with the suite id symbolic over all ids of ietfNames (finite domain, complete); the version/MAC/cipher/key-exchange filters are proved sound, complete and order preserving with the settings lists as symbolic subsets.',
  'design_ref': 'DESIGN.md section 3 C20',
  'note': 'oracle = specs/iana.py (hand-written from the RFC naming rules); key-exchange class dispatch chains in the handshake are covered only through the list facts; known findings F17/F18 (dead DHE_DSS SHA256 suites, getSrpDsaSuites) are carved out and printed as KNOWN-FINDING',
  'technique': TECH + '; finite-domain symbolic suite id; table tasks'},
 'C03': {
  'text': 'Negotiation core only: the suite filters (_filterSuites, filterForVersion, filter_for_certificate, filter_for_prfs and every get*Suites wrapper) are proved to return exactly the suites whose IANA-name MAC, cipher and key exchange are enabled in the settings and whose versions fit, for every suite id and every subset of the settings lists (sound, complete, order). Partial: the client/server ServerHello/ClientHello acceptance guards, key-size checks and KDF argument symmetry are not_built.',
  'design_ref': 'DESIGN.md section 3 C03',
  'note': 'agreement of the two endpoints\' views (secrets, exporter, flags) needs two executions and is not shown; only that whatever is negotiated lies inside the settings as far as suite selection goes',
  'technique': TECH + '; finite-domain symbolic sets'},
 'C05': {
  'text': 'TLS 1.3 server authentication on the client (TLSConnection._clientTLS13Handshake, executed from real source in guard-dominance mode): on every path that records a server certificate chain in the session, the CertificateVerify check returned true, it was the verify routine of the key taken from that very chain (or of a delegated credential whose own verify succeeded), applied to the signature of the received CertificateVerify message and to calcVerifyBytes of the transcript snapshot, and the signature scheme had been offered by the client. Partial: <=1.2 ServerKeyExchange/CertificateVerify sites, TLS 1.3 client auth, PHA, SRP, PSK binder sites are not_built.',
  'design_ref': 'DESIGN.md section 3 C05',
  'note': 'M2 abstraction: objects and callees opaque, heap havoc by whole-repository store scan; that verify() returns false for wrong signatures is C10; Finished/PSK proof is C04',
  'technique': TECH + '; guard-dominance mode (state merging, opaque callees, ghost facts)'},
 'C18': {
  'text': 'SessionCache: sequential specification proved on the real __init__/__getitem__/__setitem__/_purge against an abstract map+clock view with a five-part representation invariant (indices in range, cells<->dict bijection, time-sorted segment), incl. absence of internal errors; lock discipline proved per access site on the real AST for SessionCache, BaseDB and Python_RSAKey._rawPrivateKeyOp (every shared-field access inside the critical section, lock released on all exits, encapsulation). Linearizability then follows in monitor form.',
  'design_ref': 'DESIGN.md section 3 C18',
  'note': 'threading.Lock assumed to be a mutex, time.time monotone integer clock, maxEntries >= 2; thread schedules are not executed; re-storing an existing id (F5) and maxEntries=0 (F5b) are known findings carved out; RSA blinding algebra not built',
  'technique': TECH + '; data-structure invariant with ghost map; AST lock-discipline task'},
 'C19': {
  'text': 'validate() frame: a flow- and context-sensitive points-to analysis over the real AST of validate() and the 23 helpers it reaches poses one obligation per attribute store and per in-place mutation site (the mutated object is a fresh copy, never an alias of a receiver field); the numeric/range rejection helpers are proved to raise ValueError exactly for out-of-domain values and nothing else. Partial: idempotence, string-list domains and "compatible settings connect" are covered only by the bounded differential run / not built.',
  'design_ref': 'DESIGN.md section 3 C19',
  'note': 'points-to analysis is a custom checker (pyvc/framecheck.py), not SMT; liveness part of the property not claimed',
  'technique': TECH + '; AST frame/alias analysis task for the receiver-immutability obligations'},
 'C04': {
  'text': 'Client side of the handshake (real code, guard-dominance mode): every ClientHello carries TLS_FALLBACK_SCSV when a fallback is signalled (all create() sites); the downgrade-sentinel check dominates every _handshakeDone; _getFinished compares verify_data with calc_key over the transcript snapshot taken before the Finished is hashed, after exactly one ChangeCipherSpec and one read-state switch; _sendFinished orders CCS, write-state change, Finished; HRR transcript restart and session-id echo. Partial: server-side sentinel/SCSV, PSK binder truncation, TLS 1.3 key-schedule points and transcript completeness in _getMsg/_queue_message are not yet registered here (see evidence not_built).',
  'design_ref': 'DESIGN.md section 3 C04',
  'note': 'no man-in-the-middle is executed; unequal transcripts => Finished mismatch is the hash/PRF assumption; M2 abstraction (opaque callees, purity assumptions listed in evidence)',
  'technique': M2T},
 'C06': {
  'text': 'Client side: the accepted server flight in <=TLS1.2 is proved to be a word of the RFC 5246 fig. 1 automaton for every negotiable suite (typestate ghost advanced at every _getMsg site of _clientKeyExchange/_handshakeClientAsyncHelper); CertificateRequest only for certificate-authenticated non-SRP suites; CCS-then-Finished with the read-state switch in between; second HelloRetryRequest and a NewSessionTicket sent to a server are rejected. Partial: the _getMsg gate itself, the server flows, TLS 1.3 client flight typestate and renegotiation refusal are not yet registered (not_built).',
  'design_ref': 'DESIGN.md section 3 C06',
  'note': 'the protocol automaton is hand-written from the RFC figures (spec TCB); _getMsg is used through its gate contract (assumed here)',
  'technique': M2T + '; typestate ghost variable'},
 'C13': {
  'text': 'Client side: a cached session is offered only if valid(); expired tickets are pruned before being offered; the abbreviated path of _clientResume is entered only when the ServerHello echoes the offered session id, and the resumed session copies suite and master secret; TLS 1.3: the server-selected PSK must be one that was offered (index in range) and the key-exchange mode must have been offered. Partial: server acceptance conditions, ticket payload round trip and cache are under C18/not_built. Known finding F4 (declined ticket aborts instead of falling back) is printed as KNOWN-FINDING.',
  'design_ref': 'DESIGN.md section 3 C13',
  'note': 'multi-connection histories are not executed; M2 abstraction',
  'technique': M2T},
 'C09': {
  'text': 'Key derivation: P_hash, PRF (TLS 1.0/1.1 MD5/SHA-1 halves incl. odd secret lengths), PRF_1_2, PRF_1_2_SHA384, PRF_SSL, HKDF_expand (whole RFC 5869 domain after fix 98e7690), HKDF_expand_label, derive_secret, calc_key (symbolic version/suite/label/length; seed orders), calcMasterSecret/ExtendedMasterSecret/Finished, the SSLv3 MAC and handshake digest, and the fallback HMAC class are proved equal to the RFC formulas for every key, seed, label and output length, with the hash/HMAC primitives uninterpreted; key-block slicing per role (calcPendingStates). Partial: cipher constructions (CBC/CTR/GCM/CCM/ChaCha20-Poly1305) are being built separately; AES/3DES/RC4 cores are out of deductive reach (bounded differential runs only).',
  'design_ref': 'DESIGN.md section 3 C09',
  'note': 'hashlib/hmac trusted and uninterpreted; definitional axioms for the RFC streams checked for consistency at import',
  'technique': TECH + '; loop invariants over RFC stream definitions'},
 'C15': {
  'text': 'Every Writer and Parser primitive of utils/codec.py is proved against its specification (exact big-endian append, ValueError iff the value does not fit, never truncating; index monotone and in range, exact bytes returned, DecodeError exactly on truncated / non-multiple / length-check failures, loop variants), the five write/read pair lemmas and three framing lemmas hold for arbitrary buffers, and parse/write contracts plus round-trip lemmas (fields back, everything consumed, rewrite byte-identical) are proved for RecordHeader3, Alert, ChangeCipherSpec, HelloRequest, ServerHelloDone, KeyUpdate, Finished, CertificateVerify, NextProtocol, Heartbeat, ApplicationData. Partial: messages carrying extension blocks, extensions.py, X.509-bearing messages and SSLv2 forms are not built.',
  'design_ref': 'DESIGN.md section 3 C15',
  'note': 'tuple lists proved for arity 2 (the only arity used); Parser preconditions (non-negative lengths, element size >= 1) from call sites',
  'technique': TECH + '; scenario lemmas for round trips'},
 'C08': {
  'text': 'Exception safety and termination of the codec layer: for arbitrary input bytes every Parser primitive and every parse() of the simple message classes can leave only by DecodeError/SyntaxError-family exceptions (no IndexError, KeyError, AssertionError, TypeError, ValueError), with loop variants; _sendError is proved never to return normally and to send one fatal alert, shut down non-resumably and raise TLSLocalAlert. Partial: extension and certificate parsers, handshake-body dereferences, exception-to-alert mapping in _getMsg and resource bounds are not built (several defects of this kind were found and fixed on the client side, see known_findings.json).',
  'design_ref': 'DESIGN.md section 3 C08',
  'note': 'memory bound not addressed; only the listed functions are covered',
  'technique': TECH},
 'C14': {
  'text': 'Yield transparency: every one of the 318 loops over a generator call in tlsrecordlayer.py, recordlayer.py, messagesocket.py and tlsconnection.py is proved (one named obligation per loop) to be one of the enumerated pass-through idioms with the test `in (0, 1)`, which is what makes would-block indications from callees transparent; Defragmenter: add_data(a); add_data(b) == add_data(a||b), get_message functional specification (priority, exact removal, progress) and an explicit record-split-invariance lemma, is_empty <=> all buffers empty; _getNextRecord defragmentation loop. Partial: RecordSocket/BufferedSocket ghost-stream contracts and AsyncStateMachine are being built (not_built until registered).',
  'design_ref': 'DESIGN.md section 3 C14',
  'note': 'equivalence of outcomes under all schedules follows modularly from these contracts; no schedule is executed',
  'technique': TECH + '; AST idiom task; scenario lemmas on the real Defragmenter'},
 'C16': {
  'text': 'Post-handshake control traffic on the real code: readAsync (admitted content/handshake types per state, _readBuffer grows only by ApplicationData payloads, prefix/suffix split at the same cut, every control branch leaves the buffer unchanged), KeyUpdate (unknown type => illegal_parameter, the read/write state replaced with the right direction secret for the role, stored secrets updated, requested update answered), post-handshake authentication (context popped = single use, scheme in the request list, signature over first transcript||CertificateRequest||Certificate, Finished equal, only then clientCertChain stored), heartbeat (answered only if permitted and padding >= 16, response created from the request), _sendMsg fragmentation (concatenation of fragments == message, 1/n-1 split without repeating byte 0, fragment limit).',
  'design_ref': 'DESIGN.md section 3 C16',
  'note': 'interleaving histories by modularity only; the two-endpoint relational KeyUpdate lemma is not built; M2 fault and purity assumptions are listed in the evidence',
  'technique': M2T + '; M1 contract with loop invariant for _sendMsg'},
 'C17': {
  'text': 'Exceptional postconditions on the real I/O wrappers with a fault injected at every socket-touching callee: readAsync (close_notify ends the read normally, abrupt close raises unless ignoreAbruptClose, every other exception leaves after _shutdown(False)), writeAsync (TLSClosedConnectionError before any send when closed), close/_decrefAsync, _shutdown (closed set, resumable only ever cleared), _handshakeWrapperAsync (any exception => _shutdown(False) before re-raise; _handshakeDone is the only writer of closed=False), _sendMsgThroughSocket, the _getMsg alert branch, and a whole-repository task that every raise of TLSLocalAlert/TLSRemoteAlert sits in a function with a shutdown proof.',
  'design_ref': 'DESIGN.md section 3 C17',
  'note': 'which I/O call faults is abstracted (any callee may raise socket.error/TLSAbruptCloseError): that is the all-fault-points quantifier; known finding F24 (heartbeat response send failure deliberately swallowed) is carved out',
  'technique': M2T + '; AST writer/raise-site tasks'},
 'C11': {
  'text': 'RSAKey.decrypt (implicit rejection) is proved total and deterministic and equal to the plainly written specification of draft-irtf-cfrg-rsa-guidance for every key size 11 <= k <= 8191 bytes and every ciphertext: None exactly for publicly invalid ciphertexts, the real message exactly when EM is a valid type-2 block, otherwise the synthetic message whose bytes and length depend only on (key hash, ciphertext, k); _dec_prf against its definition; no RNG call; RSAKeyExchange.processClientKeyExchange always returns 48 bytes, the decrypted value only if it is 48 bytes with an accepted version, else the fresh random, with no exception; server side: after processClientKeyExchange no alert depends on the premaster (TLS >= 1.0).',
  'design_ref': 'DESIGN.md section 3 C11',
  'note': 'raw private-key operation and HMAC uninterpreted; constant-time behaviour is not claimed; SSLv3 CertificateVerify path carved out of the uniformity obligation (stated in evidence)',
  'technique': TECH + '; loop invariants for the 128-candidate selection and the byte scan'},
 'C10': {
  'text': 'RSA PKCS#1 v1.5: verify returns True iff len(sig)==k, int(sig)<n and pub(sig) == 00 01 FF..FF 00 DigestInfo||hash for the given hash (no garbage, no alternative DigestInfo) for k >= |T|+11; EMSA-PSS encode/verify against every RFC 8017 9.1.2 step, MGF1, RSASSA-PSS sign/verify incl. modulus bit lengths 1 mod 8 (after fix e55c238), sign-then-verify round-trip lemmas; FFDH share validation (1 < Y < p-1, length, S not in {1,p-1}) and X25519/X448 length and all-zero checks. Partial: ECDSA/EdDSA/DSA arithmetic (external ecdsa package), CRT/blinding algebra, sign-then-verify dominance at the emission sites are not built.',
  'design_ref': 'DESIGN.md section 3 C10',
  'note': 'RsaPub(RsaPriv(m)) == m assumed for the round trips; known finding F30 (short PS accepted for keys below ~752 bits) carved out; PSS round trip proved for SHA-256 only',
  'technique': TECH},
}
NOT_APPLICABLE = {
 'C07': 'interoperability with OpenSSL: no contract on /repo functions can speak about another implementation\'s behaviour; needs a second implementation executing (see DESIGN.md C07)',
}
