"""M2X: additive extensions of the M2 guard-dominance executor (pyvc/m2.py) used by
contracts/m2_server.py.  Nothing in m2.py is changed; tasks opt in by being created with
`m2xtask(...)` instead of `m2task(...)`.

Additions (all are refinements of the M2 abstraction, none removes a path):

  * site hooks taken from attributes of the M2Spec object (set them after construction):
      spec.on_compare(ex, op, a, b, st, fr, node)        every comparison (before it is evaluated)
      spec.on_index(ex, base, idx, st, node)             every subscript load `base[idx]`
      spec.on_getattr(ex, v, name, st, fr, node)         every attribute load on an opaque value
      spec.on_subscript_store(ex, base, tgt, val, st, fr)  every `base[...] = val`
      spec.field_like_properties = {names}               properties of `self` stored / read as heap fields
      spec.on_name(ex, name, val, st, fr, node)             every load of a local / global name
  * locals that are mutated in place inside a cut loop (`x.append(..)`, `x[i] = ..`) are havocked like assigned ones;
  * `list + opaque` / `list += opaque` evaluate to `v_concat(list, opaque)` with `v_empty_list` for `[]`
    (before: statement skipped and the target havocked);
  * the 3-way generator idiom of `_handshakeServerAsyncHelper`
        for r in G(..): if r in (0,1): yield r / elif COND: BODY / else: break
    is executed as `r = await G(..); if COND: BODY`;
  * opt-in `spec.refine_loops = True`: loops that are cut with the trivial invariant keep the pre-loop value
    of every local that provably has the same value at every back edge as at the loop head (checked
    inductively: the body is re-executed with the reduced havoc set and the check repeated until stable);
  * opt-in `spec.loop_elem_facts = True`: for `for x in E` / `for i, x in enumerate(E)` over an opaque `E`
    the body may assume `x in E` (and `x == E[i]`): list/tuple semantics of iteration (assumption, stated
    by the contracts that switch it on).
"""
import ast

import z3

from . import smt, source
from .executor import Executor, Frame, Outcome, _assigned_names, _target_names
from .m2 import M2Executor, M2Task, M2API, M2Spec, fresh_opaque, NoReturn, _reg
from .state import State
from .values import (V, VInt, VBool, VNone, VList, VTuple, VOpaque, VObj, Unsupported, truthy, to_val, same_value,
                     val_int, v_truthy, fresh_name)

V_CONCAT = z3.Function('v_concat', smt.Val, smt.Val, smt.Val)
V_EMPTY_LIST = z3.Const('v_empty_list', smt.Val)
V_LIST1 = z3.Function('v_list1', smt.Val, smt.Val)
V_IN = z3.Function('v_in', smt.Val, smt.Val, smt.B)
V_GETITEM = z3.Function('v_getitem', smt.Val, smt.Val, smt.Val)
V_ADD = z3.Function('v_add', smt.Val, smt.Val, smt.Val)


def list_to_val(v):
    """Val term for a (short, concrete-shape) Python list value, None if not expressible."""
    if isinstance(v, VOpaque):
        return v.t
    if isinstance(v, VList):
        t = V_EMPTY_LIST
        try:
            for it in v.items:
                t = V_CONCAT(t, V_LIST1(to_val(it)))
        except Unsupported:
            return None
        return t
    return None


class M2XExecutor(M2Executor):
    def feasible(self, st, extra=None):
        """path pruning in the ground theory of the m2 obligations (same as M2Executor's `ground_feasible`
        option) with the embedding facts cached per path-condition conjunct"""
        if not self.opts.get('ground_feasible') or not self.prune:
            return M2Executor.feasible(self, st, extra)
        import time as _t
        from .values import val_axioms
        cache = self.__dict__.setdefault('_vax', {})
        pc = st.pc + ([extra] if extra is not None else [])
        s = z3.SolverFor('QF_UFLIA')
        s.set('timeout', int(self.opts.get('feasible_ms', 400)))
        for f in pc:
            e = cache.get(f.get_id())
            if e is None:
                e = (f, val_axioms([f]))          # keep f alive: ids of dead terms are reused
                cache[f.get_id()] = e
            for a in e[1]:
                s.add(a)
            s.add(f)
        t0 = _t.time()
        smt.beat(60.0)
        r = s.check()
        smt.beat(0)
        return not (r == z3.unsat and (_t.time() - t0) * 1000.0 < 0.6 * self.opts.get('feasible_ms', 400))

    # ------------------------------------------------------------ site hooks
    def compare(self, op, a, b, st, fr, node):
        h = getattr(self.spec, 'on_compare', None)
        if h is not None:
            h(self, op, a, b, st, fr, node)
        return M2Executor.compare(self, op, a, b, st, fr, node)

    def index(self, base, idx, st, node):
        h = getattr(self.spec, 'on_index', None)
        if h is not None:
            h(self, base, idx, st, node)
        return M2Executor.index(self, base, idx, st, node)

    def getattr_(self, v, name, st, fr, node=None):
        h = getattr(self.spec, 'on_getattr', None)
        if h is not None and isinstance(v, VOpaque):
            h(self, v, name, st, fr, node)
        return M2Executor.getattr_(self, v, name, st, fr, node)

    def setattr_(self, obj, name, val, st, fr, node):
        """`spec.field_like_properties`: properties of `self` whose getter returns what the setter stored
        (assumption stated by the contract): kept as a heap field of the model object"""
        if isinstance(obj, VObj) and name in getattr(self.spec, 'field_like_properties', ()):
            hook = self.spec.on_store.get(name)
            if hook is not None:
                hook(self, obj, val, st, fr, node)
            st.heap[(obj.oid, name)] = val
            st.events.append(('setattr:' + name, [obj, val], None))
            return [Outcome('normal', st)]
        return M2Executor.setattr_(self, obj, name, val, st, fr, node)

    def assign_subscript(self, tgt, val, st, fr):
        h = getattr(self.spec, 'on_subscript_store', None)
        if h is not None:
            try:
                outs = self.eval(tgt.value, st.fork(), fr)
                if len(outs) == 1 and outs[0].kind == 'normal':
                    h(self, outs[0].val, tgt, val, st, fr)
            except Unsupported:
                pass
        return M2Executor.assign_subscript(self, tgt, val, st, fr)

    def e_Name(self, node, st, fr):
        outs = M2Executor.e_Name(self, node, st, fr)
        h = getattr(self.spec, 'on_name', None)
        if h is not None and isinstance(node.ctx, ast.Load):
            for o in outs:
                if o.kind == 'normal':
                    h(self, node.id, o.val, o.st, fr, node)
        return outs

    # ------------------------------------------------------------ arithmetic / list concatenation on opaque values
    def binop(self, op, a, b, st, node):
        try:
            return Executor.binop(self, op, a, b, st, node)
        except Unsupported:
            pass
        if isinstance(op, ast.Add) and (isinstance(a, VList) or isinstance(b, VList)):
            la, lb = list_to_val(a), list_to_val(b)
            if la is not None and lb is not None:
                return [Outcome('normal', st, VOpaque(V_CONCAT(la, lb)))]
        raise Unsupported('binop %s on %r, %r' % (type(op).__name__, a, b))

    def s_AugAssign(self, node, st, fr):
        if isinstance(node.op, ast.Add) and isinstance(node.target, ast.Name):
            cur = st.env.get(node.target.id)
            if isinstance(cur, VOpaque) or isinstance(cur, VList):
                res = []
                for o in self.eval(node.value, st, fr):
                    if o.kind != 'normal':
                        res.append(o)
                        continue
                    rhs = o.val
                    cur2 = o.st.env.get(node.target.id)
                    new = None
                    if isinstance(cur2, VList) and isinstance(rhs, (VList, VTuple)):
                        new = VList(cur2.items + rhs.items)
                    else:
                        la, lb = list_to_val(cur2), list_to_val(rhs)
                        if la is not None and lb is not None and (isinstance(cur2, VList) or isinstance(rhs, VList)
                                                                  or _is_listy(la)):
                            new = VOpaque(V_CONCAT(la, lb))
                    if new is None:
                        for o2 in self.binop(node.op, cur2, rhs, o.st, node):
                            if o2.kind != 'normal':
                                res.append(o2)
                            else:
                                res.extend(self.assign(node.target, o2.val, o2.st, fr))
                        continue
                    res.extend(self.assign(node.target, new, o.st, fr))
                return res
        return M2Executor.s_AugAssign(self, node, st, fr)

    # ------------------------------------------------------------ merging lists of different shape
    def _merge2(self, a, b):
        """python lists of different length cannot be merged element-wise: embed both into Val
        (v_concat / v_list1 / v_empty_list) so that the merged value is an if-then-else instead of a fresh
        unknown; the emptiness of each embedded list is recorded as a fact."""
        for k in set(a.env) & set(b.env):
            x, y = a.env[k], b.env[k]
            if (isinstance(x, VList) or isinstance(y, VList)) and not same_value(x, y):
                tx, ty = list_to_val(x), list_to_val(y)
                if tx is None or ty is None:
                    continue
                for (s, v, t) in ((a, x, tx), (b, y, ty)):
                    if isinstance(v, VList):
                        s.env[k] = VOpaque(t)
                        s.assume(v_truthy(t) == z3.BoolVal(len(v.items) > 0))
        return M2Executor._merge2(self, a, b)

    # ------------------------------------------------------------ the 3-way generator idiom
    def _generator_idiom(self, node, st, fr):
        if isinstance(node.iter, ast.Call) and self.is_generator_call(node.iter, st, fr) \
                and isinstance(node.target, ast.Name) and len(node.body) == 1 and isinstance(node.body[0], ast.If) \
                and self._is_01_test(node.body[0].test, node.target):
            iff = node.body[0]
            y_ok = len(iff.body) == 1 and isinstance(iff.body[0], ast.Expr) and isinstance(iff.body[0].value, ast.Yield)
            if y_ok and len(iff.orelse) == 1 and isinstance(iff.orelse[0], ast.If):
                inner = iff.orelse[0]
                if len(inner.orelse) == 1 and isinstance(inner.orelse[0], ast.Break) and not node.orelse:
                    res = []
                    once = ast.copy_location(ast.If(test=inner.test, body=inner.body, orelse=[]), inner)
                    ast.fix_missing_locations(once)
                    for o in self.eval(node.iter, st, fr):
                        if o.kind != 'normal':
                            res.append(o)
                            continue
                        o.st.env[node.target.id] = o.val
                        res.extend(self.exec_stmt(once, o.st, fr))
                    return res
        return M2Executor._generator_idiom(self, node, st, fr)

    # ------------------------------------------------------------ loops cut with the trivial invariant, refined
    def _havoc_loop(self, node, st, fr, is_for):
        refine = getattr(self.spec, 'refine_loops', False)
        elem_facts = getattr(self.spec, 'loop_elem_facts', False)
        if not refine and not elem_facts:
            return M2Executor._havoc_loop(self, node, st, fr, is_for)
        mod = _assigned_names(node.body) | (set(_target_names(node.target)) if is_for else set())
        mod |= _mutated_locals(node.body)
        targets = set(_target_names(node.target)) if is_for else set()
        hv = set(mod)
        n_ob = len(self.obligations)
        n_len = len(self.lenient)
        while True:
            del self.obligations[n_ob:]
            del self.lenient[n_len:]
            res, back, outs = self._havoc_loop_once(node, st.fork(), fr, is_for, hv, elem_facts)
            if not refine:
                break
            changed = set(targets) | (_mutated_locals(node.body) & hv)
            for (entry_env, bst) in back:
                for n in hv:
                    x, y = entry_env.get(n), bst.env.get(n)
                    if x is None and y is None:
                        continue
                    if x is None or y is None or not same_value(x, y):
                        changed.add(n)
            if changed >= hv:
                break
            hv = hv & changed
        return res + self.merge(outs)

    def _havoc_loop_once(self, node, st, fr, is_for, hv, elem_facts):
        """One execution of the cut loop with the locals in `hv` havocked at the loop head (all other
        locals keep their pre-loop value: the caller checks that this is inductive).
        -> (abnormal outcomes, [(env at loop head, state at a back edge)], states after the loop)"""
        res = []

        def havoc(s):
            for n in hv:
                s.env[n] = fresh_opaque(n)
            for n in ast.walk(ast.Module(body=node.body, type_ignores=[])):
                if isinstance(n, ast.Call):
                    nm = self._callee_name(n)
                    if nm and nm not in self.spec.pure:
                        self.havoc_call(nm, s)
                elif isinstance(n, ast.Attribute) and isinstance(n.ctx, ast.Store):
                    for key in list(s.heap.keys()):
                        if key[-1] == n.attr:
                            del s.heap[key]
            for k in list(s.ghost.keys()):
                if k in getattr(self.spec, 'loop_ghost_havoc', ()):
                    del s.ghost[k]
        itv = None
        if is_for:
            for o in self.eval(node.iter, st, fr):
                if o.kind != 'normal':
                    res.append(o)
                else:
                    itv = o.val
        body_st = st.fork()
        havoc(body_st)
        after = body_st.fork()
        back = []
        if not is_for:
            outs = self.eval(node.test, body_st, fr)
            bstates = []
            for o in outs:
                if o.kind != 'normal':
                    res.append(o)
                    continue
                t, f = self.split(o.st, truthy(o.val))
                if t is not None:
                    bstates.append(t)
            aft = []
            for o in self.eval(node.test, after, fr):
                if o.kind == 'normal':
                    t, f = self.split(o.st, truthy(o.val))
                    if f is not None:
                        aft.append(f)
            after_states = aft
        else:
            for n in _target_names(node.target):
                body_st.env[n] = fresh_opaque(n)
            if elem_facts:
                self._elem_facts(node, itv, body_st, st, fr)
            bstates = [body_st]
            after_states = [after]
        broken = []
        for bs in bstates:
            entry_env = dict(bs.env)
            for ob in self.exec_block(node.body, bs, fr):
                if ob.kind in ('normal', 'continue'):
                    back.append((entry_env, ob.st))
                    continue
                if ob.kind == 'break':
                    broken.append(ob.st)
                else:
                    res.append(ob)
        # the state "loop ran to exhaustion" and the states "left by break" share their path-condition prefix;
        # a fresh boolean makes them exclusive so that the merge below keeps both sets of values
        # (M2Executor._merge2 selects with the first state's residual condition, which would be `True`)
        if broken:
            ex_k = z3.Bool(fresh_name('loop_exhausted'))
            for a in after_states:
                a.assume(ex_k)
            for b in broken:
                b.assume(z3.Not(ex_k))
        outs = []
        for a in after_states:
            if node.orelse:
                outs.extend(self.exec_block(node.orelse, a, fr))
            else:
                outs.append(Outcome('normal', a))
        for a in broken:                        # `break` skips the loop's else clause
            outs.append(Outcome('normal', a))
        return res, back, outs

    def _elem_facts(self, node, itv, body_st, st, fr):
        tgt = node.target
        it = node.iter
        try:
            if isinstance(tgt, ast.Name) and isinstance(itv, VOpaque):
                body_st.assume(V_IN(to_val(body_st.env[tgt.id]), itv.t))
            elif isinstance(tgt, ast.Tuple) and len(tgt.elts) == 2 and all(isinstance(e, ast.Name) for e in tgt.elts) \
                    and isinstance(it, ast.Call) and isinstance(it.func, ast.Name) and it.func.id == 'enumerate' \
                    and len(it.args) == 1:
                outs = self.eval(it.args[0], st.fork(), fr)
                if len(outs) == 1 and outs[0].kind == 'normal' and isinstance(outs[0].val, VOpaque):
                    seq = outs[0].val.t
                    i = to_val(body_st.env[tgt.elts[0].id])
                    x = to_val(body_st.env[tgt.elts[1].id])
                    body_st.assume(V_IN(x, seq))
                    body_st.assume(x == V_GETITEM(seq, i))
        except Unsupported:
            pass


_MUTATORS = ('append', 'extend', 'pop', 'remove', 'clear', 'insert', 'update', 'add', 'discard', 'sort', 'reverse',
             'setdefault', 'popitem')


def _mutated_locals(stmts):
    """local names whose object is mutated in place in `stmts` (x.append(..), x[i] = .., del x[i])"""
    names = set()
    for s in stmts:
        for n in ast.walk(s):
            if isinstance(n, ast.Call) and isinstance(n.func, ast.Attribute) and n.func.attr in _MUTATORS \
                    and isinstance(n.func.value, ast.Name):
                names.add(n.func.value.id)
            elif isinstance(n, ast.Subscript) and isinstance(n.ctx, (ast.Store, ast.Del)) \
                    and isinstance(n.value, ast.Name):
                names.add(n.value.id)
    return names


def _is_listy(t):
    return z3.is_app(t) and (t.decl().name() in ('v_concat', 'v_empty_list') or
                             (t.decl().kind() == z3.Z3_OP_ITE and (_is_listy(t.arg(1)) or _is_listy(t.arg(2)))))


def run_m2x(qual, spec, setup=None, opts=None):
    fs = source.load(qual)
    ex = M2XExecutor(_reg(), spec, opts)
    st = State()
    fr = Frame(fs, None)
    ex.root_fr = fr
    names = [a.arg for a in fs.node.args.posonlyargs + fs.node.args.args]
    for n in names:
        if n == 'self' and fs.cls is not None:
            o = st.alloc(fs.cls)
            st.fresh_objs.discard(o.oid)
            st.env[n] = o
        else:
            st.env[n] = fresh_opaque(n)
    if setup:
        setup(ex, st, fr)
    entry = st.fork()
    outs = ex.exec_block(source.strip_docstring(fs.node.body), st, fr)
    return ex, outs, fr, entry


class M2XTask(M2Task):
    def verify(self, reg, budget_ms=10000):
        import time
        from .contract import discharge
        t0 = time.time()
        ex, outs, fr, entry = run_m2x(self.qual, self.spec, self.setup, opts=self.opts)
        api = M2API(ex, outs, fr, entry, self)
        if self.check is not None:
            self.check(api)
        if not ex.obligations:
            raise RuntimeError('M2 task %s produced no obligations' % self.name)
        t1 = time.time()
        from .contract import discharge_all
        results = discharge_all(self, ex.obligations, budget_ms)
        fs = source.load(self.qual)
        meta = {'qual': self.qual, 'sha256': fs.sha256, 'contract': self.name, 'exec_s': t1 - t0,
                'paths': len(outs), 'inlined': sorted(ex.inlined),
                'opaque': sorted(ex.opaque_calls)[:80],
                'assumptions': sorted(set(ex.assumptions)) +
                ['M2: %d constructs evaluated as unconstrained opaque values' % len(ex.lenient)]}
        return results, meta


def m2xtask(name, prop, qual, spec, check=None, setup=None, doc='', opts=None):
    o = {'ground_feasible': True}
    o.update(opts or {})
    t = M2XTask(name, prop, qual, spec, check, setup, doc, o)
    _reg().add_task(t)
    return t


def term_mentions(t, targets):
    """does z3 term t contain one of the terms in `targets` (compared by id)?"""
    ids = set(x.get_id() for x in targets)
    seen = set()
    stack = [t]
    while stack:
        e = stack.pop()
        k = e.get_id()
        if k in seen:
            continue
        seen.add(k)
        if k in ids:
            return True
        if z3.is_app(e):
            stack.extend(e.children())
    return False
