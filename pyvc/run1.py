"""Developer tool: verify the contracts of one module and print the verdicts."""
import importlib
import sys
import time

from pyvc.contract import REG
from pyvc import smt


def main():
    modname = sys.argv[1]
    only = sys.argv[2:]
    importlib.import_module(modname)
    smt.prove_bit_lemmas()
    tasks = [[t] for k, t in REG.tasks.items()]
    for cs in tasks:
        for c in cs:
            if only and not any(o in c.name for o in only):
                continue
            t0 = time.time()
            try:
                results, meta = c.verify(REG)
            except Exception as e:
                import traceback
                traceback.print_exc()
                print('CRASH/UNSUPPORTED', c.name, e)
                continue
            dt = time.time() - t0
            bad = [r for r in results if r['verdict'] != 'proved']
            print('%-40s %3d obligations, %d not proved, %.2fs (exec %.2fs, %d paths)' %
                  (c.name, len(results), len(bad), dt, meta['exec_s'], meta['paths']))
            for r in bad:
                print('   ', r['verdict'], r['obligation'], r['backend'], r['s'], r.get('reason'), (r['trace'] or [])[-12:])
                if r['model']:
                    print('      model:', {k: v for k, v in list(r['model'].items())[:30]})


if __name__ == '__main__':
    main()
