"""Executable specifications + differential runs for the message-receiving machinery
(tlslite/defragmenter.py, TLSRecordLayer._getMsg).  Pure Python, runs under /venv/bin/python against the
real /repo code.  The reference models are written from RFC 5246 s6.2.1/s7, RFC 8446 s5.1/App. D.4,
RFC 6520 s4 and the property statements (C06, C14, C16, C17), not from the code.
Bounded stand-in and counterexample finder only: never counted as proved.
"""
import errno
import socket

from tlslite.defragmenter import Defragmenter
from tlslite.constants import ContentType, HandshakeType, AlertDescription, AlertLevel, HeartbeatMessageType
from tlslite.utils.codec import Parser

CCS, ALERT, HS, APP, HB = (ContentType.change_cipher_spec, ContentType.alert, ContentType.handshake,
                           ContentType.application_data, ContentType.heartbeat)


# ===========================================================================
# C14: the defragmenter is framing-free
#
# Reference: one byte string per content type.  A CCS message is 1 byte, an alert 2 bytes, a handshake message
# 4 + u24(bytes 1..3).  The next message is the first complete one of the highest-priority type (ccs, alert,
# handshake).  How the byte strings were cut into records cannot matter.

def ref_next(bufs):
    if len(bufs[CCS]) >= 1:
        m = bufs[CCS][:1]
        bufs[CCS] = bufs[CCS][1:]
        return (CCS, m)
    if len(bufs[ALERT]) >= 2:
        m = bufs[ALERT][:2]
        bufs[ALERT] = bufs[ALERT][2:]
        return (ALERT, m)
    b = bufs[HS]
    if len(b) >= 4:
        n = 4 + int.from_bytes(b[1:4], 'big')
        if len(b) >= n:
            bufs[HS] = b[n:]
            return (HS, b[:n])
    return None


def mk_defrag():
    d = Defragmenter()
    d.add_static_size(CCS, 1)
    d.add_static_size(ALERT, 2)
    d.add_dynamic_size(HS, 1, 3)
    return d


def x_defragmenter(rng, n):
    failures, distinct = [], set()
    evals = 0
    for _ in range(n):
        # a random history: chunks of random content types, and get_message calls in between
        d = mk_defrag()
        ref = {CCS: b'', ALERT: b'', HS: b''}
        steps = []
        for _k in range(rng.randint(1, 12)):
            if rng.random() < 0.6:
                t = rng.choice([CCS, ALERT, HS, HS, HS])
                if t == HS and rng.random() < 0.7:
                    body = bytes(rng.getrandbits(8) for _ in range(rng.choice([0, 1, 2, 5, 40])))
                    msg = bytes([rng.randint(0, 25)]) + len(body).to_bytes(3, 'big') + body
                    cut = rng.randint(0, len(msg))
                    chunk = msg[:cut] if rng.random() < 0.5 else msg
                else:
                    chunk = bytes(rng.getrandbits(8) for _ in range(rng.randint(0, 6)))
                steps.append(('add', t, chunk))
            else:
                steps.append(('get',))
        steps.extend([('get',)] * 4)
        for s in steps:
            evals += 1
            if s[0] == 'add':
                d.add_data(s[1], bytearray(s[2]))
                ref[s[1]] += s[2]
                if d.is_empty() != all(len(v) == 0 for v in ref.values()):
                    failures.append({'class': 'defrag-is-empty', 'what': 'is_empty() disagrees with the per-type buffers',
                                     'input': {'steps': repr(steps)}})
            else:
                want = ref_next(ref)
                got = d.get_message()
                got_n = None if got is None else (got[0], bytes(got[1]))
                distinct.add(repr(want)[:24])
                if got_n != want:
                    failures.append({'class': 'defrag-framing', 'what': 'get_message returned %r, reference %r' % (got_n, want),
                                     'input': {'steps': repr(steps)}})
                    break
        # unknown type
        try:
            d.add_data(APP, bytearray(b'x'))
            failures.append({'class': 'defrag-unknown-type', 'what': 'add_data accepted an unregistered type', 'input': {}})
        except ValueError:
            pass
        if len(failures) > 5:
            break
    return {'evaluations': evals, 'distinct_nontrivial': len(distinct), 'bound': 'histories of <= 16 steps, messages <= 44 bytes',
            'rule': 'messages handed out == reference parse of the per-type concatenation', 'failures': failures[:5]}


# ===========================================================================
# C06 / C16 / C17: reference decision function of the _getMsg gate for ONE record
#
# outcome in: ('return', class name) | ('alert', description name) | ('skip', reason) | ('remote-alert', resumable)

HS_CLASS = {HandshakeType.client_hello: 'ClientHello', HandshakeType.server_hello: 'ServerHello',
            HandshakeType.certificate: 'Certificate', HandshakeType.certificate_request: 'CertificateRequest',
            HandshakeType.certificate_verify: 'CertificateVerify', HandshakeType.server_hello_done: 'ServerHelloDone',
            HandshakeType.finished: 'Finished', HandshakeType.encrypted_extensions: 'EncryptedExtensions',
            HandshakeType.key_update: 'KeyUpdate', HandshakeType.new_session_ticket: 'NewSessionTicket'}
KEY_CHANGE = (HandshakeType.client_hello, HandshakeType.end_of_early_data, HandshakeType.server_hello,
              HandshakeType.finished, HandshakeType.key_update)


def ref_gate(c, rec):
    """c: connection facts, rec: (content type, payload bytes)"""
    t, payload = rec
    tls13 = c['version'] > (3, 3)
    exp, sec = c['expected'], c['secondary']
    if tls13 and t == CCS and HS in exp and c['compat']:
        return ('skip', 'compat-ccs') if payload == b'\x01' else ('alert', 'unexpected_message')
    if tls13 and t != HS and c['hs_buffered']:
        return ('alert', 'unexpected_message')
    if t not in exp:
        if t == ALERT:
            if len(payload) != 2:
                return ('alert', 'decode_error')
            level, desc = payload
            if desc == AlertDescription.close_notify:
                return ('remote-alert', True)
            return ('remote-alert', False)
        if t == HS:
            sub = payload[0]
            reneg = (sub == HandshakeType.hello_request) if c['client'] else (sub == HandshakeType.client_hello)
            if reneg and c['session']:
                return ('skip', 'no_renegotiation')
        if t == HB and c['hb_supported']:
            return ('skip', 'heartbeat')
        return ('alert', 'unexpected_message')
    if t == APP:
        return ('skip', 'empty-appdata') if len(payload) == 0 else ('return', 'ApplicationData')
    if t == CCS:
        return ('return', 'ChangeCipherSpec')
    if t == ALERT:
        return ('return', 'Alert') if len(payload) == 2 else ('alert', 'decode_error')
    if t == HS:
        sub = payload[0]
        if sub not in sec:
            return ('alert', 'unexpected_message')
        if tls13 and sub in KEY_CHANGE and not c['defrag_empty']:
            return ('alert', 'unexpected_message')
        return ('return-hs', sub)
    return ('alert', 'unexpected_message')


class _Sock(object):
    def __init__(self, fail=False):
        self.sent = bytearray()
        self.fail = fail

    def send(self, data):
        if self.fail:
            raise socket.error(errno.EPIPE, 'Broken pipe')
        self.sent += data
        return len(data)

    def sendall(self, data):
        self.send(data)

    def recv(self, n):
        raise AssertionError('not used')

    def close(self):
        pass


def mk_conn(c, records, fail_send=False):
    from tlslite.tlsrecordlayer import TLSRecordLayer
    from tlslite.messages import RecordHeader3
    conn = TLSRecordLayer(_Sock(fail_send))
    conn.version = c['version']
    conn._recordLayer.client = c['client']
    conn.closed = False
    conn.session = c['session']
    conn._middlebox_compat_mode = c['compat']
    conn.heartbeat_supported = c['hb_supported']
    conn.heartbeat_can_receive = c.get('hb_can_receive', True)
    if c['hs_buffered'] or not c['defrag_empty']:
        conn._defragmenter.add_data(HS, bytearray(b'\x0b'))       # one stray byte of a next handshake message
    recs = list(records)

    def fake():
        t, payload = recs.pop(0)
        yield (RecordHeader3().create(c['version'], t, len(payload)), Parser(bytearray(payload)))
    conn._getNextRecord = fake
    return conn


class _Sess(object):
    resumable = True

    def __bool__(self):
        return True
    __nonzero__ = __bool__


def run_real(c, records, fail_send=False):
    from tlslite.errors import TLSLocalAlert, TLSRemoteAlert
    conn = mk_conn(c, records, fail_send)
    out = None
    try:
        for r in conn._getMsg(c['expected'], c['secondary']):
            out = r
    except TLSLocalAlert as e:
        return ('alert', AlertDescription.toRepr(e.description)), conn
    except TLSRemoteAlert as e:
        return ('remote-alert', bool(conn.session.resumable) if conn.session else None), conn
    except IndexError:
        return ('ran-out-of-records',), conn
    except Exception as e:
        return ('exception', type(e).__name__, str(e)[:80]), conn
    return ('return', type(out).__name__), conn


def x_gate(rng, n):
    failures, distinct = [], set()
    evals = 0
    hs_types = list(HS_CLASS)
    for _ in range(n):
        version = rng.choice([(3, 1), (3, 3), (3, 4)])
        c = {'version': version, 'client': rng.random() < 0.5, 'session': _Sess() if rng.random() < 0.5 else None,
             'compat': rng.random() < 0.5, 'hb_supported': rng.random() < 0.5,
             'expected': rng.choice([(HS,), (APP,), (APP, HS), (HS, CCS), (ALERT, APP), (HS, ALERT), (CCS,)]),
             'secondary': tuple(rng.sample(hs_types, rng.randint(1, 3))),
             'hs_buffered': False, 'defrag_empty': True}
        if version > (3, 3) and rng.random() < 0.3:
            c['hs_buffered'] = True
            c['defrag_empty'] = False
        t = rng.choice([CCS, ALERT, HS, APP, HB])
        if t == CCS:
            payload = bytes([rng.choice([1, 1, 1, 0, 2])])
        elif t == ALERT:
            payload = bytes([rng.choice([1, 2]), rng.choice([0, 10, 40, 100])])
        elif t == HS:
            sub = rng.choice(hs_types + [HandshakeType.hello_request] * 4 + [HandshakeType.client_hello] * 3)
            payload = bytes([sub]) + b'\x00\x00\x00'
        elif t == APP:
            payload = rng.choice([b'', b'data'])
        else:
            payload = bytes([rng.choice([1, 2])]) + b'\x00\x01p' + b'\x00' * rng.choice([0, 16, 20])
        want = ref_gate(c, (t, payload))
        if want[0] == 'return-hs':
            continue                      # parsing a full handshake body is C15's business
        evals += 1
        distinct.add(want)
        # a following application_data record ends every "skip"
        follow = [(APP, b'tail')]
        got, conn = run_real(c, [(t, payload)] + follow)
        if want[0] == 'skip':
            # after the skipped record the follow-up record is judged on its own; in TLS 1.3 non-handshake
            # traffic while a handshake fragment is buffered is itself a violation
            want2 = ref_gate(c, follow[0])
            ok = (got == (want2 if want2[0] != 'skip' else got))
        elif want[0] == 'remote-alert':
            ok = got[0] == 'remote-alert' and (c['session'] is None or got[1] == want[1])
        else:
            ok = (got == want)
        if not ok:
            failures.append({'class': 'gate-mismatch', 'what': 'reference %r, real %r' % (want, got),
                             'input': {'conn': {k: repr(v) for k, v in c.items()}, 'record': [t, payload.hex()]}})
            if len(failures) > 5:
                break
    return {'evaluations': evals, 'distinct_nontrivial': len(distinct),
            'bound': 'single records x versions {1.0,1.2,1.3} x 7 expectedType sets x role x session x compat x heartbeat',
            'rule': 'outcome of _getMsg == reference gate decision', 'failures': failures[:5]}


# ===========================================================================
# C17: "If the transport fails (EOF, reset, broken pipe) at any point of a handshake or data transfer, the call
# raises a socket or abrupt-close error".  Every send _getMsg performs on its own (courtesy close_notify excepted:
# orderly close) is made to fail with EPIPE.

def x_transport_failure(rng, n):
    from tlslite.messages import Heartbeat
    failures = []
    evals = 0
    base = {'version': (3, 3), 'client': True, 'session': None, 'compat': False, 'hb_supported': True,
            'hb_can_receive': True, 'expected': (APP,), 'secondary': (None,), 'hs_buffered': False, 'defrag_empty': True}
    # 1. heartbeat response cannot be sent
    req = bytes(Heartbeat().create(HeartbeatMessageType.heartbeat_request, bytearray(b'ping'), 16).write())
    got, conn = run_real(dict(base), [(HB, req), (APP, b'hello')], fail_send=True)
    evals += 1
    if got[0] == 'return':
        failures.append({'class': 'hb-response-send-failure-swallowed',
                         'what': 'EPIPE while sending the HeartbeatResponse is swallowed: _getMsg goes on and returns %s, '
                                 'closed=%r' % (got[1], conn.closed),
                         'input': {'records': ['heartbeat_request(payload=ping,padding=16)', 'application_data(hello)'],
                                   'socket': 'every send raises socket.error(EPIPE)'}})
    # 2. no_renegotiation warning cannot be sent
    c = dict(base, session=_Sess(), expected=(APP,))
    got, conn = run_real(c, [(HS, bytes([HandshakeType.hello_request, 0, 0, 0])), (APP, b'hello')], fail_send=True)
    evals += 1
    if got[0] != 'exception' or got[1] not in ('OSError', 'error', 'BrokenPipeError'):
        failures.append({'class': 'reneg-refusal-send-failure-swallowed', 'what': 'got %r' % (got,),
                         'input': {'records': ['hello_request', 'application_data']}})
    # 3. courtesy close_notify reply cannot be sent: still an orderly close
    got, conn = run_real(dict(base, session=_Sess()), [(ALERT, bytes([AlertLevel.warning, AlertDescription.close_notify]))],
                         fail_send=True)
    evals += 1
    if got != ('remote-alert', True) or not conn.closed:
        failures.append({'class': 'close-notify-reply-failure-masks-close', 'what': 'got %r closed=%r' % (got, conn.closed),
                         'input': {'records': ['alert(warning, close_notify)']}})
    return {'evaluations': evals, 'distinct_nontrivial': evals, 'bound': 'the three sends _getMsg performs on its own',
            'rule': 'a failing send surfaces as socket.error (close_notify reply: orderly close kept)', 'failures': failures}


XCHECKS = {'defragmenter_framing': x_defragmenter, 'getmsg_gate': x_gate, 'getmsg_transport_failure': x_transport_failure}
