"""C15: ServerKeyExchange.writeParams (tlslite/messages.py): the parameters are written in the RFC order, each big integer with
ITS OWN recorded length (the length seen when the message was parsed), so that a parsed message re-serialises to the bytes
that were received (and that were signed).
  RFC 5246 7.4.3  ServerDHParams: dh_p<1..2^16-1> dh_g<1..2^16-1> dh_Ys<1..2^16-1>
  RFC 5054 2.6    ServerSRPParams: srp_N<1..2^16-1> srp_g<1..2^16-1> srp_s<1..255> srp_B<1..2^16-1>
  RFC 8422 5.4    ServerECDHParams: curve_type(1)=3 named_curve(2) point<1..255>"""
import ast

from pyvc.asttask import AstTask
from pyvc import source
from pyvc.contract import REG

Q = 'tlslite/messages.py:ServerKeyExchange.writeParams'
EXPECT = {
    'srpAllSuites': [('int', 'srp_N', 2), ('int', 'srp_g', 2), ('bytes', 'srp_s', 1), ('int', 'srp_B', 2)],
    'dhAllSuites': [('int', 'dh_p', 2), ('int', 'dh_g', 2), ('int', 'dh_Ys', 2)],
    'ecdhAllSuites': [('fix', 'curve_type', 1), ('fix', 'named_curve', 2), ('bytes', 'ecdh_Ys', 1)],
}


def _self_attr(n):
    return n.attr if isinstance(n, ast.Attribute) and isinstance(n.value, ast.Name) and n.value.id == 'self' else None


class SkeWriteParams(AstTask):
    def run(self, reg, meta):
        fn = source.load(Q).node
        chain = [n for n in fn.body if isinstance(n, ast.If)]
        self.holds('dispatch-chain-found', 'ast', len(chain) == 1)
        if len(chain) != 1:
            return
        node, seen = chain[0], set()
        while isinstance(node, ast.If):
            t = node.test
            lst = None
            if isinstance(t, ast.Compare) and len(t.ops) == 1 and isinstance(t.ops[0], ast.In) and _self_attr(t.left) == 'cipherSuite' \
                    and isinstance(t.comparators[0], ast.Attribute):
                lst = t.comparators[0].attr
            self.holds('branch-L%d-tests-cipherSuite-in-a-key-exchange-list' % node.lineno, 'ast', lst in EXPECT, reason='test is %s' % ast.unparse(t))
            if lst in EXPECT:
                seen.add(lst)
                writes = []
                for st in node.body:
                    if isinstance(st, ast.Expr) and isinstance(st.value, ast.Call) and isinstance(st.value.func, ast.Attribute) \
                            and isinstance(st.value.func.value, ast.Name) and st.value.func.value.id == 'writer':
                        writes.append(st.value)
                exp = EXPECT[lst]
                self.holds('%s:number-of-fields-written' % lst, 'ast', len(writes) == len(exp), reason='%d writes' % len(writes))
                for k, (kind, field, ll) in enumerate(exp):
                    if k >= len(writes):
                        break
                    c = writes[k]
                    nm = '%s:field#%d=%s' % (lst, k + 1, field)
                    if kind == 'fix':
                        ok = c.func.attr == 'add' and len(c.args) == 2 and _self_attr(c.args[0]) == field and \
                            isinstance(c.args[1], ast.Constant) and c.args[1].value == ll
                        self.holds(nm + ':fixed-%d-bytes' % ll, 'ast', ok, reason=ast.unparse(c), where=c.lineno)
                        continue
                    ok_call = c.func.attr == 'addVarSeq' and len(c.args) == 3 and isinstance(c.args[1], ast.Constant) and c.args[1].value == 1 \
                        and isinstance(c.args[2], ast.Constant) and c.args[2].value == ll
                    self.holds(nm + ':byte-vector-with-%d-byte-length' % ll, 'ast', ok_call, reason=ast.unparse(c), where=c.lineno)
                    a0 = c.args[0] if c.args else None
                    if kind == 'bytes':
                        self.holds(nm + ':written-verbatim', 'ast', _self_attr(a0) == field, reason=ast.unparse(c), where=c.lineno)
                    else:
                        ok = isinstance(a0, ast.Call) and isinstance(a0.func, ast.Name) and a0.func.id == 'numberToByteArray' and \
                            len(a0.args) == 2 and _self_attr(a0.args[0]) == field and _self_attr(a0.args[1]) == field + '_len'
                        self.holds(nm + ':encoded-with-its-own-recorded-length(%s_len)' % field, 'ast', ok, reason=ast.unparse(c), where=c.lineno)
            node = node.orelse[0] if len(node.orelse) == 1 else None
        self.holds('all-three-key-exchange-families-handled', 'ast', seen == set(EXPECT), reason=str(sorted(seen)))


REG.add_task(SkeWriteParams('ServerKeyExchange.writeParams/layout', ('C15',), Q,
                            doc='fields in RFC order, each integer encoded with its own recorded length, vectors with the RFC length-field widths'))
REG.note('C15', 'not_built', 'ServerKeyExchange.parse / write as M1 contracts (numberToByteArray / bytesToNumber round trip): only the layout '
                             'of writeParams is decided (on the AST); parse side covered by the exception-class task (C08)')
