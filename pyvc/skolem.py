"""Goal-side skolemisation (opt-in per contract: opts={'skolemize': True}).

A goal is proved by refuting its negation.  A universal quantifier in a positive position of the goal (or an
existential one in a negative position) can be replaced by a fresh constant without changing validity:
    |= G[forall x. P(x)]   iff   |= G[P(c)]      (c fresh, the quantifier not below another binder)
z3 does the same internally; doing it before the extensionality instances are collected makes the terms under
such quantifiers *ground*, so that `smt.ext_instances` sees them (it skips terms with bound variables).
"""
import z3

_N = [0]


def _fresh(name, sort):
    _N[0] += 1
    return z3.Const('sk!%s!%d' % (name, _N[0]), sort)


def skolemize(g, positive=True):
    if z3.is_quantifier(g):
        if g.is_lambda():
            return g
        if (g.is_forall() and positive) or (g.is_exists() and not positive):
            n = g.num_vars()
            consts = [_fresh(g.var_name(i), g.var_sort(i)) for i in range(n)]
            # de Bruijn: Var(0) is the innermost = last declared variable
            body = z3.substitute_vars(g.body(), *reversed(consts))
            return skolemize(body, positive)
        return g
    if not z3.is_app(g) or not z3.is_bool(g):
        return g
    k = g.decl().kind()
    if k == z3.Z3_OP_AND:
        return z3.And([skolemize(c, positive) for c in g.children()])
    if k == z3.Z3_OP_OR:
        return z3.Or([skolemize(c, positive) for c in g.children()])
    if k == z3.Z3_OP_NOT:
        return z3.Not(skolemize(g.children()[0], not positive))
    if k == z3.Z3_OP_IMPLIES:
        a, b = g.children()
        return z3.Implies(skolemize(a, not positive), skolemize(b, positive))
    if k == z3.Z3_OP_ITE:
        c, a, b = g.children()
        return z3.If(c, skolemize(a, positive), skolemize(b, positive))
    return g            # iff / xor / atoms: both polarities or no quantifier to open
