from loop import *
chain,key=creds()
cs=HandshakeSettings(); cs.rsaSigHashes=['sha256']; cs.ecdsaSigHashes=['sha256']; cs.more_sig_schemes=[]; cs.dsaSigHashes=[]
seen={}
def client(conn):
    conn.handshakeClientCert(settings=cs); conn.write(b'hi'); return ('completed', conn.version, conn.serverSigAlg, conn.read(min=2,max=2))
def server(conn):
    orig=conn._server_select_certificate
    def patched(*a,**k):
        r=orig(*a,**k); seen['orig']=r[1]
        return (r[0], 'rsa_pss_rsae_sha384', r[2], r[3])
    conn._server_select_certificate=patched
    conn.handshakeServer(certChain=chain, privateKey=key); r=conn.read(min=2,max=2); conn.write(r); return 'completed'
print(run(client, server), seen)
