"""Sidecar contracts, one module per area.  PROPS maps a property id to the
contract modules that must be loaded to decide it."""
PROPS = {
    'C12': ['contracts.c12_cbc_check', 'contracts.recordlayer'],
    'C01': ['contracts.c12_cbc_check', 'contracts.recordlayer'],
    'C02': ['contracts.c12_cbc_check', 'contracts.recordlayer'],
}
