"""Bounded stand-ins / counterexample replays for the client-side handshake contracts (contracts/m2_client.py).

Runs under /venv/bin/python against the real tlslite (two live endpoints over a socketpair, or a scripted peer that
speaks through the real record layer).  Every scenario states the rule from the property / RFC and what the real
client did.  Failure classes (matched by known_findings.json entries):

  client-unsolicited-serverhello-extension   C03  RFC 5246 7.4.1.4  (_clientGetServerHello)
  client-second-hello-retry-request          C06  RFC 8446 4.1.4    (_clientGetServerHello)
  client-supported-versions-unvalidated      C03  RFC 8446 4.2.1    (_clientGetServerHello)
  client-tls13-flow-with-legacy-version      C20  RFC 8446 4.1.3    (_handshakeClientAsyncHelper)
  client-declined-ticket-no-fallback         C13  RFC 5077 3.4      (_clientResume)            [DESIGN F4]
  server-accepts-newsessionticket            C06  RFC 5077 3.3      (_getFinished)             [DESIGN F14]
  client-psk-selection-unchecked             C13  RFC 8446 4.2.11   (_clientTLS13Handshake)    [DESIGN F11]
  client-psk-ke-not-offered                  C03  RFC 8446 4.2.9    (_clientTLS13Handshake)
"""
import socket
import threading
import traceback

from tlslite.api import TLSConnection, HandshakeSettings, X509, X509CertChain, parsePEMKey
from tlslite.constants import (ContentType, HandshakeType, ExtensionType, CipherSuite, TLS_1_3_HRR, GroupName,
                               PskKeyExchangeMode, AlertDescription)
from tlslite.messages import ServerHello, ClientHello, NewSessionTicket1_0
from tlslite.extensions import (TLSExtension, RecordSizeLimitExtension, SrvSupportedVersionsExtension,
                                HRRKeyShareExtension, ServerKeyShareExtension, KeyShareEntry, SrvPreSharedKeyExtension)
from tlslite.errors import TLSLocalAlert, TLSRemoteAlert, TLSAbruptCloseError
from tlslite.utils.cryptomath import getRandomBytes
import tlslite
import os

_REPO = os.path.dirname(os.path.dirname(os.path.abspath(tlslite.__file__)))


def _creds():
    c = X509()
    c.parse(open(os.path.join(_REPO, 'tests', 'serverX509Cert.pem')).read())
    k = parsePEMKey(open(os.path.join(_REPO, 'tests', 'serverX509Key.pem')).read(), private=True)
    return X509CertChain([c]), k


def _run(client_fn, server_fn):
    a, b = socket.socketpair()
    a.settimeout(8)
    b.settimeout(8)
    res = {}

    def srv():
        try:
            res['s'] = server_fn(TLSConnection(b))
        except Exception as e:
            res['s'] = e
        finally:
            try:
                b.close()
            except Exception:
                pass
    t = threading.Thread(target=srv)
    t.start()
    try:
        res['c'] = client_fn(TLSConnection(a))
    except Exception as e:
        res['c'] = e
        res['c_tb'] = [l.strip() for l in traceback.format_exc().splitlines() if 'tlsconnection.py' in l][-1:]
    finally:
        try:
            a.close()
        except Exception:
            pass
    t.join(10)
    return res


def _drive(gen):
    r = None
    for r in gen:
        pass
    return r


def _get(conn, ctypes, htypes):
    for r in conn._getMsg(ctypes, htypes):
        if r not in (0, 1):
            break
    return r


def _clean_abort(e, descriptions):
    """the client failed the way the properties demand: a fatal alert of one of the RFC's descriptions"""
    return isinstance(e, TLSLocalAlert) and e.description in descriptions


def _describe(e):
    return '%s: %s' % (type(e).__name__, str(e)[:120]) if isinstance(e, BaseException) else repr(e)[:200]


class _patched_parse(object):
    """the server side behaves as if the ClientHello had carried something it did not (wire bytes untouched)"""

    def __init__(self, fn):
        self.fn = fn

    def __enter__(self):
        self.orig = ClientHello.parse
        orig, fn = self.orig, self.fn

        def parse(slf, p):
            r = orig(slf, p)
            fn(slf)
            return r
        ClientHello.parse = parse

    def __exit__(self, *a):
        ClientHello.parse = self.orig


def _plain_client(cs):
    def client(conn):
        conn.handshakeClientCert(settings=cs)
        conn.write(b'hi')
        conn.read(min=2, max=2)
        return conn
    return client


def _plain_server(ss):
    chain, key = _creds()

    def server(conn):
        conn.handshakeServer(certChain=chain, privateKey=key, settings=ss)
        r = conn.read(min=2, max=2)
        conn.write(r)
        return conn
    return server


# ---------------------------------------------------------------------------------------------------------
def serverhello_checks(rng, n):
    """_clientGetServerHello: answers the client must refuse"""
    failures, ev = [], 0
    # (1) extensions the client did not offer
    for which in ('etm', 'ems', 'rsl'):
        cs = HandshakeSettings()
        cs.maxVersion = (3, 3)
        cs.cipherNames = ['aes128']
        cs.macNames = ['sha']
        ss = HandshakeSettings()
        ss.maxVersion = (3, 3)
        if which == 'etm':
            cs.useEncryptThenMAC = False
            et = ExtensionType.encrypt_then_mac
        elif which == 'ems':
            cs.useExtendedMasterSecret = False
            et = ExtensionType.extended_master_secret
        else:
            cs.record_size_limit = None
            et = ExtensionType.record_size_limit

        def add(ch, et=et, which=which):
            if ch.getExtension(et) is None:
                ch.addExtension(RecordSizeLimitExtension().create(1024) if which == 'rsl'
                                else TLSExtension().create(et, bytearray(0)))
        with _patched_parse(add):
            res = _run(_plain_client(cs), _plain_server(ss))
        ev += 1
        c = res.get('c')
        if _clean_abort(c, (AlertDescription.unsupported_extension, AlertDescription.illegal_parameter)):
            continue
        if isinstance(c, TLSConnection):
            what = 'handshake completed; client settings excluded the extension but the connection uses it: ' \
                   'encryptThenMAC=%s extendedMasterSecret=%s' % (c._recordLayer.encryptThenMAC, c.session.extendedMasterSecret)
        else:
            what = 'client raised %s %s' % (_describe(c), res.get('c_tb'))
        failures.append({'class': 'client-unsolicited-serverhello-extension', 'what': what,
                         'input': {'unsolicited ServerHello extension': which,
                                   'client settings': {'etm': 'useEncryptThenMAC=False', 'ems': 'useExtendedMasterSecret=False',
                                                       'rsl': 'record_size_limit=None'}[which]}})

    # scripted servers
    def scripted(make_reply, second=None):
        def server(conn):
            conn._handshakeStart(client=False)
            ch = _get(conn, ContentType.handshake, HandshakeType.client_hello)
            _drive(conn._sendMsg(make_reply(ch)))
            if second is not None:
                conn.version = (3, 4)
                ch = _get(conn, ContentType.handshake, HandshakeType.client_hello)
                conn.version = (3, 3)
                _drive(conn._sendMsg(second(ch)))
            conn.sock.settimeout(1.5)
            try:
                r = _get(conn, (ContentType.handshake, ContentType.alert, ContentType.change_cipher_spec),
                         HandshakeType.client_hello)
                return 'client answered %s %s' % (type(r).__name__, getattr(r, 'description', ''))
            except socket.timeout:
                return 'WAITING'
            except Exception as e:
                return 'no alert: ' + _describe(e)
        return server

    def client(conn):
        conn.handshakeClientCert(settings=HandshakeSettings())
        return conn

    def hrr(ch, suite=CipherSuite.TLS_AES_128_GCM_SHA256, group=GroupName.secp384r1):
        return ServerHello().create((3, 3), TLS_1_3_HRR, ch.session_id, suite,
                                    extensions=[SrvSupportedVersionsExtension().create((3, 4)),
                                                HRRKeyShareExtension().create(group)])
    # (2) second HelloRetryRequest
    res = _run(client, scripted(hrr, lambda ch: hrr(ch, group=GroupName.secp521r1)))
    ev += 1
    if not _clean_abort(res.get('c'), (AlertDescription.unexpected_message, AlertDescription.illegal_parameter)):
        failures.append({'class': 'client-second-hello-retry-request',
                         'what': 'client: %s %s; server saw: %s' % (_describe(res.get('c')), res.get('c_tb'), res.get('s')),
                         'input': 'server answers ClientHello1 and ClientHello2 with a HelloRetryRequest each'})
    # (3) supported_versions misuse
    cases = {
        'HRR(selected_version 1.3) then ServerHello TLS 1.2 (same 1.2 suite)': (
            lambda ch: hrr(ch, suite=CipherSuite.TLS_ECDHE_RSA_WITH_AES_128_CBC_SHA),
            lambda ch: ServerHello().create((3, 3), getRandomBytes(32), ch.session_id,
                                            CipherSuite.TLS_ECDHE_RSA_WITH_AES_128_CBC_SHA)),
        'ServerHello legacy_version 1.2 with supported_versions selecting TLS 1.1': (
            lambda ch: ServerHello().create((3, 3), getRandomBytes(32), bytearray(0),
                                            CipherSuite.TLS_ECDHE_RSA_WITH_AES_128_CBC_SHA,
                                            extensions=[SrvSupportedVersionsExtension().create((3, 2))]), None),
    }
    for desc, (first, second) in sorted(cases.items()):
        res = _run(client, scripted(first, second))
        ev += 1
        if not _clean_abort(res.get('c'), (AlertDescription.illegal_parameter, AlertDescription.protocol_version)):
            failures.append({'class': 'client-supported-versions-unvalidated',
                             'what': 'no illegal_parameter: server side observed %r (WAITING = the client accepted the '
                                     'ServerHello and waits for the next flight); client: %s' % (res.get('s'), _describe(res.get('c'))),
                             'input': desc})
    return {'evaluations': ev, 'distinct_nontrivial': ev,
            'bound': '3 unsolicited extension types, 1 double-HRR script, 2 supported_versions scripts',
            'rule': 'RFC 5246 7.4.1.4 / RFC 8446 4.1.4, 4.2.1: the client aborts with a fatal alert', 'failures': failures}


def tls13_flow_with_legacy_version(rng, n):
    """_handshakeClientAsyncHelper + _clientGetServerHello: a suite is filtered for legacy_version but the flow is
    chosen by supported_versions"""
    def server(conn):
        conn._handshakeStart(client=False)
        ch = _get(conn, ContentType.handshake, HandshakeType.client_hello)
        ks = ch.getExtension(ExtensionType.key_share).client_shares[0]
        ext = [SrvSupportedVersionsExtension().create((3, 4)),
               ServerKeyShareExtension().create(KeyShareEntry().create(ks.group, ks.key_exchange))]
        _drive(conn._sendMsg(ServerHello().create((3, 2), getRandomBytes(32), ch.session_id,
                                                  CipherSuite.TLS_RSA_WITH_AES_128_CBC_SHA, extensions=ext)))
        conn.sock.settimeout(1.5)
        try:
            r = _get(conn, (ContentType.handshake, ContentType.alert, ContentType.change_cipher_spec), HandshakeType.client_hello)
            return 'client answered %s %s' % (type(r).__name__, getattr(r, 'description', ''))
        except Exception as e:
            return 'no alert: ' + _describe(e)

    def client(conn):
        conn.handshakeClientCert(settings=HandshakeSettings())
        return conn
    res = _run(client, server)
    failures = []
    if not _clean_abort(res.get('c'), (AlertDescription.illegal_parameter, AlertDescription.protocol_version)):
        failures.append({'class': 'client-tls13-flow-with-legacy-version',
                         'what': 'client: %s %s (TLS 1.3 key schedule entered with TLS_RSA_WITH_AES_128_CBC_SHA); server saw: %s'
                                 % (_describe(res.get('c')), res.get('c_tb'), res.get('s')),
                         'input': 'ServerHello(legacy_version=TLS1.1, TLS_RSA_WITH_AES_128_CBC_SHA, supported_versions=1.3, key_share)'})
    return {'evaluations': 1, 'distinct_nontrivial': 1, 'bound': 'one scripted ServerHello',
            'rule': 'C20: a suite is never used in a protocol version that does not define it; RFC 8446 4.1.3', 'failures': failures}


def declined_ticket_falls_back(rng, n):
    """_clientResume (DESIGN F4): <=1.2 ticket resumption against a server that rotated its ticket key"""
    chain, key = _creds()
    s1 = HandshakeSettings(); s1.maxVersion = (3, 3); s1.ticketKeys = [getRandomBytes(32)]; s1.ticket_count = 1
    s2 = HandshakeSettings(); s2.maxVersion = (3, 3); s2.ticketKeys = [getRandomBytes(32)]; s2.ticket_count = 1
    cs = HandshakeSettings(); cs.maxVersion = (3, 3)
    box = {}

    def srv(settings):
        def f(conn):
            conn.handshakeServer(certChain=chain, privateKey=key, settings=settings)
            r = conn.read(min=2, max=2)
            conn.write(r)
            try:
                conn.read(min=1, max=1)
            except Exception:
                pass
            return conn.resumed
        return f

    def c1(conn):
        conn.handshakeClientCert(settings=cs); conn.write(b'hi'); conn.read(min=2, max=2)
        box['s'] = conn.session
        conn.close()
        return conn.resumed

    def c2(conn):
        conn.handshakeClientCert(settings=cs, session=box['s']); conn.write(b'hi'); conn.read(min=2, max=2)
        conn.close()
        return conn.resumed
    failures, ev = [], 0
    r = _run(c1, srv(s1)); ev += 1
    if r.get('c') is not False or not box.get('s') or not box['s'].tls_1_0_tickets:
        return {'error': 'setup handshake did not yield a ticket: %r' % (r,)}
    r = _run(c2, srv(s1)); ev += 1
    if r.get('c') is not True:
        failures.append({'class': 'client-ticket-resumption-broken', 'what': _describe(r.get('c')), 'input': 'same ticket key'})
    r = _run(c2, srv(s2)); ev += 1
    if r.get('c') is not False:
        failures.append({'class': 'client-declined-ticket-no-fallback',
                         'what': 'client: %s; server: %s' % (_describe(r.get('c')), _describe(r.get('s'))),
                         'input': 'second connection offers the <=1.2 ticket to a server whose ticketKeys were rotated; '
                                  'C13: "never breaks the connection: a full handshake completes instead"'})
    return {'evaluations': ev, 'distinct_nontrivial': ev, 'bound': '1 client, same / rotated ticket key, TLS 1.2',
            'rule': 'C13 / RFC 5077 3.4: declined ticket => full handshake', 'failures': failures}


def server_refuses_newsessionticket(rng, n):
    """_getFinished (DESIGN F14): a NewSessionTicket sent by the CLIENT before its ChangeCipherSpec"""
    cs = HandshakeSettings(); cs.maxVersion = (3, 3)
    chain, key = _creds()

    def client(conn):
        orig = conn._sendFinished

        def patched(*a, **k):
            for r in conn._sendMsg(NewSessionTicket1_0().create(100, bytearray(b'bogus-ticket'))):
                yield r
            for r in orig(*a, **k):
                yield r
        conn._sendFinished = patched
        conn.handshakeClientCert(settings=cs)
        conn.write(b'hi')
        conn.read(min=2, max=2)
        return 'completed'

    def server(conn):
        conn.handshakeServer(certChain=chain, privateKey=key, settings=cs)
        r = conn.read(min=2, max=2)
        conn.write(r)
        return [bytes(t.ticket) for t in conn.tls_1_0_tickets]
    res = _run(client, server)
    failures = []
    if not _clean_abort(res.get('s'), (AlertDescription.unexpected_message,)):
        failures.append({'class': 'server-accepts-newsessionticket',
                         'what': 'server result: %s (tickets stored by the SERVER); client: %s' % (_describe(res.get('s')), _describe(res.get('c'))),
                         'input': 'client sends NewSessionTicket before ChangeCipherSpec/Finished'})
    return {'evaluations': 1, 'distinct_nontrivial': 1, 'bound': 'one deviating client, TLS 1.2',
            'rule': 'C06 / RFC 5077 3.3: NewSessionTicket is a server message; out-of-role message => unexpected_message', 'failures': failures}


def tls13_psk_acceptance(rng, n):
    """_clientTLS13Handshake: selected PSK must have been offered (DESIGN F11); PSK-only needs psk_ke"""
    failures, ev = [], 0
    for mode in ('unoffered', 'range'):
        cs = HandshakeSettings()
        if mode == 'range':
            cs.pskConfigs = [(b'ident', b'\x01' * 32)]

        def server(conn, mode=mode):
            conn._handshakeStart(client=False)
            ch = _get(conn, ContentType.handshake, HandshakeType.client_hello)
            ks = ch.getExtension(ExtensionType.key_share).client_shares[0]
            ext = [SrvSupportedVersionsExtension().create((3, 4)),
                   ServerKeyShareExtension().create(KeyShareEntry().create(ks.group, ks.key_exchange)),
                   SrvPreSharedKeyExtension().create(0 if mode == 'unoffered' else 7)]
            _drive(conn._sendMsg(ServerHello().create((3, 3), getRandomBytes(32), ch.session_id,
                                                      CipherSuite.TLS_AES_128_GCM_SHA256, extensions=ext)))
            conn.sock.settimeout(1.5)
            try:
                r = _get(conn, (ContentType.handshake, ContentType.alert, ContentType.change_cipher_spec), HandshakeType.client_hello)
                return 'client answered %s %s' % (type(r).__name__, getattr(r, 'description', ''))
            except Exception as e:
                return 'no alert: ' + _describe(e)

        def client(conn, cs=cs):
            conn.handshakeClientCert(settings=cs)
            return conn
        res = _run(client, server)
        ev += 1
        if not _clean_abort(res.get('c'), (AlertDescription.illegal_parameter,)):
            failures.append({'class': 'client-psk-selection-unchecked',
                             'what': 'client: %s %s; server saw: %s' % (_describe(res.get('c')), res.get('c_tb'), res.get('s')),
                             'input': {'unoffered': 'ServerHello selects PSK identity 0, client offered no pre_shared_key',
                                       'range': 'client offers 1 PSK, ServerHello selects identity 7'}[mode]})
    # PSK-only although the client listed only psk_dhe_ke
    cs = HandshakeSettings(); cs.pskConfigs = [(b'ident', b'\x01' * 32)]; cs.psk_modes = ['psk_dhe_ke']
    ss = HandshakeSettings(); ss.pskConfigs = [(b'ident', b'\x01' * 32)]; ss.psk_modes = ['psk_ke']

    class Liar(list):
        def __contains__(self, x):
            return x == PskKeyExchangeMode.psk_ke

    def lie(ch):
        m = ch.getExtension(ExtensionType.psk_key_exchange_modes)
        if m is not None and not isinstance(m.modes, Liar):
            m.modes = Liar(m.modes)
    with _patched_parse(lie):
        res = _run(_plain_client(cs), _plain_server(ss))
    ev += 1
    c = res.get('c')
    if isinstance(c, TLSConnection):
        failures.append({'class': 'client-psk-ke-not-offered',
                         'what': 'handshake completed without (EC)DHE: ecdhCurve=%r dhGroupSize=%r, client psk_modes=%r'
                                 % (c.ecdhCurve, c.dhGroupSize, cs.psk_modes),
                         'input': 'server answers with pre_shared_key and no key_share; client offered only psk_dhe_ke'})
    elif not _clean_abort(c, (AlertDescription.illegal_parameter, AlertDescription.missing_extension)):
        failures.append({'class': 'client-psk-ke-not-offered', 'what': 'client: %s' % _describe(c), 'input': 'psk_ke answer'})
    return {'evaluations': ev, 'distinct_nontrivial': ev, 'bound': '2 scripted ServerHellos + 1 live PSK-only server',
            'rule': 'RFC 8446 4.2.11 / 4.2.9: inconsistent PSK answer => illegal_parameter', 'failures': failures}


def clienthello_offer(rng, n):
    """_clientSendClientHello on the real code: FALLBACK_SCSV in every branch, expired tickets pruned before the
    offer, session id only from a session that carries one (differential against the statement of the contract)."""
    import time
    from tlslite.session import Session, Ticket
    failures, ev, nontrivial = [], 0, 0

    class Sink(object):
        def __init__(self):
            self.data = bytearray()

        def send(self, b):
            self.data += b
            return len(b)

        def sendall(self, b):
            self.data += b

        def recv(self, k):
            raise socket.error('closed')

        def close(self):
            pass
    for k in range(max(20, min(n, 200))):
        settings = HandshakeSettings()
        settings.sendFallbackSCSV = rng.random() < 0.5
        settings.maxVersion = rng.choice([(3, 1), (3, 2), (3, 3), (3, 4)])
        settings.minVersion = min(settings.minVersion, settings.maxVersion)
        settings = settings.validate()
        with_session = rng.random() < 0.6
        session = None
        offered_valid = None
        if with_session:
            session = Session()
            session.sessionID = bytearray(rng.choice([b'', b'\x07' * 32]))
            session.cipherSuite = CipherSuite.TLS_RSA_WITH_AES_128_CBC_SHA
            session.srpUsername = None
            session.serverName = None
            session.resumable = True
            session.tickets = None
            now = time.time()
            tl = []
            for j in range(rng.randint(0, 4)):
                t = Ticket(bytearray([j + 1]) * 8, rng.choice([1, 3600]), bytearray(48), CipherSuite.TLS_RSA_WITH_AES_128_CBC_SHA)
                if rng.random() < 0.5:
                    t.time_received = now - 100000   # long expired
                tl.append(t)
            session.tls_1_0_tickets = tl
            valid = [t for t in tl if t.valid()]
            offered_valid = valid[0].ticket if valid else bytearray(0)
            had_expired = len(valid) != len(tl)
            nontrivial += 1 if had_expired else 0
        conn = TLSConnection(Sink())
        conn._handshakeStart(client=True)
        conn.version = (3, 1) if settings.maxVersion > (3, 3) else settings.maxVersion
        try:
            ch = _drive(conn._clientSendClientHello(settings, session, None, (), (None, None), (), None, None, False, None))
        except Exception as e:
            failures.append({'class': 'clienthello-offer-raises', 'what': _describe(e), 'input': {'maxVersion': settings.maxVersion}})
            continue
        ev += 1
        suites = list(ch.cipher_suites)
        if (CipherSuite.TLS_FALLBACK_SCSV in suites) != bool(settings.sendFallbackSCSV):
            failures.append({'class': 'clienthello-fallback-scsv', 'what': 'FALLBACK_SCSV present=%s, sendFallbackSCSV=%s'
                             % (CipherSuite.TLS_FALLBACK_SCSV in suites, settings.sendFallbackSCSV),
                             'input': {'with cached session': bool(session and session.sessionID)}})
        if suites[0] != CipherSuite.TLS_EMPTY_RENEGOTIATION_INFO_SCSV:
            failures.append({'class': 'clienthello-no-renegotiation-scsv', 'what': 'first suite %r' % suites[0], 'input': {}})
        if session is not None and session.sessionID and bytes(ch.session_id) != bytes(session.sessionID):
            failures.append({'class': 'clienthello-session-id', 'what': 'cached id not offered', 'input': {}})
        if (session is None or not session.sessionID) and settings.maxVersion < (3, 4) and len(ch.session_id) != 0:
            failures.append({'class': 'clienthello-session-id', 'what': 'non-empty id without cached session', 'input': {}})
        if session is not None and settings.maxVersion > (3, 0):
            ext = ch.getExtension(ExtensionType.session_ticket)
            got = ext.ticket if ext is not None else None
            if got is None or bytes(got) != bytes(offered_valid):
                failures.append({'class': 'clienthello-expired-ticket-offered',
                                 'what': 'offered %r, first unexpired %r' % (got, offered_valid), 'input': {'tickets': len(tl)}})
            if any(not t.valid() for t in session.tls_1_0_tickets):
                failures.append({'class': 'clienthello-expired-ticket-kept', 'what': 'expired ticket still cached', 'input': {}})
    return {'evaluations': ev, 'distinct_nontrivial': nontrivial,
            'bound': 'random settings (4 max versions, sendFallbackSCSV on/off), cached session with 0..4 tickets of which '
                     'some expired, cert-type offer',
            'rule': 'FALLBACK_SCSV iff sendFallbackSCSV in every branch; renegotiation SCSV first; first unexpired ticket '
                    'offered, expired ones dropped; cached id offered iff present', 'failures': failures[:6]}


XCHECKS = {
    'serverhello_checks': serverhello_checks,
    'tls13_flow_with_legacy_version': tls13_flow_with_legacy_version,
    'declined_ticket_falls_back': declined_ticket_falls_back,
    'server_refuses_newsessionticket': server_refuses_newsessionticket,
    'tls13_psk_acceptance': tls13_psk_acceptance,
    'clienthello_offer': clienthello_offer,
}
