"""C03/C09: exported keying material (TLSConnection.keyingMaterialExporter, tlslite/tlsconnection.py).
RFC 5705 4:   PRF(master_secret, label, client_random + server_random)[length]      (TLS 1.0 - 1.2, the suite's PRF)
RFC 8446 7.5: HKDF-Expand-Label(Derive-Secret(exporter_master_secret, label, ""), "exporter", Hash(""), length)
Both endpoints of a connection hold the same master secret / exporter master secret, randoms, version and suite (C03
obligations elsewhere); they export the same bytes if the function is this deterministic formula of those values.
The labels RFC 5705 4 reserves are refused."""
import z3

from pyvc.m2 import M2Spec, m2task, fresh_opaque
from pyvc.executor import Outcome, lift_py
from pyvc.values import VBool, VInt, VOpaque, VNone, VTuple, VObj, VPy, VStr, truthy, to_val, eq_op, v_none
from pyvc import smt
from pyvc.contract import REG
from tlslite.constants import CipherSuite
from contracts.m2_common import TC

Val = smt.Val
F_PRF = z3.Function('spec_PRF_tls10', Val, Val, Val, Val, Val)
F_PRF12 = z3.Function('spec_PRF_1_2_sha256', Val, Val, Val, Val, Val)
F_PRF384 = z3.Function('spec_PRF_1_2_sha384', Val, Val, Val, Val, Val)
F_DERIVE = z3.Function('spec_derive_secret', Val, Val, Val, Val, Val)
F_HASH = z3.Function('spec_secureHash', Val, Val, Val)
F_EL = z3.Function('spec_HKDF_expand_label', Val, Val, Val, Val, Val, Val)
V_LT = z3.Function('v_cmp_lt', Val, Val, smt.B)
ADD = z3.Function('v_binop_Add', Val, Val, Val)


def T(v):
    return v if z3.is_expr(v) else to_val(v)


def tup(a, b):
    return to_val(VTuple([VInt(a), VInt(b)]))


def _uf(f, n):
    def h(ex, recv, args, kwargs, st, fr, node):
        if len(args) != n or kwargs:
            return None
        return [Outcome('normal', st, VOpaque(f(*[T(a) for a in args])))]
    return h


SPEC = M2Spec(hooks={'PRF': _uf(F_PRF, 4), 'PRF_1_2': _uf(F_PRF12, 4), 'PRF_1_2_SHA384': _uf(F_PRF384, 4),
                     'derive_secret': _uf(F_DERIVE, 4), 'secureHash': _uf(F_HASH, 2), 'HKDF_expand_label': _uf(F_EL, 5)},
              props_as_fields={'version'})
VERSIONS = [(3, i) for i in range(0, 5)]
FORBIDDEN = (b'server finished', b'client finished', b'master secret', b'key expansion')


def _setup(ex, st, fr):
    v = fresh_opaque('connection_version')
    st.heap[(st.env['self'].oid, 'version')] = v
    # the connection version of an established connection is one of SSLv3 .. TLS 1.3; python tuple order on those
    st.assume(z3.Or([v.t == tup(*x) for x in VERSIONS]))
    for a in VERSIONS:
        for b in VERSIONS:
            st.assume(V_LT(tup(*a), tup(*b)) == z3.BoolVal(a < b))
            for nm, val in (('le', a <= b), ('gt', a > b), ('ge', a >= b)):
                st.assume(z3.Function('v_cmp_' + nm, Val, Val, smt.B)(tup(*a), tup(*b)) == z3.BoolVal(val))
    st.ghost['v'] = v


def _is(v, const):
    return eq_op(v, lift_py(const)).t


def _check(api):
    ns = api.normal_exits()
    api.oblige(api.entry, 'has-four-normal-exits(1.0/1.1,1.2-sha256,1.2-sha384,1.3)', len(ns) >= 4)
    e = api.entry.env
    me = e['self']
    ex = api.ex
    for k, o in enumerate(ns, 1):
        st = o.st
        v = T(st.ghost['v'])
        sess = ex.getattr_(me, 'session', st, None)[0].val
        ms = T(ex.getattr_(sess, 'masterSecret', st, None)[0].val)
        ems = T(ex.getattr_(sess, 'exporterMasterSecret', st, None)[0].val)
        suite = ex.getattr_(sess, 'cipherSuite', st, None)[0].val
        cr = T(ex.getattr_(me, '_clientRandom', st, None)[0].val)
        sr = T(ex.getattr_(me, '_serverRandom', st, None)[0].val)
        in384 = ex.contains(VPy(CipherSuite.sha384PrfSuites), suite, st).t
        seed = ADD(cr, sr)
        label, length = T(e['label']), T(e['length'])
        r = T(o.val)
        h384, h256 = T(VStr('sha384')), T(VStr('sha256'))
        empty = T(lift_py(bytearray(b'')))

        def tls13(h):
            return F_EL(F_DERIVE(ems, label, v_none, h), T(lift_py(b"exporter")), F_HASH(empty, h), length, h)
        api.oblige(st, 'exit#%d:TLS1.0/1.1:PRF(master_secret,label,client_random+server_random,length)' % k,
                   z3.Implies(z3.Or(v == tup(3, 1), v == tup(3, 2)), r == F_PRF(ms, label, seed, length)))
        api.oblige(st, 'exit#%d:TLS1.2:the-suites-PRF(master_secret,label,client_random+server_random,length)' % k,
                   z3.Implies(v == tup(3, 3), z3.And(z3.Implies(in384, r == F_PRF384(ms, label, seed, length)),
                                                     z3.Implies(z3.Not(in384), r == F_PRF12(ms, label, seed, length)))))
        api.oblige(st, 'exit#%d:TLS1.3:HKDF-Expand-Label(Derive-Secret(exporter_master_secret,label,""),"exporter",Hash(""),length)' % k,
                   z3.Implies(v == tup(3, 4), z3.And(z3.Implies(in384, r == tls13(h384)), z3.Implies(z3.Not(in384), r == tls13(h256)))))
        api.oblige(st, 'exit#%d:never-for-SSLv3' % k, v != tup(3, 0))
        for c in FORBIDDEN:
            api.oblige(st, 'exit#%d:reserved-label-refused:%s' % (k, c.decode().replace(' ', '-')), z3.Not(_is(e['label'], c)))
    for o in api.raise_exits():
        api.oblige(o.st, 'failure-is-ValueError', o.val.cls is ValueError)


m2task('TLSConnection.keyingMaterialExporter/rfc5705-rfc8446-7.5', ('C03', 'C09'), TC + 'keyingMaterialExporter', SPEC,
       check=_check, setup=_setup, opts={'ground_feasible': True},
       doc='exported keying material is the RFC 5705 / RFC 8446 7.5 function of (version, suite PRF hash, master or exporter '
           'master secret, client_random + server_random, label, length); reserved labels and SSLv3 raise ValueError')
REG.note('C03', 'assumptions', 'keyingMaterialExporter: the connection version is one of (3,0)..(3,4); RFC 5705 context values are not '
                               'supported by the API (no context argument) and not claimed')
