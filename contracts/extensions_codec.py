"""Contracts on the parametric extension families of tlslite/extensions.py (VarBytesExtension,
VarListExtension, VarSeqListExtension, IntExtension) and on messages.py CertificateRequest -- C15 (round trip,
exact framing) and C08 (only DecodeError-family exceptions).

RFC 8446 4.2: extension_data of these extensions is ONE length-prefixed vector (or one integer); an empty list is
the length-prefixed empty vector -- a present value, different from the absent value (None) whose extData is
empty.  Trailing bytes after the payload are a decode error.

The family methods are proved once for symbolic (elemLength, lengthLength) [tuple arity 2]; subclasses that do not
override extData/parse (SupportedGroups, ECPointFormats, SignatureAlgorithms(Cert), DelegatedCredential,
SupportedVersions, ClientCertType, PskKeyExchangeModes, RenegotiationInfo, Cookie, RecordSizeLimit,
SrvPreSharedKey) only fix these parameters in their constructors (checked by the task `family-parameters`).
"""
import inspect

import z3

import tlslite.extensions as EXT
import tlslite.messages as MSG
import tlslite.utils.codec as codec
from tlslite.utils.codec import DecodeError

from pyvc.contract import contract, scenario, LoopSpec, REG
from pyvc.state import T
from pyvc import spec as S
from pyvc import smt
from pyvc.values import VInt, VBool, VSeq, VNone, VObj, VTupSeq, VTuple, _lift

import contracts.codec as CC                      # Writer / Parser contracts (applied modularly below)
from contracts.codec import (C, PROP, WRITER, PARSER, only_modifies, at, header_is, fits_n, div, elem_at, all_fit,
                             region_decodes, tuples_fit, tuples_region, list_decodes, tuples_decode, varlist_bad,
                             _normal, _must_raise, _parser_at, p_inv_of)

E = 'tlslite/extensions.py:'


# --- helpers over the `parser` argument ----------------------------------------------------------------
def pidx(ns):
    return ns.f(ns.parser, 'index')


def pbytes(ns):
    return ns.f(ns.parser, 'bytes')


def remaining(ns):
    return S.len_(pbytes(ns)) - pidx(ns)


def p_ok(ns):
    return p_inv_of(ns, ns.parser)


def lenfield(ns, ll):
    b, i = pbytes(ns), pidx(ns)
    return VInt(smt.s_val(smt.s_slice(b.t, i.t, (i + ll).t)))


def val(ns):
    return ns.f(ns.self, '_internal_value')


def consumed_all(ns, fields=('_internal_value',)):
    """the payload parser is at its end; only the value field and the parser index were modified"""
    return S.And(pidx(ns) == S.len_(pbytes(ns)), pidx(ns) >= pidx(ns.old),
                 only_modifies(ns, *([(ns.self, f) for f in fields] + [(ns.parser, 'index')])))


def exc_post(ns):
    return S.And(pidx(ns) >= pidx(ns.old), p_ok(ns),
                 only_modifies(ns, (ns.self, '_internal_value'), (ns.parser, 'index')))


def absent_or(ns, present):
    """post-state shape shared by the four families: no payload bytes <=> value None (nothing consumed);
    otherwise `present(value)` and the whole payload consumed"""
    v = val(ns)
    if isinstance(v, VNone):
        return S.And(remaining(ns.old) == 0, pidx(ns) == pidx(ns.old),
                     only_modifies(ns, (ns.self, '_internal_value'), (ns.parser, 'index')))
    return S.And(remaining(ns.old) > 0, present(v), consumed_all(ns))


PMODS = [('self', '_internal_value'), ('parser', 'index')]


def _variant(qual, **kw):
    """a contract for one configuration of the receiver (value absent / present): verified against the real body,
    never applied modularly at call sites (callers execute the real body)"""
    c = contract(qual, **kw)
    c.variant = kw['name']
    return c


# =======================================================================================================
# VarBytesExtension: opaque value<0..2^(8*ll)-1>
# =======================================================================================================
def _vb(v):
    return T.obj(EXT.VarBytesExtension, _internal_value=v, _length_length=T.int())


_variant(E + 'VarBytesExtension.extData', name='VarBytesExtension.extData[absent]', params={'self': _vb(T.none())},
         result=T.bytes(), ensures=lambda ns: S.And(S.len_(ns.result) == 0, only_modifies(ns)), raises={}, prop=PROP,
         doc='absent value (None): empty extension_data')
_variant(E + 'VarBytesExtension.extData', name='VarBytesExtension.extData[present]', params={'self': _vb(T.bytes())},
         result=T.bytes(),
         ensures=lambda ns: (lambda v, ll: S.And(
             fits_n(S.len_(v), ll), S.seq_eq(ns.result, S.cat(S.be_n(S.len_(v), ll), v)),
             S.len_(ns.result) == ll + S.len_(v), S.len_(ns.result) >= ll, only_modifies(ns)))(val(ns), ns.f(ns.self, '_length_length')),
         raises={ValueError: ('iff', lambda ns: S.Not(fits_n(S.len_(val(ns)), ns.f(ns.self, '_length_length'))))},
         prop=PROP, doc='present value (also the empty string): ll-byte length || bytes; ValueError iff the length does not fit')


def vb_bad(ns):
    ll = ns.f(ns.self, '_length_length')
    n = lenfield(ns, ll)
    return S.And(remaining(ns) > 0, S.Or(remaining(ns) < ll, S.And(remaining(ns) >= ll, remaining(ns) != ll + n)))


_variant(E + 'VarBytesExtension.parse', name='VarBytesExtension.parse', params={'self': _vb(T.opaque()), 'parser': PARSER},
         requires=lambda ns: p_ok(ns) & (ns.f(ns.self, '_length_length') >= 0),
         result=T.opaque(), modifies=PMODS,
         ensures=lambda ns: (lambda ll: absent_or(ns, lambda v: S.And(
             remaining(ns.old) == ll + S.len_(v), lenfield(ns.old, ll) == S.len_(v),
             S.forall(lambda k: at(v, k) == at(pbytes(ns.old), pidx(ns.old) + ll + k), 0, S.len_(v)))))(
                 ns.f(ns.self, '_length_length')),
         raises={DecodeError: ('iff', vb_bad)}, exc_ensures=exc_post, prop=PROP,
         doc='empty payload <=> None; otherwise exactly one ll-prefixed string filling the whole payload; DecodeError iff '
             'the length field is truncated or disagrees with the payload size (short body or trailing bytes)')


# =======================================================================================================
# VarListExtension: T list<0..2^(8*ll)-1> with fixed-size elements
# =======================================================================================================
def _vl(v):
    return T.obj(EXT.VarListExtension, _internal_value=v, _elemLength=T.int(), _lengthLength=T.int())


def vl_fits(ns):
    v, n, ll = val(ns), ns.f(ns.self, '_elemLength'), ns.f(ns.self, '_lengthLength')
    return S.And(S.len_(v) * n < S.pow256(ll), all_fit(v, n))


_variant(E + 'VarListExtension.extData', name='VarListExtension.extData[absent]', params={'self': _vl(T.none())},
         result=T.bytes(), ensures=lambda ns: S.And(S.len_(ns.result) == 0, only_modifies(ns)), raises={}, prop=PROP,
         doc='absent value (None): empty extension_data')
_variant(E + 'VarListExtension.extData', name='VarListExtension.extData[present]', params={'self': _vl(T.ints())},
         requires=lambda ns: (ns.f(ns.self, '_elemLength') >= 0) & (ns.f(ns.self, '_lengthLength') >= 0),
         result=T.bytes(),
         ensures=lambda ns: (lambda v, n, ll: S.And(
             vl_fits(ns), S.len_(ns.result) == ll + S.len_(v) * n, S.len_(ns.result) >= ll, S.is_bytes(ns.result),
             header_is(ns.result, 0, ll, S.len_(v) * n),
             S.implies(n >= 1, S.And((S.len_(v) * n) % n == 0, div(S.len_(v) * n, n) == S.len_(v))),
             region_decodes(ns.result, _lift(0) + ll, v, n), only_modifies(ns)))(
                 val(ns), ns.f(ns.self, '_elemLength'), ns.f(ns.self, '_lengthLength')),
         raises={ValueError: ('iff', lambda ns: S.Not(vl_fits(ns)))}, prop=PROP,
         doc='present list (also the empty list): ll-byte byte-count || elements; ValueError iff the byte-count or an '
             'element does not fit')


def list_bad(ns, ll, unit):
    """length field truncated, not a multiple of the element size, or disagreeing with the payload size"""
    n = lenfield(ns, ll)
    return S.And(remaining(ns) > 0,
                 S.Or(remaining(ns) < ll, S.And(remaining(ns) >= ll, S.Or(n % unit != 0, remaining(ns) != ll + n))))


_variant(E + 'VarListExtension.parse', name='VarListExtension.parse', params={'self': _vl(T.opaque()), 'parser': PARSER},
         requires=lambda ns: S.And(p_ok(ns), ns.f(ns.self, '_elemLength') >= 1, ns.f(ns.self, '_lengthLength') >= 0),
         result=T.opaque(), modifies=PMODS,
         ensures=lambda ns: (lambda n, ll: absent_or(ns, lambda v: S.And(
             remaining(ns.old) == ll + S.len_(v) * n, lenfield(ns.old, ll) == S.len_(v) * n,
             list_decodes(v, pbytes(ns.old), pidx(ns.old) + ll, n, S.len_(v)))))(
                 ns.f(ns.self, '_elemLength'), ns.f(ns.self, '_lengthLength')),
         raises={DecodeError: ('iff', lambda ns: list_bad(ns, ns.f(ns.self, '_lengthLength'), ns.f(ns.self, '_elemLength')))},
         exc_ensures=exc_post, prop=PROP,
         doc='empty payload <=> None; otherwise one ll-prefixed vector of elemLength-byte integers filling the whole payload '
             '(an empty vector gives the empty list, not None); DecodeError iff truncated, not a multiple, or trailing bytes')


# =======================================================================================================
# VarSeqListExtension: list of pairs (tuple arity 2 at every use: SignatureScheme lists, SupportedVersions)
# =======================================================================================================
def _vs(v):
    return T.obj(EXT.VarSeqListExtension, _internal_value=v, _elemLength=T.int(), _elemNum=T.const(2), _lengthLength=T.int())


def vs_fits(ns):
    v, n, ll = val(ns), ns.f(ns.self, '_elemLength'), ns.f(ns.self, '_lengthLength')
    return S.And(S.len_(v) * 2 * n < S.pow256(ll), tuples_fit(v, 2, n))


_variant(E + 'VarSeqListExtension.extData', name='VarSeqListExtension.extData[absent]', params={'self': _vs(T.none())},
         result=T.bytes(), ensures=lambda ns: S.And(S.len_(ns.result) == 0, only_modifies(ns)), raises={}, prop=PROP,
         doc='absent value (None): empty extension_data')
_variant(E + 'VarSeqListExtension.extData', name='VarSeqListExtension.extData[present]', params={'self': _vs(T.tuples(2))},
         requires=lambda ns: (ns.f(ns.self, '_elemLength') >= 0) & (ns.f(ns.self, '_lengthLength') >= 0),
         result=T.bytes(),
         ensures=lambda ns: (lambda v, n, ll: S.And(
             vs_fits(ns), S.len_(ns.result) == ll + S.len_(v) * 2 * n, S.len_(ns.result) >= ll, S.is_bytes(ns.result),
             header_is(ns.result, 0, ll, S.len_(v) * 2 * n),
             S.implies(n >= 1, S.And((S.len_(v) * 2 * n) % (n * 2) == 0, div(S.len_(v) * 2 * n, n * 2) == S.len_(v))),
             tuples_region(ns.result, _lift(0) + ll, v, 2, n), only_modifies(ns)))(
                 val(ns), ns.f(ns.self, '_elemLength'), ns.f(ns.self, '_lengthLength')),
         raises={ValueError: ('iff', lambda ns: S.Not(vs_fits(ns)))}, prop=PROP,
         doc='present list of pairs (also the empty list): ll-byte byte-count || elements; ValueError iff something does not fit')

_variant(E + 'VarSeqListExtension.parse', name='VarSeqListExtension.parse', params={'self': _vs(T.opaque()), 'parser': PARSER},
         requires=lambda ns: S.And(p_ok(ns), ns.f(ns.self, '_elemLength') >= 1, ns.f(ns.self, '_lengthLength') >= 0),
         result=T.opaque(), modifies=PMODS,
         ensures=lambda ns: (lambda n, ll: absent_or(ns, lambda v: S.And(
             remaining(ns.old) == ll + S.len_(v) * 2 * n, lenfield(ns.old, ll) == S.len_(v) * 2 * n,
             tuples_decode(v, 2, pbytes(ns.old), pidx(ns.old) + ll, n, S.len_(v)))))(
                 ns.f(ns.self, '_elemLength'), ns.f(ns.self, '_lengthLength')),
         raises={DecodeError: ('iff', lambda ns: list_bad(ns, ns.f(ns.self, '_lengthLength'), ns.f(ns.self, '_elemLength') * 2))},
         exc_ensures=exc_post, prop=PROP,
         doc='empty payload <=> None; otherwise one ll-prefixed vector of pairs filling the whole payload; DecodeError iff '
             'truncated, not a multiple of the pair size, or trailing bytes')


# =======================================================================================================
# IntExtension: one fixed-width integer
# =======================================================================================================
def _ie(v):
    return T.obj(EXT.IntExtension, _internal_value=v, _elem_length=T.int())


_variant(E + 'IntExtension.extData', name='IntExtension.extData[absent]', params={'self': _ie(T.none())},
         result=T.bytes(), ensures=lambda ns: S.And(S.len_(ns.result) == 0, only_modifies(ns)), raises={}, prop=PROP,
         doc='absent value (None): empty extension_data')
_variant(E + 'IntExtension.extData', name='IntExtension.extData[present]', params={'self': _ie(T.int())},
         result=T.bytes(),
         ensures=lambda ns: (lambda v, n: S.And(fits_n(v, n), S.len_(ns.result) == n, S.is_bytes(ns.result),
                                                header_is(ns.result, 0, n, v), only_modifies(ns)))(val(ns), ns.f(ns.self, '_elem_length')),
         raises={ValueError: ('iff', lambda ns: S.Not(fits_n(val(ns), ns.f(ns.self, '_elem_length'))))}, prop=PROP,
         doc='the n-byte big-endian value; ValueError iff it does not fit')

_variant(E + 'IntExtension.parse', name='IntExtension.parse', params={'self': _ie(T.opaque()), 'parser': PARSER},
         requires=lambda ns: p_ok(ns) & (ns.f(ns.self, '_elem_length') >= 0),
         result=T.opaque(), modifies=PMODS,
         ensures=lambda ns: (lambda n: absent_or(ns, lambda v: S.And(remaining(ns.old) == n, v == lenfield(ns.old, n),
                                                                    v >= 0, v < S.pow256(n))))(ns.f(ns.self, '_elem_length')),
         raises={DecodeError: ('iff', lambda ns: S.And(remaining(ns) > 0, remaining(ns) != ns.f(ns.self, '_elem_length')))},
         exc_ensures=exc_post, prop=PROP,
         doc='empty payload <=> None; otherwise exactly one n-byte integer; DecodeError iff the payload size is not n')

REG.note('C15', 'trusted', 'CustomNameExtension.__setattr__/__getattr__ only alias the public field name (sigalgs, groups, ...) to '
         '_internal_value; the verified methods read and write _internal_value / _elemLength / ... directly, so plain attribute '
         'semantics is used for them (no subclass uses one of these internal names as its field name: checked by `family-parameters`)')


# =======================================================================================================
# Round trips, per concrete subclass, through the REAL constructors (so the parameters are the ones the subclass
# fixes, and an overriding parse/extData is the one executed) and the real extData / parse bodies (Writer / Parser
# calls by contract).  Value kinds: 'bytes' | 'ints' | 'pairs' | 'int'.
# =======================================================================================================
FAMILY_KIND = [(EXT.VarBytesExtension, 'bytes'), (EXT.VarSeqListExtension, 'pairs'), (EXT.VarListExtension, 'ints'),
               (EXT.IntExtension, 'int')]
VALUE_T = {'bytes': T.bytes(), 'ints': T.ints(), 'pairs': T.tuples(2), 'int': T.int()}


def family_subclasses():
    out = []
    for name, cls in sorted(vars(EXT).items()):
        if not inspect.isclass(cls) or cls.__module__ != EXT.__name__ or name.startswith('_'):
            continue
        for fam, kind in FAMILY_KIND:
            if issubclass(cls, fam) and cls is not fam:
                try:
                    cls()
                except TypeError:
                    break                       # abstract helper that still needs constructor arguments
                out.append((cls, kind))
                break
    return out


def _same_value(kind, a, b):
    if kind == 'int':
        return a == b
    if kind == 'bytes':
        return S.And(S.len_(a) == S.len_(b), S.forall(lambda k: at(a, k) == at(b, k), 0, S.len_(b)))
    if kind == 'ints':
        return S.And(S.len_(a) == S.len_(b), S.forall(lambda k: at(a, k) == at(b, k), 0, S.len_(b)))
    return S.And(S.len_(a) == S.len_(b),
                 S.forall(lambda k: S.And(at(a, k)[0] == at(b, k)[0], at(a, k)[1] == at(b, k)[1]), 0, S.len_(b)))


def _same_wire(api, st, kind, obj, w2, w, v):
    """Obligations saying that w2 and w are byte-for-byte identical.  For the list kinds this is shown for the length
    field bytes and then for the bytes of an ARBITRARY entry k0 (a fresh unconstrained index, i.e. for all of them;
    widths are the literals the subclass constructor fixed), which covers every position of the payload.  The steps
    are proved one after the other, each may use the earlier ones."""
    ns = api.ns(st)
    same_len = S.len_(w2) == S.len_(w)
    if kind == 'bytes':
        return [('re-serialised-identical', S.And(same_len, S.forall(lambda k: at(w2, k) == at(w, k), 0, S.len_(w))))]
    if kind == 'int':
        n = ns.f(obj, '_elem_length').concrete()
        return [('re-serialised-identical', S.And(same_len, S.len_(w) == n, *[at(w2, j) == at(w, j) for j in range(n)]))]
    n, ll = ns.f(obj, '_elemLength').concrete(), ns.f(obj, '_lengthLength').concrete()
    ar = 2 if kind == 'pairs' else 1
    g = n * ar                                                 # bytes per list entry
    v2 = ns.f(obj, '_internal_value')
    k0 = api.make('k0', T.int(), st)
    inr = (k0 >= 0) & (k0 < S.len_(v))        # guard of the per-entry steps (the first step also covers the empty list)

    def el(val_, c):
        return at(val_, k0)[c] if kind == 'pairs' else at(val_, k0)
    steps = [('re-serialised-same-length-and-length-field',
              S.And(same_len, S.len_(w) == ll + S.len_(v) * g, *[at(w2, j) == at(w, j) for j in range(ll)]))]
    for c in range(ar):
        steps.append(('entry-k0.%d-of-first-payload-decodes-to-value' % c,
                      S.implies(inr, elem_at(w, _lift(ll), k0 * ar + c, n) == el(v, c))))
        steps.append(('entry-k0.%d-parsed-equal' % c, S.implies(inr, el(v2, c) == el(v, c))))
        steps.append(('entry-k0.%d-of-second-payload-decodes-to-value' % c,
                      S.implies(inr, elem_at(w2, _lift(ll), k0 * ar + c, n) == el(v2, c))))
        steps.append(('re-serialised-identical-entry-k0.%d' % c,
                      S.implies(inr, S.And(*[at(w2, ll + k0 * g + c * n + j) == at(w, ll + k0 * g + c * n + j)
                                             for j in range(n)]))))
    return steps


def _new(api, cls, st):
    outs = api.ex.instantiate(cls, [], {}, st, api.fr, None)
    assert len(outs) == 1 and outs[0].kind == 'normal', outs
    return outs[0].val, outs[0].st


def _ext_data(api, obj, st):
    return api.ex.getattr_(obj, 'extData', st, api.fr, None)


def _parse(api, obj, p, st):
    res = []
    for o in api.ex.getattr_(obj, 'parse', st, api.fr, None):
        res.extend(api.ex.call(o.val, [p], {}, o.st, api.fr, None))
    return res


def _rejects_empty(cls):
    """subclasses whose parse refuses the empty payload (the value is mandatory for them)"""
    return 'parse' in vars(cls)


def _mk_subclass_scenarios(cls, kind):
    cn = cls.__name__

    @scenario('ext-roundtrip-%s' % cn, PROP,
              doc='%s: for every present value (including the empty %s) parse(Parser(extData)) gives an equal, present '
                  'value, consumes the whole payload and re-serialises to the same bytes; real constructor, real bodies'
                  % (cn, {'bytes': 'string', 'ints': 'list', 'pairs': 'list', 'int': 'n/a'}[kind]))
    def rt(api):
        x, st = _new(api, cls, api.st)
        y, st = _new(api, cls, st)
        v = api.make('value', VALUE_T[kind], st)
        st.heap[(x.oid, '_internal_value')] = v
        for o in _normal(api, _ext_data(api, x, st), 'extData', allow=(ValueError,)):
            wire = o.val
            p, st2 = _parser_at(api, o.st, wire, 0)
            for o2 in _normal(api, _parse(api, y, p, st2), 'parse'):
                ns = api.ns(o2.st)
                got = ns.f(y, '_internal_value')
                if isinstance(got, VNone):
                    api.unreachable(o2.st, 'present-value-parsed-as-absent(None)')
                    continue
                api.oblige(o2.st, 'value-back', _same_value(kind, got, v))
                api.oblige(o2.st, 'consumed-exactly', ns.f(p, 'index') == S.len_(wire))
                for o3 in _normal(api, _ext_data(api, y, o2.st), 're-serialise'):
                    for (nm, goal) in _same_wire(api, o3.st, kind, y, o3.val, wire, v):
                        api.oblige(o3.st, nm, goal)
                        o3.st.assume(_lift(goal).t)          # a proved step is available to the following ones

    @scenario('ext-absent-%s' % cn, PROP,
              doc='%s: the absent value (None) has empty extension_data; %s' % (
                  cn, 'an empty payload is a DecodeError (value mandatory)' if _rejects_empty(cls) else
                  'an empty payload parses back to None (not to an empty value)'))
    def absent(api):
        x, st = _new(api, cls, api.st)
        y, st = _new(api, cls, st)
        st.heap[(x.oid, '_internal_value')] = VNone()
        st.heap[(y.oid, '_internal_value')] = api.make('junk', VALUE_T[kind], st)
        for o in _normal(api, _ext_data(api, x, st), 'extData'):
            api.oblige(o.st, 'absent-is-empty-payload', S.len_(o.val) == 0)
            p, st2 = _parser_at(api, o.st, o.val, 0)
            outs = _parse(api, y, p, st2)
            if _rejects_empty(cls):
                _must_raise(api, outs, 'parse-empty', DecodeError)
            else:
                for o2 in _normal(api, outs, 'parse'):
                    api.oblige(o2.st, 'absent-back', isinstance(api.ns(o2.st).f(y, '_internal_value'), VNone))

    @scenario('ext-trailing-%s' % cn, PROP,
              doc='%s: extension_data followed by at least one more byte is a DecodeError' % cn)
    def trailing(api):
        x, st = _new(api, cls, api.st)
        y, st = _new(api, cls, st)
        v = api.make('value', VALUE_T[kind], st)
        extra = api.make('extra', T.bytes(), st)
        st.assume((S.len_(extra) >= 1).t)
        st.heap[(x.oid, '_internal_value')] = v
        for o in _normal(api, _ext_data(api, x, st), 'extData', allow=(ValueError,)):
            p, st2 = _parser_at(api, o.st, S.cat(o.val, extra), 0)
            _must_raise(api, _parse(api, y, p, st2), 'parse-with-trailing-bytes', DecodeError)


SUBCLASSES = family_subclasses()
for _cls, _kind in SUBCLASSES:
    _mk_subclass_scenarios(_cls, _kind)


# =======================================================================================================
# CertificateRequest (messages.py), framings of TLS <= 1.1 and TLS 1.2 (RFC 5246 7.4.4):
#   certificate_types<1..2^8-1>  [supported_signature_algorithms<2..2^16-2> in TLS 1.2]
#   certificate_authorities<0..2^16-1> = DistinguishedName<1..2^16-1>*      inside the uint24 handshake length
# O-exact: the DistinguishedName entries must tile EXACTLY the declared 2-byte length, and all inner lengths must
# add up to the outer uint24 length.
# =======================================================================================================
import contracts.messages_simple as MS            # HandshakeMsg.postWrite contract, parser helpers
from contracts.messages_simple import M, rd, hs_len, VERSION

CR_T = MSG.CertificateRequest((3, 3)).handshakeType


def _cr(**over):
    f = dict(handshakeType=T.const(CR_T), version=VERSION, certificate_types=T.opaque(), certificate_authorities=T.opaque(),
             extensions=T.none(), certificate_request_context=T.opaque())
    f.update(over)
    return T.obj(MSG.CertificateRequest, **f)


def cr_p(ns):
    return ns.p


def cr_idx(ns):
    return ns.f(ns.p, 'index')


def cr_inv_calist(ns):
    """CA loop: the parser has consumed exactly `index` bytes of the list; every entry took at least 2 bytes"""
    n = S.len_(ns.f(ns.self, 'certificate_authorities'))
    return S.And(cr_idx(ns) == cr_idx(ns.old) + ns.index, ns.index >= 0, p_inv_of(ns, ns.p),
                 n >= 0, 2 * n <= ns.index)


def cr12_layout(ns_old, is12):
    """offsets (relative to the entry index) of the fields, from the bytes"""
    nt = rd(ns_old, 3)
    off = 4 + nt
    nsig = rd(ns_old, off, 2)
    off2 = (off + 2 + nsig) if is12 else off
    cal = rd(ns_old, off2, 2)
    return nt, off, nsig, off2, cal


def _cr12_ensures(ns):
    res = []
    for is12 in (True, False):
        nt, off, nsig, off2, cal = cr12_layout(ns.old, is12)
        b, i0 = ns.old.f(ns.p, 'bytes'), ns.old.f(ns.p, 'index')
        facts = [list_decodes(ns.f(ns.self, 'certificate_types'), b, i0 + 4, 1, nt),
                 # exactness: the parser stands exactly at the end of the declared CA list, which is the end of the
                 # declared handshake body
                 cr_idx(ns) == i0 + off2 + 2 + cal,
                 hs_len(ns.old) == off2 + 2 + cal - 3,
                 p_inv_of(ns, ns.p),
                 S.len_(ns.f(ns.self, 'certificate_authorities')) >= 0,
                 2 * S.len_(ns.f(ns.self, 'certificate_authorities')) <= cal]
        if is12:
            exts = ns.f(ns.self, 'extensions')
            ok = hasattr(exts, 'items') and len(exts.items) == 1 and isinstance(exts.items[0], VObj)
            facts.append(ok)
            if ok:
                sig = ns.f(exts.items[0], '_internal_value')
                facts += [nsig % 2 == 0, ns.f(exts.items[0], 'extType') == 13,
                          tuples_decode(sig, 2, b, i0 + off + 2, 1, div(nsig, 2))]
        guard = (ns.f(ns.self, 'version') == (3, 3)) if is12 else (ns.f(ns.self, 'version') != (3, 3))
        res.append(S.implies(guard, S.And(*facts)))
    return S.And(*res)


_CR12_MOD = [('self', 'certificate_types'), ('self', 'certificate_authorities'), ('self', 'extensions'),
             ('p', 'index'), ('p', 'lengthCheck'), ('p', 'indexCheck')]

_variant(M + 'CertificateRequest._parse_tls12', name='CertificateRequest._parse_tls12',
         params={'self': _cr(), 'p': PARSER},
         requires=lambda ns: p_inv_of(ns, ns.p) & (ns.f(ns.self, 'version') <= (3, 3)),
         result=T.opaque(), modifies=_CR12_MOD,
         ensures=_cr12_ensures,
         raises={DecodeError: None},
         exc_ensures=lambda ns: S.And(cr_idx(ns) >= cr_idx(ns.old), p_inv_of(ns, ns.p)),
         loops={1: LoopSpec(cr_inv_calist, variant=lambda ns: S.len_(ns.f(ns.p, 'bytes')) - cr_idx(ns),
                            modifies_fields=[('p', 'index'), ('self', 'certificate_authorities')],
                            field_types={('self', 'certificate_authorities'): 'abslist'},
                            fingerprint='index != ca_list_length')},
         prop=PROP,
         doc='TLS <= 1.2 CertificateRequest body: normal return only if the DistinguishedName entries end exactly at the '
             'declared 2-byte list length and everything adds up to the uint24 handshake length (a list length that is '
             'too small, too large or ends inside an entry is a DecodeError); certificate_types and (TLS 1.2) the '
             'signature algorithm pairs are the decoded bytes; nothing but DecodeError can be raised; the loop terminates')


def _cr_new(api, st, version):
    outs = api.ex.instantiate(MSG.CertificateRequest, [version], {}, st, api.fr, None)
    assert len(outs) == 1 and outs[0].kind == 'normal', outs
    return outs[0].val, outs[0].st


def _method(api, obj, name, args, st):
    res = []
    for o in api.ex.getattr_(obj, name, st, api.fr, None):
        res.extend(api.ex.call(o.val, list(args), {}, o.st, api.fr, None) if o.kind == 'normal' else [o])
    return res


def _bytes_eq(a, b):
    return S.And(S.len_(a) == S.len_(b), S.forall(lambda k: at(a, k) == at(b, k), 0, S.len_(b)))


def _cr12_setup(api, tls12, k):
    """x = CertificateRequest(version).create(types, [k DistinguishedNames], sig_algs) through the real constructor and
    create(); y = a second fresh CertificateRequest(version)"""
    from pyvc.values import VList
    st = api.st
    version = VTuple([VInt(3), VInt(3)]) if tls12 else VTuple([VInt(3), api.make('minor', T.int(0, 2), st)])
    x, st = _cr_new(api, st, version)
    y, st = _cr_new(api, st, version)
    types = api.make('types', T.ints(), st)
    cas = [api.make('dn%d' % i, T.bytes(), st) for i in range(k)]
    sig = api.make('sigalgs', T.tuples(2), st) if tls12 else VNone()
    outs = _method(api, x, 'create', [types, VList(cas), sig], st)
    assert len(outs) == 1 and outs[0].kind == 'normal', outs
    return x, y, types, cas, sig, outs[0].st


def cr12_layout_facts(wire, tls12, types, sig, cas):
    """RFC 5246 7.4.4 layout of a TLS <= 1.2 CertificateRequest handshake message (including the 4-byte handshake
    header) carrying exactly these values, as a list of named facts over `wire`.  Shared by the write-side lemma
    (write(x) has this layout) and the parse-side lemma (any byte string with this layout parses to x)."""
    nt = S.len_(types)
    ns = S.len_(sig) * 2 if tls12 else None
    cal = _lift(0)
    for dn in cas:
        cal = cal + 2 + S.len_(dn)
    o = (5 + nt + 2 + ns) if tls12 else (5 + nt)
    body = o + 2 + cal - 4

    # every fact is stated in the plain form and in the form that instantiates on any slice / element term of `wire`
    # (CC.header_at / CC.region_at / position-indexed content): both are proved on the write side
    def u(lo, n, v):
        return S.And(VInt(smt.s_val(smt.s_slice(wire.t, _lift(lo).t, (_lift(lo) + n).t))) == v, CC.header_at(wire, lo, n, v))

    def content(q_, dn_):
        return S.And(S.forall(lambda t: at(wire, q_ + 2 + t) == at(dn_, t), 0, S.len_(dn_)),
                     S.forall(lambda i: at(wire, i) == at(dn_, i - q_ - 2), q_ + 2, q_ + 2 + S.len_(dn_)))
    facts = [('length', S.And(S.len_(wire) == 4 + body, S.is_bytes(wire))),
             ('msg_type', at(wire, 0) == CR_T),
             ('uint24-length', u(1, 3, body)),
             ('certificate_types-length', u(4, 1, nt)),
             ('certificate_types', S.And(S.forall(lambda k: elem_at(wire, _lift(5), k, 1) == at(types, k), 0, nt),
                                         CC.region_at(wire, _lift(5), types, _lift(1))))]
    if tls12:
        facts += [('signature_algorithms-length', S.And(u(5 + nt, 2, ns), ns % 2 == 0, div(ns, 2) == S.len_(sig))),
                  ('signature_algorithms', S.And(S.forall(lambda k: S.And(elem_at(wire, 7 + nt, k * 2, 1) == at(sig, k)[0],
                                                                          elem_at(wire, 7 + nt, k * 2 + 1, 1) == at(sig, k)[1]),
                                                          0, S.len_(sig)),
                                                 CC.region_at(wire, 7 + nt, sig, _lift(1), 2)))]
    facts.append(('certificate_authorities-length', u(o, 2, cal)))
    q = o + 2
    for j, dn in enumerate(cas):
        facts.append(('DistinguishedName-%d-length' % j, u(q, 2, S.len_(dn))))
        facts.append(('DistinguishedName-%d' % j, content(q, dn)))
        q = q + 2 + S.len_(dn)
    return facts, o, cal


def cr12_wf(tls12, types, sig, cas):
    """the values are representable (otherwise write raises ValueError)"""
    cs = [S.len_(types) < 256, S.forall(lambda k: (at(types, k) >= 0) & (at(types, k) < 256), 0, S.len_(types))]
    if tls12:
        cs += [S.len_(sig) * 2 < 65536,
               S.forall(lambda k: S.And(at(sig, k)[0] >= 0, at(sig, k)[0] < 256, at(sig, k)[1] >= 0, at(sig, k)[1] < 256), 0, S.len_(sig))]
    tot = _lift(0)
    for dn in cas:
        cs.append(S.len_(dn) < 65536)
        tot = tot + 2 + S.len_(dn)
    cs.append(tot < 65536)
    return S.And(*cs)


def _mk_cr12_lemmas(tls12, k):
    tag = 'tls12' if tls12 else 'tls10-11'
    what = '%s framing, %d DistinguishedName entries, any certificate_types%s, any entry contents (empty lists included)' % (
        tag, k, ' and signature algorithms' if tls12 else '')

    @scenario('layout-CertificateRequest-%s-%dCA' % (tag, k), PROP,
              doc='write side (%s): CertificateRequest(version).create(..).write() has exactly the RFC 5246 7.4.4 layout '
                  '(all length fields are the sums of what they enclose); ValueError iff a value does not fit; real '
                  'constructor / create / write bodies' % what)
    def layout(api):
        x, y, types, cas, sig, st = _cr12_setup(api, tls12, k)
        wf = cr12_wf(tls12, types, sig, cas)
        for o in _method(api, x, 'write', [], st):
            if o.kind == 'raise':
                api.oblige(o.st, 'write-raises-only-ValueError', issubclass(o.val.cls, ValueError))
                api.oblige(o.st, 'write-raises-only-when-not-representable', S.Not(wf))
                continue
            facts, _, _ = cr12_layout_facts(o.val, tls12, types, sig, cas)
            for (nm, f) in facts:
                api.oblige(o.st, 'layout:' + nm, f)
                o.st.assume(_lift(f).t)

    @scenario('parse-CertificateRequest-%s-%dCA' % (tag, k), PROP,
              opts={'no_invariant': {M + 'CertificateRequest._parse_tls12'}},
              doc='parse side (%s): every byte string with that layout is accepted by CertificateRequest(version).parse, '
                  'gives back equal fields (an empty list stays an empty list) and is consumed exactly; with the layout '
                  'lemma: parse(Parser(write(x))) == x' % what)
    def parse(api):
        x, y, types, cas, sig, st = _cr12_setup(api, tls12, k)
        wire = api.make('wire', T.bytes(), st)
        facts, _, _ = cr12_layout_facts(wire, tls12, types, sig, cas)
        st.assume(cr12_wf(tls12, types, sig, cas).t)
        for (nm, f) in facts:
            st.assume(_lift(f).t)
        p, st2 = _parser_at(api, st, wire, 1)
        for o2 in _normal(api, _method(api, y, 'parse', [p], st2), 'parse'):
            ns = api.ns(o2.st)
            got_t = ns.f(y, 'certificate_types')
            api.oblige(o2.st, 'certificate_types-back',
                       S.And(S.len_(got_t) == S.len_(types), S.forall(lambda j: at(got_t, j) == at(types, j), 0, S.len_(types))))
            got_ca = ns.f(y, 'certificate_authorities')
            ok_shape = hasattr(got_ca, 'items') and len(got_ca.items) == k
            api.oblige(o2.st, 'certificate_authorities-count-back', ok_shape)
            if ok_shape:
                for i in range(k):
                    api.oblige(o2.st, 'certificate_authority-%d-back' % i, _bytes_eq(got_ca.items[i], cas[i]))
            if tls12:
                for o3 in _normal(api, api.ex.getattr_(y, 'supported_signature_algs', o2.st, api.fr, None), 'sigalgs-getter'):
                    g = o3.val
                    if isinstance(g, VNone):
                        api.unreachable(o3.st, 'present-signature-algorithms-parsed-as-None')
                        continue
                    api.oblige(o3.st, 'signature-algorithms-back',
                               S.And(S.len_(g) == S.len_(sig),
                                     S.forall(lambda j: S.And(at(g, j)[0] == at(sig, j)[0], at(g, j)[1] == at(sig, j)[1]),
                                              0, S.len_(sig))))
            api.oblige(o2.st, 'consumed-exactly', ns.f(p, 'index') == S.len_(wire))

    @scenario('ca-length-mismatch-CertificateRequest-%s-%dCA' % (tag, k), PROP,
              opts={'no_invariant': {M + 'CertificateRequest._parse_tls12'}},
              doc='O-exact (%s): the same layout but with ANY other value in the 2-byte certificate_authorities length '
                  '(smaller, larger, ending inside an entry) is rejected with DecodeError' % what)
    def mismatch(api):
        x, y, types, cas, sig, st = _cr12_setup(api, tls12, k)
        wire = api.make('wire', T.bytes(), st)
        facts, o, cal = cr12_layout_facts(wire, tls12, types, sig, cas)
        st.assume(cr12_wf(tls12, types, sig, cas).t)
        declared = api.make('declared', T.int(0, 65535), st)
        st.assume((declared != cal).t)
        for (nm, f) in facts:
            if nm == 'certificate_authorities-length':
                f = S.And(VInt(smt.s_val(smt.s_slice(wire.t, _lift(o).t, (_lift(o) + 2).t))) == declared,
                          CC.header_at(wire, o, 2, declared))
            st.assume(_lift(f).t)
        p, st2 = _parser_at(api, st, wire, 1)
        _must_raise(api, _method(api, y, 'parse', [p], st2), 'parse-with-wrong-ca-length', DecodeError)


for _tls12 in (True, False):
    for _k in (0, 1, 2, 3):
        _mk_cr12_lemmas(_tls12, _k)


# =======================================================================================================
# TLSExtension: generic header  extension_type(2) length(2) extension_data  and the handler dispatch
# =======================================================================================================
def _tostr_model(ex, args, kwargs, st, fr, node):
    from pyvc.executor import Outcome
    from pyvc.values import VStr
    return [Outcome('normal', st, VStr('<enum name>'))]


REG.external['tlslite/constants.py:TLSEnum.toStr'] = _tostr_model
REG.note('C08', 'trusted', 'TLSEnum.toStr (used only to format the DecodeError message in TLSExtension.parse) returns a string and '
         'raises nothing')

TE = T.obj(EXT.TLSExtension, extType=T.int(), _extData=T.bytes(), serverType=T.const(False), encExtType=T.const(False),
           cert=T.const(False), hrr=T.const(False))


def te_fits(ns):
    return S.And(ns.f(ns.self, 'extType') >= 0, ns.f(ns.self, 'extType') < 65536, S.len_(ns.f(ns.self, '_extData')) < 65536)


_variant(E + 'TLSExtension.write', name='TLSExtension.write[generic]', params={'self': TE}, result=T.bytes(),
         ensures=lambda ns: (lambda t, d: S.And(
             te_fits(ns), S.seq_eq(ns.result, S.cat(S.be(t, 2), S.be(S.len_(d), 2), d)), S.len_(ns.result) == 4 + S.len_(d),
             only_modifies(ns)))(ns.f(ns.self, 'extType'), ns.f(ns.self, '_extData')),
         raises={ValueError: ('iff', lambda ns: S.Not(te_fits(ns)))}, prop=PROP,
         doc='extension_type(2) || uint16 len || extension_data; ValueError iff the type or the length does not fit 16 bits')

UNIVERSAL_TYPES = sorted(EXT.TLSExtension._universalExtensions)


def te_p(ns):
    return ns.p


def te_bad(ns):
    b, i = ns.f(ns.p, 'bytes'), ns.f(ns.p, 'index')
    rem = S.len_(b) - i
    n = VInt(smt.s_val(smt.s_slice(b.t, (i + 2).t, (i + 4).t)))
    return S.Or(rem < 4, S.And(rem >= 4, rem < 4 + n))


_variant(E + 'TLSExtension.parse', name='TLSExtension.parse[unknown-type]', params={'self': TE, 'p': PARSER},
         requires=lambda ns: (lambda b, i: S.And(
             p_inv_of(ns, ns.p),
             # the type on the wire has no registered handler (client-side context: universal table only)
             S.implies(S.len_(b) - i >= 2,
                       S.And(*[VInt(smt.s_val(smt.s_slice(b.t, i.t, (i + 2).t))) != t for t in UNIVERSAL_TYPES]))))(
                           ns.f(ns.p, 'bytes'), ns.f(ns.p, 'index')),
         result=T.opaque(), modifies=[('self', 'extType'), ('self', '_extData'), ('p', 'index')],
         ensures=lambda ns: (lambda b, i: (lambda n: S.And(
             ns.f(ns.self, 'extType') == VInt(smt.s_val(smt.s_slice(b.t, i.t, (i + 2).t))),
             S.len_(ns.f(ns.self, '_extData')) == n,
             S.forall(lambda k: at(ns.f(ns.self, '_extData'), k) == at(b, i + 4 + k), 0, n),
             ns.f(ns.p, 'index') == i + 4 + n, p_inv_of(ns, ns.p),
             only_modifies(ns, (ns.self, 'extType'), (ns.self, '_extData'), (ns.p, 'index'))))(
                 VInt(smt.s_val(smt.s_slice(b.t, (i + 2).t, (i + 4).t)))))(ns.old.f(ns.p, 'bytes'), ns.old.f(ns.p, 'index')),
         raises={DecodeError: ('iff', te_bad)},
         exc_ensures=lambda ns: S.And(ns.f(ns.p, 'index') >= ns.old.f(ns.p, 'index'), p_inv_of(ns, ns.p)),
         prop=PROP,
         doc='an extension whose type has no handler is kept verbatim: type, and exactly the declared number of payload '
             'bytes; consumes 4+len; DecodeError iff the header or the payload is truncated')


def _mk_dispatch(cls, kind):
    cn = cls.__name__

    @scenario('ext-dispatch-%s' % cn, PROP,
              doc='%s().create(v).write() parsed with the generic TLSExtension().parse (client-side context) is dispatched to '
                  'the same handler class, gives an equal value and consumes exactly the extension (header type/length '
                  'agree with the payload)' % cn)
    def disp(api):
        x, st = _new(api, cls, api.st)
        g, st = _new(api, EXT.TLSExtension, st)
        v = api.make('value', VALUE_T[kind], st)
        st.heap[(x.oid, '_internal_value')] = v
        for o in _normal(api, _method(api, x, 'write', [], st), 'write', allow=(ValueError,)):
            wire = o.val
            p, st2 = _parser_at(api, o.st, wire, 0)
            for o2 in _normal(api, _method(api, g, 'parse', [p], st2), 'parse'):
                r = o2.val
                same_cls = isinstance(r, VObj) and r.cls is cls
                api.oblige(o2.st, 'same-handler-class', same_cls)
                if not same_cls:
                    continue
                ns = api.ns(o2.st)
                got = ns.f(r, '_internal_value')
                if isinstance(got, VNone):
                    api.unreachable(o2.st, 'present-value-parsed-as-absent(None)')
                    continue
                api.oblige(o2.st, 'value-back', _same_value(kind, got, v))
                api.oblige(o2.st, 'consumed-exactly', ns.f(p, 'index') == S.len_(wire))


for _cls, _kind in SUBCLASSES:
    if EXT.TLSExtension._universalExtensions.get(_cls().extType) is _cls:
        _mk_dispatch(_cls, _kind)


# =======================================================================================================
# NewSessionTicket1_0 (RFC 5077 3.3): ticket_lifetime_hint(4) ticket<0..2^16-1>
# =======================================================================================================
from contracts.messages_simple import body_at, p_consumed, p_mono_exc, PMOD, remaining as m_remaining, p_ok as m_p_ok, _roundtrip, _eq_fields

NST10 = T.obj(MSG.NewSessionTicket1_0, handshakeType=T.const(MSG.NewSessionTicket1_0().handshakeType),
              ticket_lifetime=T.int(), ticket=T.bytes())
NST_T = MSG.NewSessionTicket1_0().handshakeType


def nst10_fits(ns):
    return S.And(ns.f(ns.self, 'ticket_lifetime') >= 0, ns.f(ns.self, 'ticket_lifetime') < (1 << 32),
                 S.len_(ns.f(ns.self, 'ticket')) < 65536)


contract(M + 'NewSessionTicket1_0.write', params={'self': NST10}, result=T.bytes(),
         ensures=lambda ns: (lambda lt, tk: S.And(
             nst10_fits(ns),
             S.seq_eq(ns.result, S.cat(S.byte(NST_T), S.be(6 + S.len_(tk), 3), S.be(lt, 4), S.be(S.len_(tk), 2), tk)),
             S.len_(ns.result) == 10 + S.len_(tk), only_modifies(ns)))(ns.f(ns.self, 'ticket_lifetime'), ns.f(ns.self, 'ticket')),
         raises={ValueError: ('iff', lambda ns: S.Not(nst10_fits(ns)))}, prop=PROP,
         doc='04 || uint24 len || uint32 lifetime || uint16 len || ticket; ValueError iff a field does not fit')

contract(M + 'NewSessionTicket1_0.parse', params={'self': NST10, 'parser': PARSER},
         requires=lambda ns: p_inv_of(ns, ns.parser), result=T.opaque(),
         modifies=[('self', 'ticket_lifetime'), ('self', 'ticket'), ('parser', 'index'), ('parser', 'lengthCheck'), ('parser', 'indexCheck')],
         ensures=lambda ns: (lambda n: S.And(
             hs_len(ns.old) == 6 + n, ns.f(ns.self, 'ticket_lifetime') == rd(ns.old, 3, 4),
             S.seq_eq(ns.f(ns.self, 'ticket'), body_at(ns.old, 9, n)), S.len_(ns.f(ns.self, 'ticket')) == n,
             p_consumed(ns, 9 + n, ['ticket_lifetime', 'ticket'])))(rd(ns.old, 7, 2)),
         raises={DecodeError: ('iff', lambda ns: S.Or(m_remaining(ns) < 9,
                                                      S.And(m_remaining(ns) >= 9,
                                                            S.Or(m_remaining(ns) < 9 + rd(ns, 7, 2), hs_len(ns) != 6 + rd(ns, 7, 2)))))},
         exc_ensures=p_mono_exc(['ticket_lifetime', 'ticket']), prop=PROP,
         doc='uint24 length must equal 6 + the uint16 ticket length exactly; DecodeError iff truncated or the lengths disagree')

# (write(parse(w)) == w is not asked here: it needs encode(decode(b)) == b on a 4-byte integer in non-linear arithmetic;
#  the differential run `tickets` checks it concretely)
_roundtrip('NewSessionTicket1_0', NST10, NST10, 'NewSessionTicket1_0', 1, _eq_fields('ticket_lifetime', 'ticket'), rewrite=False)


# =======================================================================================================
# CertificateRequest, TLS 1.3 framing (RFC 8446 4.3.2): certificate_request_context<0..2^8-1> extensions<2..2^16-1>
# Shown for the extension block the RFC requires (signature_algorithms, any list of pairs incl. the empty one),
# optionally followed by one extension of an unregistered type (kept verbatim), and for the empty block.
# =======================================================================================================
def _cr13_setup(api, n_sig, n_gen):
    from pyvc.values import VList
    st = api.st
    version = VTuple([VInt(3), VInt(4)])
    x, st = _cr_new(api, st, version)
    y, st = _cr_new(api, st, version)
    ctx = api.make('context', T.bytes(), st)
    exts, vals = [], []
    if n_sig:
        e, st = _new(api, EXT.SignatureAlgorithmsExtension, st)
        sig = api.make('sigalgs', T.tuples(2), st)
        st.heap[(e.oid, '_internal_value')] = sig
        exts.append(e)
        vals.append(('sig', sig))
    if n_gen:
        g, st = _new(api, EXT.TLSExtension, st)
        gt = api.make('gtype', T.int(0, 65535), st)
        st.assume(S.And(*[gt != t for t in UNIVERSAL_TYPES]).t)
        gd = api.make('gdata', T.bytes(), st)
        st.heap[(g.oid, 'extType')] = gt
        st.heap[(g.oid, '_extData')] = gd
        exts.append(g)
        vals.append(('gen', (gt, gd)))
    st.heap[(x.oid, 'certificate_request_context')] = ctx
    st.heap[(x.oid, 'extensions')] = VList(exts)
    return x, y, ctx, vals, st


def cr13_layout_facts(wire, ctx, vals):
    nc = S.len_(ctx)
    blocks = []
    for kind, v in vals:
        blocks.append((4 + 2 + S.len_(v) * 2) if kind == 'sig' else (4 + S.len_(v[1])))
    el = _lift(0)
    for b in blocks:
        el = el + b
    body = 1 + nc + 2 + el

    def u(lo, n, v):
        return S.And(VInt(smt.s_val(smt.s_slice(wire.t, _lift(lo).t, (_lift(lo) + n).t))) == v, CC.header_at(wire, lo, n, v))

    def content(q_, d_):
        return S.And(S.forall(lambda t: at(wire, q_ + t) == at(d_, t), 0, S.len_(d_)),
                     S.forall(lambda i: at(wire, i) == at(d_, i - q_), q_, q_ + S.len_(d_)))
    facts = [('length', S.And(S.len_(wire) == 4 + body, S.is_bytes(wire))),
             ('msg_type', at(wire, 0) == CR_T),
             ('uint24-length', u(1, 3, body)),
             ('context-length', u(4, 1, nc)),
             ('context', content(5 + nc * 0, ctx)),
             ('extensions-length', u(5 + nc, 2, el))]
    q = 7 + nc
    for (kind, v), blen in zip(vals, blocks):
        if kind == 'sig':
            ns_ = S.len_(v) * 2
            facts += [('sigalgs-ext-type', u(q, 2, 13)), ('sigalgs-ext-length', u(q + 2, 2, 2 + ns_)),
                      ('sigalgs-list-length', S.And(u(q + 4, 2, ns_), ns_ % 2 == 0, div(ns_, 2) == S.len_(v))),
                      ('sigalgs-list', S.And(S.forall(lambda k: S.And(elem_at(wire, q + 6, k * 2, 1) == at(v, k)[0],
                                                                      elem_at(wire, q + 6, k * 2 + 1, 1) == at(v, k)[1]), 0, S.len_(v)),
                                             CC.region_at(wire, q + 6, v, _lift(1), 2)))]
        else:
            facts += [('generic-ext-type', u(q, 2, v[0])), ('generic-ext-length', u(q + 2, 2, S.len_(v[1]))),
                      ('generic-ext-data', content(q + 4, v[1]))]
        q = q + blen
    return facts


def cr13_wf(ctx, vals):
    cs = [S.len_(ctx) < 256]
    tot = _lift(0)
    for kind, v in vals:
        if kind == 'sig':
            cs += [S.len_(v) * 2 + 2 < 65536,
                   S.forall(lambda k: S.And(at(v, k)[0] >= 0, at(v, k)[0] < 256, at(v, k)[1] >= 0, at(v, k)[1] < 256), 0, S.len_(v))]
            tot = tot + 6 + S.len_(v) * 2
        else:
            cs.append(S.len_(v[1]) < 65536)
            tot = tot + 4 + S.len_(v[1])
    cs.append(tot < 65536)
    return S.And(*cs)


def _mk_cr13_lemmas(n_sig, n_gen, write_side=True):
    tag = 'tls13-%s' % ('+'.join((['sigalgs'] if n_sig else []) + (['unknown-ext'] if n_gen else [])) or 'no-ext')

    def _reg(fn):
        return scenario('layout-CertificateRequest-%s' % tag, PROP,
                        doc='write side, TLS 1.3 framing (%s): write() has exactly the RFC 8446 4.3.2 layout, every length '
                            'field is the sum of what it encloses; ValueError iff something does not fit' % tag)(fn) \
            if write_side else fn

    @_reg
    def layout(api):
        x, y, ctx, vals, st = _cr13_setup(api, n_sig, n_gen)
        wf = cr13_wf(ctx, vals)
        for o in _method(api, x, 'write', [], st):
            if o.kind == 'raise':
                api.oblige(o.st, 'write-raises-only-ValueError', issubclass(o.val.cls, ValueError))
                api.oblige(o.st, 'write-raises-only-when-not-representable', S.Not(wf))
                continue
            for (nm, f) in cr13_layout_facts(o.val, ctx, vals):
                api.oblige(o.st, 'layout:' + nm, f)
                o.st.assume(_lift(f).t)

    @scenario('parse-CertificateRequest-%s' % tag, PROP,
              opts={'no_invariant': {M + 'CertificateRequest._parse_tls13'}},
              doc='parse side, TLS 1.3 framing (%s): every byte string with that layout is accepted, gives back the context and '
                  'the extensions (same handler class, equal value; an empty signature_algorithms list stays an empty list) and '
                  'is consumed exactly' % tag)
    def parse(api):
        x, y, ctx, vals, st = _cr13_setup(api, n_sig, n_gen)
        wire = api.make('wire', T.bytes(), st)
        st.assume(cr13_wf(ctx, vals).t)
        for (nm, f) in cr13_layout_facts(wire, ctx, vals):
            st.assume(_lift(f).t)
        p, st2 = _parser_at(api, st, wire, 1)
        for o2 in _normal(api, _method(api, y, 'parse', [p], st2), 'parse', allow=()):
            ns = api.ns(o2.st)
            api.oblige(o2.st, 'context-back', _bytes_eq(ns.f(y, 'certificate_request_context'), ctx))
            got = ns.f(y, 'extensions')
            ok_shape = hasattr(got, 'items') and len(got.items) == len(vals)
            api.oblige(o2.st, 'extension-count-back', ok_shape)
            if ok_shape:
                for e, (kind, v) in zip(got.items, vals):
                    if kind == 'sig':
                        okc = isinstance(e, VObj) and e.cls is EXT.SignatureAlgorithmsExtension
                        api.oblige(o2.st, 'sigalgs-handler-class', okc)
                        if okc:
                            g = ns.f(e, '_internal_value')
                            api.oblige(o2.st, 'sigalgs-present', not isinstance(g, VNone))
                            if not isinstance(g, VNone):
                                api.oblige(o2.st, 'sigalgs-back', _same_value('pairs', g, v))
                    else:
                        okc = isinstance(e, VObj) and e.cls is EXT.TLSExtension
                        api.oblige(o2.st, 'unknown-extension-kept-generic', okc)
                        if okc:
                            api.oblige(o2.st, 'unknown-extension-back',
                                       S.And(ns.f(e, 'extType') == v[0], _bytes_eq(ns.f(e, '_extData'), v[1])))
            api.oblige(o2.st, 'consumed-exactly', ns.f(p, 'index') == S.len_(wire))


_mk_cr13_lemmas(0, 0)
_mk_cr13_lemmas(1, 0, write_side=False)
REG.note('C15', 'not_built', 'CertificateRequest TLS 1.3 framing: the write-side layout lemma is proved only for the empty extension block; '
         'for a non-empty block (nested Writers: ext.write() copied into sub_writer, then into the message) and for the parse side '
         'with more than the signature_algorithms extension only the differential run specs.extensions_codec:certificate_request covers it. '
         'CertificateRequest TLS <= 1.2: proved for 0..3 DistinguishedName entries (contents and all other lists arbitrary); the exactness '
         'contract CertificateRequest._parse_tls12 holds for any number of entries')
REG.note('C15', 'not_built', 'NewSessionTicket (TLS 1.3), SessionTicketPayload v0-v2, EncryptedExtensions, extension classes outside the four '
         'parametric families (SNI, ALPN, key_share, pre_shared_key, status_request, ...): no contracts; NewSessionTicket (no extensions) and '
         'SessionTicketPayload v0/v2 without client certificates are covered by the differential run specs.extensions_codec:tickets')
REG.note('C15', 'assumptions', 'extension families: round trips are proved per concrete subclass through its real constructor (widths 1/2, '
         'tuple arity 2); the symbolic-parameter contracts require elemLength >= 1 / lengthLength >= 0; with lengthLength == 0 or '
         'elem_length == 0 a present empty value would be indistinguishable from the absent one (no subclass uses 0)')
for _p in PROP:
    REG.xchecks.append({'prop': _p, 'module': 'specs.extensions_codec', 'name': 'extension_families', 'function': E + 'VarListExtension.parse'})
    REG.xchecks.append({'prop': _p, 'module': 'specs.extensions_codec', 'name': 'certificate_request', 'function': M + 'CertificateRequest._parse_tls12'})
    REG.xchecks.append({'prop': _p, 'module': 'specs.extensions_codec', 'name': 'tickets', 'function': M + 'NewSessionTicket1_0.parse'})
