"""Small contracts added after looking at which seeded changes were missed (DESIGN.md section 11)."""
import ast
import os

import z3

import tlslite.session as SESSION
from pyvc.contract import contract, REG
from pyvc.asttask import AstTask
from pyvc.state import T
from pyvc import spec as S, source
from pyvc.values import VBool, truthy

# --- Session.valid (C13): a session is usable for resumption only while `resumable` is set ---------------------
for _vn, _sid, _tk, _tk10 in (('id', 'bytes', 'empty', 'empty'), ('ticket13', 'emptyb', 'nonempty', 'empty'),
                              ('ticket12', 'emptyb', 'empty', 'nonempty'), ('nothing', 'emptyb', 'empty', 'empty'),
                              ('none-tickets', 'emptyb', 'none', 'none')):
    def _mk(kind):
        if kind == 'bytes':
            return T.bytes()
        if kind == 'emptyb':
            return T.const(bytearray(0))
        if kind == 'empty':
            return T.const([])
        if kind == 'nonempty':
            return T.const([1])
        return T.none()

    def _ens(ns, sid=_sid, tk=_tk, tk10=_tk10):
        r = truthy(ns.result) if not isinstance(ns.result, VBool) else ns.result.t
        res = ns.f(ns.self, 'resumable')
        have = z3.BoolVal(tk == 'nonempty' or tk10 == 'nonempty')
        if sid == 'bytes':
            have = z3.Or(have, S.len_(ns.f(ns.self, 'sessionID')).t > 0)
        # RFC 5246 7.2.2 / property C13: never resumable after it was invalidated, whatever identifiers it holds
        return VBool(r == z3.And(truthy(res), have))
    contract('tlslite/session.py:Session.valid', name='Session.valid[%s]' % _vn,
             params={'self': T.obj(SESSION.Session, resumable=T.bool(), sessionID=_mk(_sid), tickets=_mk(_tk),
                                   tls_1_0_tickets=_mk(_tk10))},
             result=T.bool(), ensures=_ens, raises={}, prop=('C13',),
             doc='valid() is true iff the session is still resumable AND holds a session id or a ticket (a session '
                 'invalidated by a fatal error is never offered again, tickets or not)')


# --- RSAKey._key_hash (C11): the per-key secret behind implicit rejection is derived in decrypt only --------------
class KeyHashWriters(AstTask):
    def run(self, reg, meta):
        root = os.path.join(source.REPO, 'tlslite')
        sites = []
        for dp, dn, fn in os.walk(root):
            for f in fn:
                if not f.endswith('.py'):
                    continue
                path = os.path.join(dp, f)
                tree = source.module_ast(path)
                for cls in ast.walk(tree):
                    if not isinstance(cls, ast.ClassDef):
                        continue
                    for fdef in cls.body:
                        if not isinstance(fdef, ast.FunctionDef):
                            continue
                        for n in ast.walk(fdef):
                            if isinstance(n, ast.Attribute) and n.attr == '_key_hash' and isinstance(n.ctx, (ast.Store, ast.Del)):
                                sites.append((os.path.relpath(path, source.REPO), cls.name, fdef.name, n.lineno))
                            if isinstance(n, ast.Call) and isinstance(n.func, ast.Name) and n.func.id == 'setattr':
                                if any(isinstance(a, ast.Constant) and a.value == '_key_hash' for a in n.args):
                                    sites.append((os.path.relpath(path, source.REPO), cls.name, fdef.name, n.lineno))
        self.holds('store-sites-found', 'ast', len(sites) >= 1, reason='no store of _key_hash found')
        for (rel, cls, fn, line) in sites:
            ok = (rel == 'tlslite/utils/rsakey.py' and cls == 'RSAKey' and fn in ('decrypt', '__init__'))
            self.holds('_key_hash-store@%s:%s.%s:L%d:only-in-RSAKey.decrypt-or-cleared-in-__init__' % (rel, cls, fn, line), 'ast', ok,
                       reason='_key_hash is assigned in %s.%s: the decrypt contract assumes it is unset or SHA-256(I2OSP(d,k)), '
                              'established by decrypt itself from the CURRENT private exponent' % (cls, fn), where=line)
            if ok and fn == '__init__':
                # in __init__ only the constant None may be stored
                fs = source.load('tlslite/utils/rsakey.py:RSAKey.__init__')
                good = False
                for n in ast.walk(fs.node):
                    if isinstance(n, ast.Assign) and any(isinstance(t, ast.Attribute) and t.attr == '_key_hash' for t in n.targets):
                        good = isinstance(n.value, ast.Constant) and n.value.value is None
                self.holds('_key_hash-in-__init__-is-None', 'ast', good, reason='__init__ must not pre-compute the key hash', where=line)


REG.add_task(KeyHashWriters('_key_hash-writers', ('C11',), 'tlslite/utils/rsakey.py:RSAKey.decrypt',
                            doc='whole-repository scan: RSAKey._key_hash (seed of the synthetic message) is assigned only by '
                                'RSAKey.decrypt (derived there from the current d), so decrypt is a function of (key, ciphertext) '
                                'for every way a key object is built'))


# --- tasks of other modules that also carry a second property ---------------------------------------------------
# (a task is run for every property in its `prop` tuple; the owning modules were written per area, these are the
#  cross-property links found when looking at which seeded changes were missed)
def _also(task_key_substr, module, *props):
    import importlib
    importlib.import_module(module)
    for k in REG.task_keys():
        if task_key_substr in k:
            t = REG.task(k)
            t.prop = tuple(t.prop) + tuple(p for p in props if p not in t.prop)


# C10/C11: "concurrent private-key operations on one RSA key all return the mathematically correct result" is what makes
# RSA decrypt/sign a function of (key, input): the blinding pair must be read and advanced inside one critical section
_also('lock-discipline[Python_RSAKey._rawPrivateKeyOp]', 'contracts.sessioncache', 'C10', 'C11')
# C01: "no record put on the wire ever carries more plaintext than the limit in force": the server's send limit from the
# client's record_size_limit extension (TLS 1.3: minus the content-type byte)
_also('_serverGetClientHello/record-size-limit', 'contracts.m2_server', 'C01')
