"""rogue server, two cases the client MUST answer with illegal_parameter (RFC 8446 4.1.4 / 4.2.1):
 hrr-then-12 : HelloRetryRequest (selected_version 1.3) followed by a TLS 1.2 ServerHello
 sv-selects-11: ServerHello(server_version 1.2) whose supported_versions extension selects TLS 1.1
legacy11-sv13: ServerHello(legacy_version 1.1, TLS_RSA_WITH_AES_128_CBC_SHA) + supported_versions=1.3 + key_share:
   the suite is filtered for 1.1 but the client enters the TLS 1.3 flow -> TypeError in calcTLS1_3PendingState
Observation: does the client abort at the ServerHello or keep waiting for the next flight?"""
import sys, traceback, socket
sys.path.insert(0, '/verif/design_probes')  # loop.py harness
from loop import *
from tlslite.messages import ServerHello
from tlslite.extensions import SrvSupportedVersionsExtension, HRRKeyShareExtension
from tlslite.constants import (ContentType, HandshakeType, ExtensionType, TLS_1_3_HRR, GroupName, CipherSuite)
from tlslite.utils.cryptomath import getRandomBytes
mode = sys.argv[1]

def drive(gen):
    r = None
    for r in gen:
        pass
    return r

def getch(conn):
    for r in conn._getMsg(ContentType.handshake, HandshakeType.client_hello):
        if r not in (0, 1): break
    return r

def server(conn):
    conn._handshakeStart(client=False)
    log = []
    ch = getch(conn)
    if mode == 'hrr-then-12':
        hrr = ServerHello().create((3, 3), TLS_1_3_HRR, ch.session_id, CipherSuite.TLS_ECDHE_RSA_WITH_AES_128_CBC_SHA,
                                   extensions=[SrvSupportedVersionsExtension().create((3, 4)),
                                               HRRKeyShareExtension().create(GroupName.secp384r1)])
        drive(conn._sendMsg(hrr)); conn.version = (3, 4)
        ch = getch(conn)
        conn.version = (3, 3)
        sh = ServerHello().create((3, 3), getRandomBytes(32), bytearray(0), CipherSuite.TLS_AES_128_GCM_SHA256)
        # suite must be one that is defined for 1.2 to pass the filter: use a 1.2 suite, HRR suite check then fires?
        sh = ServerHello().create((3, 3), getRandomBytes(32), ch.session_id, CipherSuite.TLS_ECDHE_RSA_WITH_AES_128_CBC_SHA)
    elif mode == 'legacy11-sv13':
        from tlslite.extensions import ServerKeyShareExtension, KeyShareEntry
        from tlslite.constants import GroupName
        ks = ch.getExtension(ExtensionType.key_share).client_shares[0]
        ext = [SrvSupportedVersionsExtension().create((3, 4)),
               ServerKeyShareExtension().create(KeyShareEntry().create(ks.group, ks.key_exchange))]
        sh = ServerHello().create((3, 2), getRandomBytes(32), ch.session_id,
                                  CipherSuite.TLS_RSA_WITH_AES_128_CBC_SHA, extensions=ext)
    else:
        sh = ServerHello().create((3, 3), getRandomBytes(32), bytearray(0),
                                  CipherSuite.TLS_ECDHE_RSA_WITH_AES_128_CBC_SHA,
                                  extensions=[SrvSupportedVersionsExtension().create((3, 2))])
    drive(conn._sendMsg(sh))
    conn.sock.settimeout(2)
    try:
        for r in conn._getMsg((ContentType.handshake, ContentType.alert, ContentType.change_cipher_spec), HandshakeType.client_hello):
            if r not in (0, 1): break
        log.append(('client answered', type(r).__name__, getattr(r, 'description', None)))
    except socket.timeout:
        log.append('client sent nothing for 2 s: it accepted the ServerHello and waits for the next flight')
        conn.sock.close()
    except Exception as e:
        log.append(('then', repr(e)))
    return log

cs = HandshakeSettings()
def client(conn):
    try:
        conn.handshakeClientCert(settings=cs)
        return 'completed'
    except Exception as e:
        import traceback; return ('client raised', type(e).__name__, str(e)[:100], [l.strip() for l in traceback.format_exc().splitlines() if 'tlsconnection.py' in l][-2:])
print(run(client, server))
